"""C20: the probe domain (option names and values with small integer codes) and the table extraction.

Names and values are coded by their index in NAMES / VALUES.  The lists are rebuilt from the imported module on every
run (`build()`), so a new global option or a changed default moves into the generated table and the theorems are
re-checked against it.
"""

import ast
import re

MARKER = '__options_checked'
BOGUS_NAMES = ['bogus', 'PARS', 'trivia_']     # never options; the second and third are near-misses of real names

# names the five `_get_opt_eff_*` resolvers read (their codes are exported to the Lean table)
EFF_NAMES = ['pars', 'pars_arglike', 'norm', 'norm_self', 'norm_get', 'set_norm']
EFF_FUNCS = ['_get_opt_eff_pars_arglike', '_get_opt_eff_norm_self', '_get_opt_eff_norm_get',
             '_get_opt_eff_set_norm_self', '_get_opt_eff_set_norm_get']

# fixed part of the probe value domain (DESIGN.md section 4, C20); object-valued probes are appended by build()
_PLAIN_VALUES = [
    True, False, None, 0, 1, 2, -1, 1.0, 0.0, 1.5,
    'auto', 'star', 'call', 'left', 'right', 'strict', 'identifier', 'all', 'block', 'none', 'line',
    'all+1', 'block-', 'line+1', '+', '-2', '', 'x', 'pos', 'kw_maybe', '<',
    (), (True,), ('line',), ('all', 'line'), ('line', 'all'), ('line', True), ('line+1', 'line'), ('line-', 'none'), ('none', 'none'), (False, 'line-'), (3, 'x'), (1, 2, 3),
    [], ['<'], ['is', 'not'], ['not in'], ['>='],        # lists: MUTABLE option objects (accepted by `op`)
]


# documented tokens of the `trivia` option (docstring of FST.options): each may stand alone, as the only element of a
# 1-tuple (trailing position) or at either position of a 2-tuple (leading, trailing); plus near-misses and non-tokens
TRIV_TOKENS = [True, False, 0, 2, -1, 'all', 'block', 'none', 'line', 'all+', 'all+1', 'block-', 'block-3', 'none+2',
               'line+', 'line-1', '+', '-2', '', 'x', 'lines', 'all+x', 'ALL', None, 1.5, ['all']]


def _is_plain(v):
    return v is None or isinstance(v, (bool, int, float, str, tuple, list))


def _key(v):
    """True / 1 / 1.0 compare (and hash) equal in Python: the code of a value is decided by type and repr."""
    return (type(v).__name__, repr(v))


class Domain:
    def __init__(self):
        from fst import FST
        from fst import fst_options as fo

        self.fo = fo
        self.FST = FST
        self.global_names = list(fo._GLOBAL_OPTIONS_W_DEFAULTS)                # dict order = get_options() order
        self.dyn_names = sorted(fo._DYN_OPTIONS)
        self.names = self.global_names + self.dyn_names + [MARKER] + BOGUS_NAMES
        self.name_code = {n: i for i, n in enumerate(self.names)}
        values = list(_PLAIN_VALUES)
        # object-valued probes: a cmpop type, a cmpop instance, a cmpop FST, a non-cmpop FST, a non-cmpop AST
        self.objects = [ast.Lt, ast.Lt(), FST('<', 'cmpop'), FST('a'), ast.Name(id='a', ctx=ast.Load())]
        self.object_names = ['ast.Lt', 'ast.Lt()', "FST('<','cmpop')", "FST('a')", "ast.Name('a')"]
        values += self.objects
        keys = {_key(v) for v in _PLAIN_VALUES}
        for d in fo._GLOBAL_OPTIONS_W_DEFAULTS.values():                        # defaults always belong to the domain
            if not _is_plain(d):
                raise RuntimeError(f'default {d!r} is not a plain value; extend the probe domain')
            if _key(d) not in keys:
                keys.add(_key(d))
                values.append(d)
        self.values = values
        self._by_key = {_key(v): i for i, v in enumerate(values) if _is_plain(v)}
        self._by_id = {id(v): i for i, v in enumerate(values) if not _is_plain(v)}
        self.none_code = self._by_key[_key(None)]
        self.true_code = self._by_key[_key(True)]

    # ---- coding -------------------------------------------------------------------------------------------------
    def enc(self, v):
        """value -> code BY VALUE (type and repr), for object probes by identity.  A value outside the probe domain
        (e.g. a list option that drifted) is coded as '?repr': always a disagreement with the model and with any
        earlier snapshot"""
        if _is_plain(v):
            c = self._by_key.get(_key(v))
            return c if c is not None else '?' + repr(v)[:60]
        return self._by_id.get(id(v), -1)

    def enc_opt(self, v, missing):
        return None if v is missing else self.enc(v)

    def enc_map(self, d):
        """a dict of options -> [[name code, value code], ...] in dict order (unknown names coded -1)"""
        return [[self.name_code.get(k, -1), self.enc(v)] for k, v in d.items()]

    def dec_kvs(self, kvs, shared=None):
        """[[name code, value code], ...] -> kwargs dict (codes are distinct by construction of the generators).
        Mutable values (lists) are never the domain's own objects: a fresh copy, or - with `shared` - the one object
        the running program owns for that value (a caller that builds its option objects once and reuses them)."""
        out = {}
        for n, v in kvs:
            val = self.values[v]
            if isinstance(val, list):
                if shared is None:
                    val = list(val)
                else:
                    val = shared.setdefault(v, list(val))
            out[self.names[n]] = val
        return out

    def mutable_codes(self):
        return [i for i, v in enumerate(self.values) if isinstance(v, list)]

    def value_repr(self, i):
        v = self.values[i]
        return repr(v) if _is_plain(v) else self.object_names[self.objects.index(v)]

    # ---- extraction ---------------------------------------------------------------------------------------------
    def classify(self, name, value, all_):
        """check_options({name: value}, all_) -> 'ok' | 'name' | 'value' (the two ValueErrors) | 'crash' (the check
        function itself raises something else, e.g. TypeError for an unhashable value: still a rejection before
        anything is changed, modelled as its own error class)"""
        try:
            self.fo.check_options({name: value}, all_)
        except ValueError as e:
            return classify_error(str(e))[0]
        except Exception:
            return 'crash'
        return 'ok'

    def tables(self):
        """Evaluate check_options on names x values, both for all=False (set_options/options) and all=True (calls)."""
        out = {}
        for all_ in (False, True):
            tab = []
            for n in self.names:
                if n == MARKER:
                    continue            # a mapping holding the marker is never checked: modelled as such, see marker_ok()
                res = [self.classify(n, v, all_) for v in self.values]
                kinds = set(res)
                if 'other' in kinds:
                    raise RuntimeError(f'check_options({n!r}: ...) raised a ValueError of unknown form')
                if 'name' in kinds:
                    if kinds != {'name'}:
                        raise RuntimeError(f'option {n!r} is unknown for some values and known for others')
                    continue            # unknown name: absent from the table
                tab.append((self.name_code[n], [i for i, r in enumerate(res) if r == 'ok'],
                            [i for i, r in enumerate(res) if r == 'crash']))
            out[all_] = tab
        return out

    def marker_ok(self):
        """Does a mapping containing the marker key skip validation altogether (as check_options is written)?"""
        try:
            self.fo.check_options({BOGUS_NAMES[0]: 1, MARKER: True}, False)
            self.fo.check_options({self.global_names[0]: (1, 2, 3), MARKER: True}, True)
        except ValueError:
            return False
        return True


_re_bad_name = re.compile(r"^invalid option '((?:[^'\\]|\\.)*)'$")
_re_bad_value = re.compile(r"^invalid '((?:[^'\\]|\\.)*)' option value ")


def classify_error(msg):
    """ValueError text of check_options / set_options -> ('name' | 'value' | 'other', option name)"""
    if m := _re_bad_name.match(msg):
        return 'name', m.group(1)
    if m := _re_bad_value.match(msg):
        return 'value', m.group(1)
    return 'other', None


def lean_table(dom: Domain) -> str:
    t = dom.tables()
    lst = lambda xs: '[' + ', '.join(str(x) for x in xs) + ']'
    pairs = lambda ps: '[' + ', '.join(f'({a}, {b})' for a, b in ps) + ']'
    acc = lambda tab: '[\n' + ',\n'.join(f'  ({n}, {lst(vs)}, {lst(cs)})' for n, vs, cs in tab) + ']'
    strs = lambda xs: '[' + ', '.join('"' + x.replace('\\', '\\\\').replace('"', '\\"') + '"' for x in xs) + ']'
    defaults = [(dom.name_code[k], dom.enc(v)) for k, v in dom.fo._GLOBAL_OPTIONS_W_DEFAULTS.items()]
    eff = []
    for n in EFF_NAMES:
        if n not in dom.name_code:
            raise RuntimeError(f'option {n!r} read by the _get_opt_eff_* resolvers no longer exists')
        eff.append(dom.name_code[n])
    s = '-- GENERATED by harness/c20_domain.py from the imported fst.fst_options on every run of `./check C20`; do not edit\n'
    s += '/-! Extensional tables of `src/fst/fst_options.py`: names and probe values are coded by their index. -/\n'
    s += 'namespace Pfst.Gen.Options\n\n'
    s += f'/-- option names; code = index.  globals (dict order), dynamic call-only options, the checked marker, non-options -/\n'
    s += f'def names : List String := {strs(dom.names)}\n\n'
    s += f'/-- probe values (repr); code = index -/\ndef values : List String := {strs([dom.value_repr(i) for i in range(len(dom.values))])}\n\n'
    s += f'/-- `_GLOBAL_OPTIONS_W_DEFAULTS` as (name code, value code), dict order -/\ndef defaults : List (Nat × Nat) := {pairs(defaults)}\n\n'
    s += f'/-- `_DYN_OPTIONS` -/\ndef dyn : List Nat := {lst(dom.name_code[n] for n in dom.dyn_names)}\n\n'
    s += ('/-- `\'__options_checked\'`: a mapping holding this key is returned unchecked by `check_options` '
          '(`none` if that is no longer so) -/\n')
    s += f'def marker : Option Nat := {"some " + str(dom.name_code[MARKER]) if dom.marker_ok() else "none"}\n\n'
    s += f'def noneVal : Nat := {dom.none_code}\ndef trueVal : Nat := {dom.true_code}\n\n'
    s += '/-- name codes of pars, pars_arglike, norm, norm_self, norm_get, set_norm (read by the `_get_opt_eff_*` resolvers) -/\n'
    s += f'def effNames : List Nat := {lst(eff)}\n\n'
    s += ('/-- `check_options({name: value}, all=False)`: (name, accepted value codes, value codes on which the check '
          'function raises something other than ValueError); a name that is absent is rejected as "invalid option" -/\n')
    s += f'def acceptGlobal : List (Nat × List Nat × List Nat) := {acc(t[False])}\n\n'
    s += '/-- `check_options({name: value}, all=True)` -/\n'
    s += f'def acceptAll : List (Nat × List Nat × List Nat) := {acc(t[True])}\n\n'
    # tokens of `trivia` as the check function classifies them: (isinstance int, isinstance str, matches the module's
    # `_re_trivia_leading`, matches `_re_trivia_trailing`)
    b = lambda x: 'true' if x else 'false'
    toks = []
    for t in TRIV_TOKENS:
        st = isinstance(t, str)
        toks.append(f'({b(isinstance(t, int))}, {b(st)}, {b(st and bool(dom.fo._re_trivia_leading.match(t)))}, '
                    f'{b(st and bool(dom.fo._re_trivia_trailing.match(t)))})')
    s += '/-- tokens of the `trivia` option: (is int, is str, matches `_re_trivia_leading`, matches `_re_trivia_trailing`) -/\n'
    s += f'def trivTokens : List (Bool × Bool × Bool × Bool) := [{", ".join(toks)}]\n'
    s += f'def trivTokenReprs : List String := {strs([repr(t) for t in TRIV_TOKENS])}\n'
    s += f"/-- index of the token 'line' (valid only in the trailing position) -/\ndef trivLine : Nat := {TRIV_TOKENS.index('line')}\n\n"
    s += 'end Pfst.Gen.Options\n'
    return s
