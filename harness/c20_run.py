"""C20: program generator, the interpreter that runs option programs on the real pfst API (one thread, or several real
threads stepped in lock-step), and the catalogue of option-sensitive tree edits."""

import json
import random
import re
import sys
import threading

import c20_domain

_DOM = None


def dom():
    global _DOM
    if _DOM is None:
        _DOM = c20_domain.Domain()
    return _DOM


_MISSING = object()


# ---- resetting the option store (after every case, also on failure) -------------------------------------------------

def reset_options():
    """Put the calling thread's option defaults back to `_GLOBAL_OPTIONS_W_DEFAULTS` without relying on set_options."""
    d = dom()
    try:
        cur = d.fo._OPTIONS.__dict__
        cur.clear()
        cur.update(d.fo._GLOBAL_OPTIONS_W_DEFAULTS)
    except Exception:
        try:
            d.FST.set_options(**d.fo._GLOBAL_OPTIONS_W_DEFAULTS)
        except Exception:
            pass


def at_defaults():
    d = dom()
    cur = d.FST.get_options()
    dft = d.fo._GLOBAL_OPTIONS_W_DEFAULTS
    return list(cur) == list(dft) and d.enc_map(cur) == d.enc_map(dft)


# ---- option-sensitive edits (each works on trees created by the calling thread) -------------------------------------

_re_addr = re.compile(r'0x[0-9a-fA-F]+')


def _exc(e):
    return 'EXC ' + type(e).__name__ + ': ' + _re_addr.sub('0x', str(e))[:100]


def _e_copy_par(F, o, st, chk):
    return F('[(a), b]').elts[0].copy(**o).src


def _e_replace_binop(F, o, st, chk):
    f = F('a * b')
    f.left.replace('c + d', **o)
    return f.src


def _e_replace_par(F, o, st, chk):
    f = F('[a, b]')
    f.elts[0].replace('(c)', **o)
    return f.src


def _e_walrus(F, o, st, chk):
    return F('[a := 1, b]').elts[0].copy(**o).src


def _e_arglike(F, o, st, chk):
    return F('f(*not a, b)').args[0].copy(**o).src


def _e_cut_stmt(F, o, st, chk):
    f = F('a\n\n# c1\n\n# c2\nb # line\n# post\n\nc\n')
    s = f.body[1].cut(**o)
    return s.src + '\x00' + f.src


def _e_set_del(F, o, st, chk):
    f = F('{a, b}')
    f.put_slice(None, 0, 2, **o)
    return f.src


def _e_set_get(F, o, st, chk):
    f = F('{a, b}')
    g = f.get_slice(0, 2, cut=True, **o)
    return g.src + '\x00' + f.src + '\x00' + F('{a, b}').get_slice(0, 0, **o).src


def _e_pep8(F, o, st, chk):
    f = F('x = 1\ny = 2\n')
    f.body.append('def f(): pass', **o)
    return f.src


def _e_elif(F, o, st, chk):
    f = F('if a:\n  b\nelse:\n  c\n')
    f.orelse[0].replace('if d: e', **o)
    return f.src


def _e_docstr(F, o, st, chk):
    f = F('def f():\n    """doc\n    string"""\n    """not\n    doc"""\n')
    return f.body[1].copy(**o).src + '\x00' + f.body[0].copy(**o).src


class Chk:
    """hooks the edits call after every pfst API call (registry residue) and for follow-up-vs-alone comparisons"""

    def __init__(self, sink=None, registry=False):
        self.sink = sink
        self.registry = registry

    def api(self, what=''):
        if self.registry and self.sink is not None and registry_size():
            if ['registry|not-empty-after-call', what] not in self.sink:
                self.sink.append(['registry|not-empty-after-call', what])      # not cleared here: the follow-up edit
                                                                               # must show what the residue does

    def same(self, what, got, ref, kind='edit|follow-up-differs-from-alone'):
        if self.sink is not None and got != ref:
            self.sink.append([kind, what, got[:160], ref[:160]])


NOCHK = Chk()


def copy_opts(o):
    """per-call options with every mutable value (list) copied"""
    return {k: (list(v) if isinstance(v, list) else v) for k, v in o.items()}


# -- option-dependent READ accessors, called on the SAME long-lived node objects of the thread -----------------------

RO_SRC = ('''class C:
    # pre
    def f(self):  # line
        """doc
        string"""
        return (1)  # ret

    x = {a, b}
''')


def _ro(F, st):
    """the thread's long-lived, never modified tree (the reference run of an edit has none: fresh tree)"""
    if st is None:
        return F(RO_SRC, 'exec')
    if 'ro' not in st:
        st['ro'] = F(RO_SRC, 'exec')
    return st['ro']


def _mk_read(name, read, takes_options):
    """`read(tree, o) -> str`.  The read on the long-lived node must equal the same read on a fresh tree made in the
    same thread at the same moment (same effective options): a memoised answer keyed by anything but the effective
    option values breaks exactly this."""
    def safe(tree, o):
        try:
            r = read(tree, o)
            return r if isinstance(r, str) else repr(r)
        except Exception as e:
            return _exc(e)

    def edit(F, o, st, chk):
        got = safe(_ro(F, st), o)
        chk.api(name)
        ref = safe(F(RO_SRC, 'exec'), copy_opts(o))
        chk.api(name)
        chk.same(f'{name} on a long-lived unmodified node vs the same read on a fresh tree under the same options',
                 got, ref, 'read|long-lived-node-differs-from-fresh-tree')
        return got
    edit.__name__ = '_e_' + name
    edit.takes_options = takes_options
    return edit


_fn = lambda t: t.body[0].body[0]
_READS = [
    _mk_read('own_src_default', lambda t, o: _fn(t).own_src(), False),
    _mk_read('own_lines_default', lambda t, o: '\n'.join(_fn(t).own_lines()), False),
    _mk_read('own_src_true', lambda t, o: _fn(t).own_src(docstr=True), False),
    _mk_read('own_src_false', lambda t, o: _fn(t).own_src(docstr=False), False),
    _mk_read('own_src_strict', lambda t, o: _fn(t).own_src(docstr='strict'), False),
    _mk_read('own_src_docstr_expr', lambda t, o: _fn(t).body[0].own_src() + '|' + _fn(t).body[0].value.own_src(), False),
    _mk_read('own_src_class', lambda t, o: t.body[0].own_src(whole=False), False),
    _mk_read('get_docstr', lambda t, o: _fn(t).get_docstr(), False),
    _mk_read('get_line_comment', lambda t, o: repr(_fn(t).get_line_comment()) + repr(_fn(t).body[1].get_line_comment()), False),
    _mk_read('copy_func', lambda t, o: _fn(t).copy(**o).src, True),
    _mk_read('copy_ret_value', lambda t, o: _fn(t).body[1].value.copy(**o).src, True),
    _mk_read('get_slice_class_body', lambda t, o: t.body[0].get_slice(0, 1, 'body', **o).src, True),
    _mk_read('get_slice_set_empty', lambda t, o: t.body[0].body[1].value.get_slice(0, 0, **o).src, True),
]

# -- public entry points that set options INTERNALLY: reconcile() pins its own defaults while it works ----------------

def _mk_reconcile(name, src, damage):
    """mark(), damage the AST outside pfst, reconcile(): `damage` may make the reconcile fail midway (after its
    up-front checks, while its private option block is active)"""
    def edit(F, o, st, chk):
        import ast as A
        f = F(src, 'exec').mark()
        damage(f, A)
        try:
            r = f.reconcile().src
        except Exception as e:
            r = _exc(e)
        chk.api('reconcile')
        return r
    edit.__name__ = '_e_' + name
    edit.takes_options = False
    return edit


def _dmg_value(f, A):
    f.a.body[0].value = A.Constant(value=7)


def _dmg_target(f, A):
    f.a.body[0].targets[0] = A.Constant(value=5)


def _dmg_dict(f, A):
    f.a.body[0].value.keys.append(A.Name(id='c', ctx=A.Load()))


def _dmg_del(f, A):
    f.a.body[0].targets[0] = A.BinOp(left=A.Name(id='x', ctx=A.Load()), op=A.Add(), right=A.Constant(value=1))


def _dmg_body(f, A):
    f.a.body[0].body = []


_RECONCILE = [
    _mk_reconcile('reconcile_ok', 'a = 1  # one\nb = 2\n', _dmg_value),
    _mk_reconcile('reconcile_fail_target', 'a = 1\nb = 2\n', _dmg_target),
    _mk_reconcile('reconcile_fail_dict', 'd = {a: 1, b: 2}\n', _dmg_dict),
    _mk_reconcile('reconcile_fail_del', 'del a, b\n', _dmg_del),
    _mk_reconcile('reconcile_fail_body', 'if a:\n    b\nc\n', _dmg_body),
]

# -- operations that empty their target: behaviour decided by the effective norm_self / norm_get / set_norm ---------

def _e_del_empty(F, o, st, chk):
    f = F('del a, b')
    g = f.get_slice(0, 2, cut=True, **o)
    chk.api('get_slice')
    return g.src + '\x00' + f.src


def _e_body_empty(F, o, st, chk):
    f = F('if a:\n    b\n    c\n')
    g = f.get_slice(0, 2, 'body', cut=True, **o)
    chk.api('get_slice')
    return g.src + '\x00' + f.src


def _e_matchor_empty(F, o, st, chk):
    f = F('match x:\n  case a | b: pass')
    g = f.a.cases[0].pattern.f.get_slice(0, 2, cut=True, **o)
    chk.api('get_slice')
    return g.src + '\x00' + f.src


def _e_matchor_one(F, o, st, chk):
    f = F('match x:\n  case a | b: pass')
    g = f.a.cases[0].pattern.f.get_slice(0, 1, cut=True, **o)
    chk.api('get_slice')
    return g.src + '\x00' + f.src


def _e_arglike_slice(F, o, st, chk):
    """slice copy of an arglike-only argument: resolved by _get_opt_eff_pars_arglike (the single-element copy is not)"""
    r = F('call(x, *not a, y)').get_slice(1, 3, 'args', **o).src
    chk.api('get_slice')
    return r


def _e_arglike_get(F, o, st, chk):
    r = F('call(*not a)').get(0, 'args', **o).src
    chk.api('get')
    return r


def _e_arglike_to_list(F, o, st, chk):
    f = F('call(x, *not a)')
    g = F('[z]')
    g.put_slice(f.get_slice(0, 2, 'args', **o), 1, 1, 'elts', **copy_opts(o))
    chk.api('put_slice')
    return g.src


def _e_arglike_bases_cut(F, o, st, chk):
    f = F('class C(x, *a or b): pass')
    s = f.get_slice(0, 2, 'bases', cut=True, **o)
    chk.api('get_slice')
    return s.src + '\x00' + f.src


NORM_EDITS = [_e_set_del, _e_set_get, _e_del_empty, _e_body_empty, _e_matchor_empty, _e_matchor_one]
PARS_EDITS = [_e_copy_par, _e_replace_binop, _e_replace_par, _e_walrus, _e_arglike, _e_arglike_slice, _e_arglike_get,
              _e_arglike_to_list, _e_arglike_bases_cut]


# -- edits that consume the `op` / `op_side` options (Compare slices need an extra operator) -------------------------

def _e_cmp_ins(F, o, st, chk):
    f = F('a == b')
    f.put_slice('x', 1, 1, **o)
    chk.api('put_slice')
    return f.src


def _e_cmp_ins_first(F, o, st, chk):
    f = F('a == b < c')
    f.put_slice('x', 0, 0, **o)
    chk.api('put_slice')
    return f.src


def _e_cmp_repl(F, o, st, chk):
    f = F('a == b < c')
    f.put_slice('x', 1, 2, **o)
    chk.api('put_slice')
    return f.src


def _e_cmp_ins3(F, o, st, chk):
    """the identical insertion three times, on three fresh trees, with the very same option objects"""
    out = []
    for _ in range(3):
        f = F('a == b')
        try:
            f.put_slice('x', 1, 1, **o)
            out.append(f.src)
        except Exception as e:
            out.append(_exc(e))
        chk.api('put_slice')
    chk.same('identical edit repeated with the same option objects', out[1] + '|' + out[2], out[0] + '|' + out[0])
    return '\x00'.join(out)


# -- par() / unpar() followed by an unrelated edit of another node of the same tree ---------------------------------

def _follow(F, f, target, new, o, chk, what):
    mid = f.src

    def edit(tree):
        try:
            target(tree).replace(new, **copy_opts(o))
            return tree.src
        except Exception as e:
            return _exc(e)
    got = edit(f)
    chk.api(what + ' + replace')
    ref = edit(F(mid))            # the same edit with no history: on a tree built from the intermediate source
    chk.api('replace')
    chk.same(what + ' then an unrelated edit of the same tree', got, ref)
    return mid + '\x00' + got


def _mk_unpar(name, src, node_of, target, kw, pre=()):
    def edit(F, o, st, chk):
        f = F(src)
        n = node_of(f)
        for meth, mkw in pre:
            getattr(n, meth)(**mkw)
            chk.api(meth)
        n.unpar(**kw)
        chk.api(f'unpar({kw})')
        return _follow(F, f, target, 'y', o, chk, f'{name}: unpar({kw}) on {src!r}')
    edit.__name__ = '_e_' + name
    return edit


_asg_val = lambda f: f.a.value.f
_asg_tgt = lambda f: f.a.targets[0].f
_mat_pat = lambda f: f.a.cases[0].pattern.f
_mat_sub = lambda f: f.a.subject.f
_UNPAR = [
    _mk_unpar('unpar_tuple_node', 'x = ((a, b))', _asg_val, _asg_tgt, {'node': True}),
    _mk_unpar('unpar_tuple_invalid', 'x = (((a, b)))', _asg_val, _asg_tgt, {'node': 'invalid'}),
    _mk_unpar('unpar_tuple_grouping', 'x = ((a, b))', _asg_val, _asg_tgt, {}),
    _mk_unpar('unpar_tuple_unshared', 'x = ((a, b))', _asg_val, _asg_tgt, {'node': True, 'shared': False}),
    _mk_unpar('unpar_list_invalid', 'x = ([a, b])', _asg_val, _asg_tgt, {'node': 'invalid'}),
    _mk_unpar('unpar_matchseq_brackets', 'match x:\n  case ([a, b]): pass', _mat_pat, _mat_sub, {'node': True}),
    _mk_unpar('unpar_matchseq_parens', 'match x:\n  case ((a, b)): pass', _mat_pat, _mat_sub, {'node': 'invalid'}),
    _mk_unpar('par_unpar_tuple', 'x = a, b', _asg_val, _asg_tgt, {'node': True}, pre=(('par', {}), ('par', {'force': True}))),
    _mk_unpar('par_unpar_name', 'x = a', _asg_val, _asg_tgt, {'node': True}, pre=(('par', {}), ('par', {'force': True}))),
]
CMP_EDITS = [_e_cmp_ins, _e_cmp_ins_first, _e_cmp_repl, _e_cmp_ins3]


def _e_persist(F, o, st, chk):
    """cumulative edit of the thread's own long-lived tree"""
    t = st['tree']
    k = st['k'] = st['k'] + 1
    t.elts.append(f'(v{k} := {k})' if k % 2 else f'(w{k})', **o)
    if k % 3 == 0:
        t.elts[0].replace(f'(r{k})', **o)
    return t.src


EDITS = [_e_copy_par, _e_replace_binop, _e_replace_par, _e_walrus, _e_arglike, _e_cut_stmt, _e_set_del, _e_set_get,
         _e_pep8, _e_elif, _e_docstr, _e_arglike_slice, _e_arglike_get, _e_arglike_to_list, _e_arglike_bases_cut,
         _e_del_empty, _e_body_empty, _e_matchor_empty, _e_matchor_one,
         *CMP_EDITS, *_UNPAR, *_READS, *_RECONCILE, _e_persist]
READ_IDS = [EDITS.index(e) for e in _READS]
RECONCILE_IDS = [EDITS.index(e) for e in _RECONCILE]
NO_OPTS_IDS = [EDITS.index(e) for e in _READS + _RECONCILE if not e.takes_options]    # accessors without **options: always called bare
OPT_IDS = [i for i in range(len(EDITS) - 1) if i not in NO_OPTS_IDS]       # fresh-tree edits that take **options
NORM_IDS = [EDITS.index(e) for e in NORM_EDITS]
PARS_IDS = [EDITS.index(e) for e in PARS_EDITS]
CMP_IDS = [EDITS.index(e) for e in CMP_EDITS]
EDIT_NAMES = [f.__name__[3:] for f in EDITS]
PERSIST = EDITS.index(_e_persist)
N_FRESH = PERSIST            # edits [0, N_FRESH) build a fresh tree per call: their result is a function of the options


def new_state():
    return {'tree': dom().FST('[a]'), 'k': 0}


def run_edit(eid, opts, st, chk=NOCHK):
    try:
        return EDITS[eid](dom().FST, opts, st, chk)
    except Exception as e:
        return _exc(e)


def registry_clear():
    try:
        from fst import fst_core
        fst_core._MODIFYING.clear()
    except Exception:
        pass


def registry_size():
    """entries in the process-global `_MODIFYING` registry (0 whenever no pfst call is in flight)"""
    try:
        from fst import fst_core
        return len(fst_core._MODIFYING)
    except Exception:
        return 0


# ---- program generator ----------------------------------------------------------------------------------------------

class Gen:
    """Programs are lists of statements (codes, JSON-able):
       ["get", n, kvs] ["call", kvs, eid] ["set", kvs] ["block", kvs, [..]] ["raise"] ["catch", [..]]"""

    def __init__(self, rng: random.Random, tables, call_edits=None):
        d = dom()
        self.rng = rng
        self.d = d
        self.accG = {n: vs for n, vs, _ in tables[False]}
        self.accA = {n: vs for n, vs, _ in tables[True]}
        self.glob = [d.name_code[n] for n in d.global_names]
        self.other = [d.name_code[n] for n in d.names if n not in d.global_names]
        self.to = d.name_code.get('to')
        self.plain_vals = [i for i, v in enumerate(d.values) if c20_domain._is_plain(v)]
        self.call_edits = call_edits if call_edits is not None else list(range(len(EDITS)))
        self.n_op, self.n_op_side = d.name_code.get('op'), d.name_code.get('op_side')
        self.op_lists = [v for v in d.mutable_codes() if d.values[v]]
        self.sides = self.accG.get(self.n_op_side, [])

    def with_op(self, kvs, p_op, p_side):
        """make a keyword mapping use the `op` option as a list of source lines (a mutable object) / an `op_side`"""
        r = self.rng
        if self.n_op is None or not self.op_lists:
            return kvs
        kvs = [kv for kv in kvs]
        if r.random() < p_op:
            kvs = [kv for kv in kvs if kv[0] != self.n_op]
            kvs.insert(r.randrange(len(kvs) + 1), [self.n_op, r.choice(self.op_lists)])
        if self.sides and r.random() < p_side:
            kvs = [kv for kv in kvs if kv[0] != self.n_op_side]
            kvs.insert(r.randrange(len(kvs) + 1), [self.n_op_side, r.choice(self.sides)])
        return kvs

    def kvs(self, kind, p_bad=0.14):
        """kind: 'set' (global table), 'call' (all table), 'get' (no validation: anything)"""
        r = self.rng
        n = r.choice([0, 1, 1, 1, 2, 2, 3, 4]) if kind != 'set' else r.choice([0, 1, 1, 1, 2, 2, 3, 4])
        acc = self.accG if kind == 'set' else self.accA
        names = []
        pool = self.glob + self.other
        while len(names) < n:
            nm = r.choice(self.other) if p_bad > 0 and r.random() < 0.10 else r.choice(self.glob)
            if nm not in names:
                names.append(nm)
        out = []
        for nm in names:
            good = acc.get(nm)
            if good and (p_bad <= 0 or r.random() > p_bad / max(1, n) * 1.5):
                v = r.choice(good)
            else:
                v = r.randrange(len(self.d.values))
            if kind == 'call' and nm == self.to and v in (self.accA.get(nm) or []):
                v = self.d.none_code          # never hand a shared FST to a real edit as `to=`
            out.append([nm, v])
        return out

    def stmts(self, depth, n=None):
        r = self.rng
        n = n if n is not None else r.choice([2, 3, 3, 4, 4, 5, 6])
        out = []
        for _ in range(n):
            c = r.random()
            if c < 0.14:
                out.append(['get', r.choice(self.glob + self.other) if r.random() < 0.3 else r.choice(self.glob),
                            self.kvs('get')])
            elif c < 0.40:
                eid = r.choice(self.call_edits)
                kv = self.kvs('call')
                if eid in CMP_IDS:
                    kv = self.with_op(kv, 0.5, 0.5)
                if eid in NO_OPTS_IDS:
                    kv = []
                out.append(['call', kv, eid])
            elif c < 0.60:
                out.append(['set', self.kvs('set')])
            elif c < 0.82 and depth > 0:
                kv = self.kvs('set', 0.08)
                body = self.stmts(depth - 1)
                if r.random() < 0.2:
                    kv = self.with_op(kv, 0.9, 0.6)
                    cmp_ = [e for e in CMP_IDS if e in self.call_edits]
                    if cmp_:
                        e = r.choice(cmp_)
                        body = [['call', [], e]] * r.choice([1, 2, 3]) + body     # identical edits inside the block
                out.append(['block', kv, body])
            elif c < 0.90:
                out.append(['raise'])
            elif depth > 0:
                out.append(['catch', self.stmts(depth - 1)])
            else:
                out.append(['set', self.kvs('set')])
        return out

    def program(self):
        r = self.rng
        p = self.stmts(r.choice([1, 2, 2, 3, 3]), r.choice([3, 4, 5, 6, 7, 8]))
        # most programs keep going after an exception: wrap pieces in catch
        if r.random() < 0.8:
            p = [['catch', [s]] if s[0] in ('raise', 'block', 'set', 'call') and r.random() < 0.8 else s for s in p]
        return p


def prog_features(p, acc=None, depth=0):
    acc = acc if acc is not None else {'depth': 0, 'blocks': 0, 'raises': 0, 'sets': 0, 'calls': 0, 'gets': 0, 'catches': 0}
    for s in p:
        k = s[0]
        if k == 'block':
            acc['blocks'] += 1
            acc['depth'] = max(acc['depth'], depth + 1)
            prog_features(s[2], acc, depth + 1)
        elif k == 'catch':
            acc['catches'] += 1
            prog_features(s[1], acc, depth)
        else:
            acc[{'raise': 'raises', 'set': 'sets', 'call': 'calls', 'get': 'gets'}[k]] += 1
    return acc


# ---- interpreter on the real API ------------------------------------------------------------------------------------

class ProgRaise(Exception):
    """the exception a user program raises (and the form in which validation errors travel on, once recorded)"""


class Abort(BaseException):
    """the lock-step controller gave up (timeout)"""


class Runner:
    """Runs one program on the real API in the calling thread.  `turn` is called before every API step and `done`
    after it (lock-step hooks; no-ops when running alone)."""

    def __init__(self, turn=None, done=None):
        self.d = dom()
        self.trace = []
        self.edits = []         # [eid, result] per call step (result of the real tree edit)
        self.views = []         # per valid fresh-tree call: (eid, view values as Python objects) for the reference check
        self.anomalies = []     # direct property failures noticed while running
        self.state = new_state()
        self._turn = turn or (lambda: None)
        self._done = done or (lambda: None)
        self.exc = False
        self.last = None        # get_options() at the end of this thread's previous step
        self.registry = True    # check that `_MODIFYING` is empty after a call (only meaningful in lock-step / alone)
        self.shared = {}        # value code -> THE mutable option object this program owns for it (reused by all steps)
        self.same = {}          # (edit, per-call codes, defaults before) -> text: an edit is a function of these

    def dec(self, kvs):
        return self.d.dec_kvs(kvs, self.shared)

    def check_objects(self, what, kvs):
        """(a) of the per-call clause at the object level: no option object the program owns was changed (compared by
        value with the probe domain's pristine value, never with itself)"""
        for code, obj in self.shared.items():
            if obj != self.d.values[code] or repr(obj) != repr(self.d.values[code]):
                self.anomalies.append(['call|option-object-mutated', what, kvs, repr(self.d.values[code]), repr(obj)])
                self.shared[code] = list(self.d.values[code])       # keep going with a clean object

    # -- direct evaluation of the property while running (no model involved); reported through `anomalies` --------
    def turn(self):
        self._turn()
        cur = self.snap()
        if self.last is not None and cur != self.last:
            self.anomalies.append(['thread|options-changed-between-own-steps', self.last, cur])
        return cur

    def done(self):
        self.last = self.snap()
        self._done()

    def chk(self):
        return Chk(self.anomalies, self.registry)

    def snap(self):
        return self.d.enc_map(self.d.FST.get_options())

    def err_obs(self, e):
        if isinstance(e, ValueError):
            kind, name = c20_domain.classify_error(str(e))
            if kind != 'other':
                return ['err', kind, self.d.name_code.get(name, -1), self.snap()]
            return ['err', 'other:' + str(e)[:60], -1, self.snap()]
        return ['err', 'crash', -1, self.snap()]

    def top(self, prog):
        try:
            self.run(prog)
        except ProgRaise:
            self.exc = True
        return self.result()

    def result(self):
        return {'trace': self.trace, 'exc': self.exc, 'final': self.snap(), 'edits': self.edits,
                'tree': self.state['tree'].src, 'anomalies': self.anomalies}

    def run(self, stmts):
        for st in stmts:
            self.stmt(st)

    def stmt(self, st):
        d = self.d
        F = d.FST
        k = st[0]
        if k == 'catch':
            try:
                self.run(st[1])
            except ProgRaise:
                pass
            return
        if k == 'block':
            return self.block(st)
        prev = self.turn()
        try:
            if k == 'get':
                v = F.get_option(d.names[st[1]], self.dec(st[2]))
                self.trace.append(['val', d.enc(v), self.snap()])   # a missing option comes back as None as well
                if self.snap() != prev:
                    self.anomalies.append(['call|option-leaked', 'get_option', st[2]])
            elif k == 'raise':
                self.trace.append(['raise', self.snap()])
                raise ProgRaise()
            elif k == 'set':
                kw = self.dec(st[1])
                try:
                    old = F.set_options(**kw)
                except Exception as e:
                    self.trace.append(self.err_obs(e))
                    if self.snap() != prev:
                        self.anomalies.append(['set|rejected-but-state-changed', st[1], prev, self.snap()])
                    raise ProgRaise() from None
                self.trace.append(['set', d.enc_map(old), self.snap()])
            elif k == 'call':
                try:
                    self.call(st)
                finally:
                    if self.snap() != prev:
                        self.anomalies.append(['call|option-leaked', EDIT_NAMES[st[2]], st[1]])
            else:
                raise RuntimeError(f'unknown statement {k}')
        finally:
            self.check_objects(k, st[1] if k in ('set', 'call') else st[2] if k == 'get' else [])
            self.done()

    def call(self, st):
        d = self.d
        F = d.FST
        opts = self.dec(st[1])
        eid = st[2]
        defaults_before = self.snap()
        pre = None
        try:
            d.fo.check_options(opts)                 # what every edit entry point does first (all=True)
        except Exception as e:
            pre = e
        names = list(F.get_options())
        view = [F.get_option(n, opts) for n in names]
        effs = [getattr(F, fn)(opts) for fn in c20_domain.EFF_FUNCS]
        view_codes, eff_codes = [d.enc(v) for v in view], [d.enc(v) for v in effs]     # by value, BEFORE the edit runs
        view_copy = copy_opts(dict(zip(names, view)))
        before = self.state['tree'].src
        res = run_edit(eid, dict(opts), self.state, self.chk())
        self.edits.append([eid, res])
        if self.registry and registry_size():
            self.anomalies.append(['registry|not-empty-after-call', EDIT_NAMES[eid], st[1]])
            registry_clear()        # so that one leak is not reported again by every later step
        if eid < N_FRESH:
            key = (eid, json.dumps(st[1]), json.dumps(defaults_before))
            first = self.same.setdefault(key, res)
            if first != res:
                self.anomalies.append(['call|same-call-different-result', EDIT_NAMES[eid], st[1], first[:100], res[:100]])
        if pre is not None:
            if ('EXC ' + type(pre).__name__) not in res:      # multi-call edits report the option-taking call after \0
                self.anomalies.append(['call|invalid-option-not-rejected-by-edit', EDIT_NAMES[eid], st[1], res[:80]])
            if self.state['tree'].src != before:
                self.anomalies.append(['call|tree-changed-by-rejected-edit', EDIT_NAMES[eid], st[1]])
            self.trace.append(self.err_obs(pre))
            raise ProgRaise()
        if eid < N_FRESH and eid not in NO_OPTS_IDS and c20_domain.MARKER not in opts:     # with the marker the options were not validated
            self.views.append((eid, view_copy, res))
        self.trace.append(['view', view_codes, eff_codes, self.snap()])

    def block(self, st):
        d = self.d
        kw = self.dec(st[1])
        prev = self.turn()
        entered = False
        try:
            with d.FST.options(**kw) as old:
                entered = True
                self.trace.append(['enter', d.enc_map(dict(old)), self.snap()])
                self.done()
                try:
                    self.run(st[2])
                finally:
                    self.turn()                     # leaving the block is the next step of this thread
        except Abort:
            raise
        except BaseException as e:
            if not entered:
                self.trace.append(self.err_obs(e))
                if self.snap() != prev:
                    self.anomalies.append(['block|enter-rejected-but-state-changed', st[1], prev, self.snap()])
                self.done()
                raise ProgRaise() from None
            self.exit_obs(st, prev, 'exception')
            raise
        self.exit_obs(st, prev, 'normal')

    def exit_obs(self, st, prev, how):
        now = self.snap()
        self.check_objects('block', st[1])
        self.trace.append(['exit', now])
        pd, nd = dict(map(tuple, prev)), dict(map(tuple, now))
        bad = [n for n, _ in st[1] if pd.get(n) != nd.get(n)]
        if bad or [n for n, _ in prev] != [n for n, _ in now]:
            self.anomalies.append(['block|not-restored-on-' + how + '-exit', st[1], bad, prev, now])
        self.done()


def run_solo(prog):
    """one program, alone, in the calling thread; the thread's options are reset before and after"""
    reset_options()
    try:
        r = Runner()
        out = r.top(prog)
        out['views'] = r.views
        return out
    finally:
        reset_options()


def run_in_fresh_thread(func, *args, timeout=60):
    box = {}

    def target():
        try:
            box['out'] = func(*args)
        except BaseException as e:        # noqa
            box['err'] = repr(e)

    th = threading.Thread(target=target, daemon=True)
    th.start()
    th.join(timeout)
    if th.is_alive():
        raise RuntimeError('solo thread did not finish')
    if 'err' in box:
        raise RuntimeError('solo thread failed: ' + box['err'])
    return box['out']


def _solo_thread_body(prog):
    r = Runner()
    out = r.top(prog)
    out['views'] = r.views
    return out


def run_solo_thread(prog):
    """one program alone in a fresh thread (its thread-local store starts from the defaults)"""
    return run_in_fresh_thread(_solo_thread_body, prog)


# ---- several real threads in lock-step ------------------------------------------------------------------------------

class LockStep:
    """Controller: at each tick one live thread (chosen by `rng`) is allowed to do exactly one API step; everybody else
    is blocked on its semaphore.  The sequence of choices is the schedule handed to the model."""

    def __init__(self, progs, rng, timeout=30.0, plan=None):
        self.plan = list(plan or [])       # a prescribed schedule prefix (enumerated interleavings); then random
        self.progs = progs
        self.rng = rng
        self.n = len(progs)
        self.go = [threading.Semaphore(0) for _ in progs]
        self.fin = [threading.Semaphore(0) for _ in progs]
        self.finished = [False] * self.n
        self.has_turn = [False] * self.n
        self.abort = False
        self.results = [None] * self.n
        self.errors = [None] * self.n
        self.timeout = timeout
        self.sched = []
        self.main_before = None

    def _turn(self, i):
        def turn():
            if not self.go[i].acquire(timeout=self.timeout) or self.abort:
                raise Abort()
            self.has_turn[i] = True
        return turn

    def _done(self, i):
        def done():
            self.has_turn[i] = False
            self.fin[i].release()
        return done

    def _worker(self, i):
        turn, done = self._turn(i), self._done(i)
        try:
            r = Runner(turn, done)
            out = r.top(self.progs[i])
            out['views'] = r.views
            self.results[i] = out
        except Abort:
            self.errors[i] = 'aborted'
        except BaseException as e:      # noqa
            import traceback
            self.errors[i] = 'harness exception in worker: ' + traceback.format_exc()[-600:]
        finally:
            # the halting turn: tell the controller this thread is finished
            try:
                if not self.has_turn[i]:
                    self.go[i].acquire(timeout=self.timeout)
            finally:
                self.finished[i] = True
                self.fin[i].release()

    def run(self):
        ths = [threading.Thread(target=self._worker, args=(i,), daemon=True) for i in range(self.n)]
        for t in ths:
            t.start()
        live = list(range(self.n))
        try:
            while live:
                i = None
                while self.plan and i is None:
                    i = self.plan.pop(0)
                    if i not in live:
                        i = None
                if i is None:
                    i = self.rng.choice(live)
                self.sched.append(i)
                self.go[i].release()
                if not self.fin[i].acquire(timeout=self.timeout):
                    self.abort = True
                    raise RuntimeError(f'lock-step: thread {i} did not complete its step')
                if self.finished[i]:
                    live.remove(i)
        finally:
            if live:
                self.abort = True
                for i in live:
                    self.go[i].release()
            for t in ths:
                t.join(5)
        for i, e in enumerate(self.errors):
            if e:
                raise RuntimeError(f'lock-step thread {i}: {e}')
        return self.results, self.sched
