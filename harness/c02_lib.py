"""C02 helper: explicit, replayable edit histories on real pfst trees; the query battery ("what a user can read off a
tree"); id-free canonical forms; the link-graph dump that the Lean driver judges.

Nodes are addressed by their path in the *AST* (`ast` field names and list indices, found by walking `root.a` with
`a._fields`), never through pfst's own parent/pfield links, so a broken link cannot hide itself.

A history is a list of steps `{'pre': [[path, qname], ...], 'op': {...}}`; everything in it is plain JSON so a witness
can be replayed and minimised.
"""

from __future__ import annotations

import ast
import random

import util

# ---------------------------------------------------------------------------------------------------------------------
# addressing

def pstr(path):
    return '.'.join(f'{n}[{i}]' if i is not None else n for n, i in path) or '<root>'


def enum_nodes(root_a):
    """[(path, ast)] in preorder by raw AST structure."""
    out = []
    st = [((), root_a)]
    while st:
        path, a = st.pop()
        out.append((path, a))
        kids = []
        for field in a._fields:
            v = getattr(a, field, None)
            if isinstance(v, ast.AST):
                kids.append((path + ((field, None),), v))
            elif isinstance(v, list):
                for i, c in enumerate(v):
                    if isinstance(c, ast.AST):
                        kids.append((path + ((field, i),), c))
        st.extend(reversed(kids))
    return out


def at_path(root_a, path):
    a = root_a
    for n, i in path:
        a = getattr(a, n)
        if i is not None:
            a = a[i]
    return a


class Env:
    """Path lookup for one tree state."""

    def __init__(self, root):
        self.root = root
        self.nodes = enum_nodes(root.a)
        self.by_id = {id(a): p for p, a in self.nodes}

    def p(self, f):
        """canonical name of an FST (or None) returned by a navigation query"""
        if f is None:
            return None
        a = getattr(f, 'a', None)
        if a is None:
            return 'DEAD'
        p = self.by_id.get(id(a))
        if p is None:
            return 'FOREIGN:' + a.__class__.__name__
        if getattr(a, 'f', None) is not f:
            return 'UNLINKED:' + pstr(p)
        return pstr(p)


# ---------------------------------------------------------------------------------------------------------------------
# queries

def _loc(l):
    if l is None:
        return None
    t = [l[0], l[1], l[2], l[3]]
    n = getattr(l, 'n', None)
    if n is not None:
        t.append(n)
    return t


_PRED_PROPS = None
_PRED_METHODS = ['is_parenthesizable', 'is_parenthesized_tuple', 'is_delimited_matchseq', 'is_empty_arguments',
                 'is_except_star', 'is_elif']


def _pred_props():
    global _PRED_PROPS
    if _PRED_PROPS is None:
        from fst import FST
        names = []
        for n in dir(FST):
            if n.startswith('is_') and n not in ('is_FST', 'is_alive') and isinstance(getattr(FST, n, None), property):
                names.append(n)
        _PRED_PROPS = sorted(names)
    return _PRED_PROPS


def q_loc(f, env):
    return _loc(f.loc)


def q_bloc(f, env):
    return _loc(f.bloc)


def q_pars(f, env):
    return _loc(f.pars())


def q_parsF(f, env):
    return _loc(f.pars(shared=False))


def q_parsN(f, env):
    return _loc(f.pars(shared=None))


def q_src(f, env):
    return f.src


def q_own_src(f, env):
    return f.own_src()


def q_own_srcF(f, env):
    return f.own_src(docstr=False)


def q_lines(f, env):
    return list(f.lines)


def q_links(f, env):
    pf = f.pfield
    return [env.p(f.parent), None if pf is None else [pf.name, pf.idx], f.root is env.root, f.is_root,
            f.a.f is f]


def q_nav(f, env):
    return [env.p(f.next()), env.p(f.prev()), env.p(f.first_child()), env.p(f.last_child()),
            env.p(f.next_child(None)), env.p(f.prev_child(None))]


def q_navall(f, env):
    return [env.p(f.next(True)), env.p(f.prev(True)), env.p(f.first_child(True)), env.p(f.last_child(True)),
            env.p(f.next('loc')), env.p(f.prev('loc')), env.p(f.first_child('loc')), env.p(f.last_child('loc'))]


def q_step(f, env):
    return [env.p(f.step_fwd()), env.p(f.step_back()), env.p(f.last_header_child()) if f.is_block else None]


def q_up(f, env):
    return [[env.p(p) for p in f.parents()], env.p(f.parent_stmt()), env.p(f.parent_scope()),
            env.p(f.parent_block()), env.p(f.parent_named_scope()), env.p(f.parent_stmtlike())]


def q_pos(f, env):
    return [f.lineno, f.col_offset, f.end_lineno, f.end_col_offset, f.ln, f.col, f.end_ln, f.end_col,
            f.bln, f.bcol, f.bend_ln, f.bend_col, f.has_own_loc]


def q_views(f, env):
    out = []
    a = f.a
    for field in a._fields:
        v = getattr(a, field, None)
        if isinstance(v, list):
            view = getattr(f, field)
            items = []
            for x in view:
                items.append(env.p(x) if getattr(x, 'is_FST', False) else (x if isinstance(x, (str, type(None))) else repr(type(x))))
            out.append([field, len(view), items, _loc(view.loc) if len(view) else None])
    return out


def q_children(f, env):
    return [env.p(c) for c in f.walk(True, self_=False, recurse=False)]


def q_preds(f, env):
    return [getattr(f, n) for n in _pred_props()] + [getattr(f, n)() for n in _PRED_METHODS]


def q_docstr(f, env):
    return [f.has_docstr, f.get_docstr()]


def q_walk(f, env):
    return [env.p(c) for c in f.walk()]


def q_walkall(f, env):
    return [env.p(c) for c in f.walk(True)]


def q_delims(f, env):
    """the cached `_is_delimited_seq` answers through their public callers"""
    k = f.a.__class__
    if k is ast.Tuple:
        return f.is_parenthesized_tuple()
    if k is ast.MatchSequence:
        return f.is_delimited_matchseq()
    return None


def q_arglists(f, env):
    """the cached merged argument lists (`_cached_allargs`, `_cached_arglikes`) through the virtual-field views"""
    k = f.a.__class__
    if k is ast.arguments:
        v = f._all
    elif k is ast.Call:
        v = f._args
    elif k is ast.ClassDef:
        v = f._bases
    else:
        return None
    return [len(v), [env.p(x) if getattr(x, 'is_FST', False) else repr(x)[:40] for x in v]]


QUERIES = {
    'loc': q_loc, 'bloc': q_bloc, 'pars': q_pars, 'parsF': q_parsF, 'parsN': q_parsN, 'src': q_src,
    'own_src': q_own_src, 'own_srcF': q_own_srcF, 'lines': q_lines, 'links': q_links, 'nav': q_nav,
    'navall': q_navall, 'step': q_step, 'up': q_up, 'pos': q_pos, 'views': q_views, 'children': q_children,
    'preds': q_preds, 'docstr': q_docstr, 'delims': q_delims, 'arglists': q_arglists,
}
ROOT_QUERIES = {'walk': q_walk, 'walkall': q_walkall}
QNAMES = list(QUERIES)


def run_query(name, f, env):
    fn = QUERIES.get(name) or ROOT_QUERIES[name]
    try:
        return fn(f, env)
    except RecursionError:
        raise
    except Exception as e:
        return ['EXC', type(e).__name__]


def all_queries(root):
    """{path-string: {qname: answer}} for every node reachable through the AST, plus the structure itself."""
    env = Env(root)
    out = {}
    for path, a in env.nodes:
        f = getattr(a, 'f', None)
        key = pstr(path)
        if f is None or getattr(f, 'a', None) is not a:
            out[key] = {'kind': a.__class__.__name__, 'links': ['NO-FST' if f is None else 'a.f.a is not a']}
            continue
        d = {'kind': a.__class__.__name__}
        for q in QNAMES:
            d[q] = run_query(q, f, env)
        if not path:
            for q in ROOT_QUERIES:
                d[q] = run_query(q, f, env)
        out[key] = d
    return out


def diff_answers(A, B):
    """[(path, kind, qname, a, b)] first differences, per (kind, qname) at most one."""
    out = []
    seen = set()
    for key in A:
        if key not in B:
            out.append((key, A[key].get('kind'), 'structure', 'present', 'absent'))
            continue
        da, db = A[key], B[key]
        for q in da:
            if q == 'kind':
                if da[q] != db.get(q):
                    out.append((key, da[q], 'structure', da[q], db.get(q)))
                continue
            if da[q] != db.get(q):
                s = (da.get('kind'), q)
                if s not in seen:
                    seen.add(s)
                    out.append((key, da.get('kind'), q, da[q], db.get(q)))
    for key in B:
        if key not in A:
            out.append((key, B[key].get('kind'), 'structure', 'absent', 'present'))
    return out


# ---------------------------------------------------------------------------------------------------------------------
# direct cache audit

def cache_snapshot(root):
    """{path: {key: canonical value}} of what the `_cache` dictionaries hold right now (location-like keys only)."""
    env = Env(root)
    out = {}
    for path, a in env.nodes:
        f = getattr(a, 'f', None)
        if f is None:
            continue
        c = getattr(f, '_cache', None)
        if not c:
            continue
        d = {}
        for k, v in c.items():
            if k in ('loc', 'bloc', 'parsT', 'parsF', 'parsN'):
                d[k] = _loc(v)
            elif k in ('allargs', 'arglikes'):
                d[k] = [env.p(getattr(x, 'f', None)) for x in v]
            elif k.startswith('isdelseq'):
                d[k] = v
            elif k.startswith('ownl'):
                d[k] = [v[0], list(v[1])]
        if d:
            out[pstr(path)] = (a.__class__.__name__, d)
    return out


def clear_all_caches(root):
    for _, a in enum_nodes(root.a):
        f = getattr(a, 'f', None)
        if f is not None and hasattr(f, '_cache'):
            f._cache.clear()


def recompute_cached(root, snap):
    """Recompute, on cleared caches, every key that was present in `snap`; return the same shape."""
    env = Env(root)
    out = {}
    for path, a in env.nodes:
        key = pstr(path)
        if key not in snap:
            continue
        f = a.f
        d = {}
        for k in snap[key][1]:
            try:
                if k == 'loc':
                    d[k] = _loc(f.loc)
                elif k == 'bloc':
                    d[k] = _loc(f.bloc)
                elif k == 'parsT':
                    d[k] = _loc(f.pars())
                elif k == 'parsF':
                    d[k] = _loc(f.pars(shared=False))
                elif k == 'parsN':
                    d[k] = _loc(f.pars(shared=None))
                elif k == 'allargs':
                    d[k] = [env.p(x.f) for x in f._cached_allargs()]
                elif k == 'arglikes':
                    d[k] = [env.p(x.f) for x in f._cached_arglikes()]
                elif k.startswith('isdelseq'):
                    body = k[len('isdelseq'):]
                    d[k] = f._is_delimited_seq(body[:-2], body[-2:])
                elif k.startswith('ownl'):
                    docstr = {'S': 'strict', 'T': True, 'F': False}[k[-1]]
                    d[k] = [f._get_block_indent(), list(tuple(f._get_indentable_lns(1, docstr=docstr)))]
            except RecursionError:
                raise
            except Exception as e:
                d[k] = ['EXC', type(e).__name__]
        out[key] = (a.__class__.__name__, d)
    return out


# ---------------------------------------------------------------------------------------------------------------------
# link graph dump (the wire format of the Lean driver: {'tree', 'rootf', 'store'})

class Ids:
    """Persistent numbering of AST and FST objects across several dumps of one scenario (objects are kept alive so
    `id()` values are not re-used)."""

    def __init__(self):
        self.a, self.f, self.keep, self.fobjs = {}, {}, [], []

    def aid(self, a):
        k = id(a)
        if k not in self.a:
            self.a[k] = len(self.a)
            self.keep.append(a)
        return self.a[k]

    def fid(self, f):
        k = id(f)
        if k not in self.f:
            self.f[k] = len(self.f)
            self.fobjs.append(f)
        return self.f[k]


def _cache_json(f):
    out = []
    for k, v in sorted(getattr(f, '_cache', {}).items()):
        if k in ('loc', 'bloc', 'parsT', 'parsF', 'parsN') and v is not None:
            out.append([k, _loc(v)])
        else:
            out.append([k, []])
    return out


def dump_state(ids, root, trees=(), extra_fsts=(), root_a=None):
    """{'tree': [aid, kind, fld|None, kids], 'rootf': fid, 'store': {'astF': [[aid, fid]], 'fst': [[fid, a, parent,
    fld, cache]], 'next': n}, 'new': [trees...]}.  `root` is the root FST object; `trees` are further AST roots (not
    part of the tree yet).  FST objects are discovered through `a.f` of every AST in the trees, through `.parent`
    chains and `extra_fsts`; all FST ids are < 'next'."""
    astF = []

    def tree(a, fld):
        i = ids.aid(a)
        f = getattr(a, 'f', None)
        if f is not None:
            astF.append([i, ids.fid(f)])
        kids = []
        for field in a._fields:
            v = getattr(a, field, None)
            if isinstance(v, ast.AST):
                kids.append(tree(v, [field, None]))
            elif isinstance(v, list):
                for n, c in enumerate(v):
                    if isinstance(c, ast.AST):
                        kids.append(tree(c, [field, n]))
        return [i, a.__class__.__name__, fld, kids]

    t = tree(root.a if root.a is not None else root_a, None)
    rootf = ids.fid(root)
    new = [tree(x, None) for x in trees]
    for f in extra_fsts:
        ids.fid(f)
    fst = []
    i = 0
    while i < len(ids.fobjs):
        f = ids.fobjs[i]
        i += 1
        p = getattr(f, 'parent', None)
        if p is not None:
            ids.fid(p)
    for f in ids.fobjs:
        a = getattr(f, 'a', None)
        p = getattr(f, 'parent', None)
        pf = getattr(f, 'pfield', None)
        fst.append([ids.f[id(f)], None if a is None else ids.aid(a), None if p is None else ids.fid(p),
                    None if not pf else [pf.name, pf.idx], _cache_json(f)])
    return {'tree': t, 'rootf': rootf, 'store': {'astF': astF, 'fst': fst, 'next': len(ids.fobjs)}, 'new': new}


def link_invariant_py(st):
    """Plain-Python evaluation of LinkInv on a dumped state (independent of the Lean evaluation; both must agree)."""
    astF = {a: f for a, f in st['store']['astF']}
    F = {r[0]: r for r in st['store']['fst']}
    bad = []

    def go(t, pf):
        a, kind, fld, kids = t
        f = astF.get(a)
        if f is None or f not in F:
            bad.append((kind, 'no f'))
            return
        r = F[f]
        if r[1] != a:
            bad.append((kind, 'f.a is not a'))
        if r[2] != pf:
            bad.append((kind, 'parent'))
        if r[3] != fld:
            bad.append((kind, 'pfield'))
        for k in kids:
            go(k, f)

    go(st['tree'], None)
    if astF.get(st['tree'][0]) != st['rootf']:
        bad.append((st['tree'][1], 'root.a.f is not root'))
    return bad


def canon_state(tree, store, n_old):
    """Id-free form of a state, for comparing model and implementation: FST objects that existed before the operation
    (ids < n_old) keep their names, new ones are named after the AST they serve."""
    astF = {a: f for a, f in store['astF']}
    F = {r[0]: r for r in store['fst']}
    paths = {}

    def walk(t, path):
        paths.setdefault(t[0], path)
        for k in t[3]:
            walk(k, path + '.' + (f'{k[2][0]}[{k[2][1]}]' if k[2][1] is not None else k[2][0]))

    walk(tree, '')

    def aname(a):
        return None if a is None else paths.get(a, f'outside:{a}')

    def fname(f):
        if f is None or f < n_old:
            return f
        r = F.get(f)
        return 'new@' + str(aname(r[1]) if r else '?')

    def rec(f):
        r = F.get(f)
        if r is None:
            return None
        return [aname(r[1]), fname(r[2]), r[3], [c[0] for c in r[4]]]

    nodes = []

    def walk2(t, path):
        f = astF.get(t[0])
        nodes.append([path, t[1], t[2], fname(f), rec(f)])
        for k in t[3]:
            walk2(k, path + '.' + (f'{k[2][0]}[{k[2][1]}]' if k[2][1] is not None else k[2][0]))

    walk2(tree, '')
    nodes.sort(key=lambda n: n[0])
    return {'nodes': nodes, 'old': [rec(f) for f in range(n_old)]}


# ---------------------------------------------------------------------------------------------------------------------
# edits

EXPR_CODES = ['zz', 'q.r', '(p, q)', 'f(u,\n  v)', 'aa + bb', 'x if y else z', 'lambda: 0', '[1,\n 2]', 'not w', '-1',
              '"s"', 'g(h)(i)[j]', '{k: v}', '(yy)', 'é', 'call(a, *b, c=d)', '(m :=\n 1)', 'i for i in j']
STMT_CODES = ['pass', 'qq = 1', 'if c:\n    d\nelse:\n    e', 'def g(a, b=2):\n    """ds"""\n    return 1  # r',
              'with a as b: pass', '# pre\nz = 2  # trailing', 'for i in j:\n    k\n', 'x = [1,\n     2]',
              'class K(B):\n    v = 1', 'return_ = (yy)', 'try:\n    a\nfinally:\n    b', 'a; b', '@d\ndef h(): pass  # c']
ELT_CODES = ['zz', '(p)', '*st', 'f(1)', '"s"', 'aa + bb', 'é']
SLICE_CODES_EXPR = ['u, v', '[w]', '(x, y, z)', 'u,', '()']
SLICE_CODES_STMT = ['aa = 1\nbb = 2', 'pass', 'if t: u', '# c\nvv\n']
ARG_CODES = ['na', 'nb=1', 'nc: int']
KW_CODES = ['kk=1', '**kw']

_BODY_FIELDS = ('body', 'orelse', 'finalbody')
VIRT_FIELDS = {ast.arguments: '_all', ast.Call: '_args', ast.ClassDef: '_bases', ast.Dict: '_all', ast.MatchMapping: '_all',
               ast.MatchClass: '_attrs', ast.Compare: '_all'}

VIRT_CODES = {ast.arguments: ['x', 'x=g(1)', 'x, y=g(1)', 'x: int = 1', '*, x=g(1)'], ast.Call: ['p(1)', 'k=v(1)', 'p, *q, k=v(1)'],
              ast.ClassDef: ['P[1]', 'k=v(1)', 'P, k=v(1)'], ast.Dict: ['p: f(z), **q', '**f(z)'],
              ast.MatchMapping: ['8: p, 9: [q]'], ast.MatchClass: ['p, k=[q]', '[p]', 'k=[q]'], ast.Compare: ['p < q(1)', 'q(1)']}

# deterministic product: every marker shape of a signature and every other virtual field
VIRT_SHAPES = [
    ('def f(a, b, /, c, d=1, *, e, f=2, g=3, **k): pass', [['body', 0], ['args', None]]),
    ('def f(a, *, b=1, c=2, d=3): pass', [['body', 0], ['args', None]]),
    ('def f(a, /, b=1, *args, c, d=2, **kw): pass', [['body', 0], ['args', None]]),
    ('def f(*, a, b=1, c): pass', [['body', 0], ['args', None]]),
    ('def f(a=1, b=2, c=3): pass', [['body', 0], ['args', None]]),
    ('def f(*a, b=1, c, d=2): pass', [['body', 0], ['args', None]]),
    ('def f(a, b, /): pass', [['body', 0], ['args', None]]),
    ('def f(a, /, *, b): pass', [['body', 0], ['args', None]]),
    ('def f(a: int = 1, *b: str, c: int = 2, **d: dict) -> None: pass', [['body', 0], ['args', None]]),
    ('g = lambda a, *, b=1, c=2, **k: 0', [['body', 0], ['value', None], ['args', None]]),
    ('f(a, b, *c, k=1, *d, **e, j=2)', [['body', 0], ['value', None]]),
    ('f(a, (b), c)', [['body', 0], ['value', None]]),
    ('class C(A, B, *c, k=1, **e): pass', [['body', 0]]),
    ('x = {a: 1, **b, c: 2, d: 3}', [['body', 0], ['value', None]]),
    ('match x:\n case {1: a, 2: b, 3: c, **r}: pass', [['body', 0], ['cases', 0], ['pattern', None]]),
    ('match x:\n case C(a, b, k=c, j=d): pass', [['body', 0], ['cases', 0], ['pattern', None]]),
    ('x = a < b <= c != d', [['body', 0], ['value', None]]),
]


def virt_product():
    """[(src, steps)]: shapes x spans x (cut / delete / copy / through a view), each preceded by every query on every
    node"""
    from fst import FST
    out = []
    for src, path in VIRT_SHAPES:
        root = FST(src, 'exec')
        a = at_path(root.a, tuple((n, i) for n, i in path))
        fld = VIRT_FIELDS[a.__class__]
        n = len(getattr(a.f, fld))
        pre = [[list(map(list, p)), q] for p, _ in enum_nodes(root.a) for q in QNAMES]
        for i in range(n + 1):
            for j in range(i, n + 1):
                for code in VIRT_CODES[a.__class__]:       # put new elements (with children of their own) over the span
                    for how in ('put', 'viewput') if j - i <= 2 else ('put',):
                        out.append((src, [{'pre': pre, 'op': {'op': 'virt', 'path': path, 'field': fld, 'start': i,
                                                               'stop': j, 'how': how, 'code': code, 'norm': True}}]))
                if i == j:
                    continue
                for how in ('cut', 'del', 'copy', 'viewcut', 'viewdel'):
                    for norm in (True, False):
                        if not norm and (how in ('copy', 'viewcut', 'viewdel') or a.__class__ is ast.Compare):
                            continue        # norm=False may leave a one-operand Compare: documented invalid tree
                        out.append((src, [{'pre': pre, 'op': {'op': 'virt', 'path': path, 'field': fld, 'start': i,
                                                               'stop': j, 'how': how, 'norm': norm}}]))
    return out

_ELT_KINDS = (ast.List, ast.Tuple, ast.Set)


def _is_plain_expr_slot(path, a, parent):
    """expression positions where any expression may be put: conservative list"""
    if not isinstance(a, ast.expr) or isinstance(getattr(a, 'ctx', None), (ast.Store, ast.Del)):
        return False
    if isinstance(a, (ast.JoinedStr, ast.FormattedValue, ast.Starred, ast.Slice)):
        return False
    if isinstance(parent, (ast.JoinedStr, ast.FormattedValue, ast.pattern, ast.match_case, ast.MatchValue)):
        return False
    n = path[-1][0]
    return n in ('value', 'elts', 'args', 'left', 'right', 'operand', 'test', 'body', 'orelse', 'values',
                 'comparators', 'func', 'iter', 'elt', 'key', 'msg', 'exc', 'context_expr', 'returns', 'annotation',
                 'subject', 'slice', 'bases', 'decorator_list', 'ifs', 'defaults', 'kw_defaults', 'keys')


def gen_op(rng, root, src_gaps=None, kept=None):
    """One random structured edit as a JSON-able dict, or None."""
    nodes = enum_nodes(root.a)
    parents = {}
    for path, a in nodes:
        if path:
            parents[path] = at_path(root.a, path[:-1])
    kind = rng.choice(['replace_expr', 'replace_expr', 'replace_stmt', 'remove', 'remove', 'insert', 'insert',
                       'append', 'put_slice', 'put_src', 'put_src', 'view', 'view', 'prepend', 'del_slice',
                       'put_src_none', 'put_src_none', 'line_comment', 'line_comment', 'line_comment', 'docstr',
                       'par', 'unpar', 'unpar', 'virt', 'virt', 'kview_make', 'kview_act', 'kview_act', 'fstr_replace', 'raw'])
    if kind == 'fstr_replace':
        c = [(p, a) for p, a in nodes if isinstance(a, (ast.Name, ast.BinOp, ast.UnaryOp, ast.Call, ast.Attribute))
             and isinstance(getattr(a, 'ctx', ast.Load()), ast.Load) and any(n == 'values' for n, _ in p)
             and any(isinstance(at_path(root.a, p[:k]), ast.FormattedValue) for k in range(len(p))) and p[-1][0] != 'func']
        if not c:
            return None
        p, a = rng.choice(c)
        return {'op': 'replace', 'path': list(map(list, p)), 'code': rng.choice(FSTR_CODES)}
    if kind == 'raw':
        c = header_exprs(root.a)
        if not c:
            return None
        p = rng.choice(c)
        return {'op': rng.choice(['raw_replace', 'reparse']), 'path': list(map(list, p)), 'code': rng.choice(RAW_CODES)}
    if kind in ('kview_make', 'kview_act'):
        if kept is None:
            return None
        alive = [n for n, r in kept.items() if not r.get('dead')]
        if kind == 'kview_act' and alive:
            name = rng.choice(alive)
            rec = kept[name]
            act = rng.choice(['cut', 'remove', 'delall', 'append', 'prepend', 'insert1', 'extend', 'del0', 'setslice0'])
            base_a = rec['view'].base.a
            what = 'stmt' if rec['field'] in _BODY_FIELDS else 'expr'
            if rec['field'] == 'keywords':
                code = 'k1=1, k2=2' if act in ('extend', 'setslice0') else 'kk=1'
            elif what == 'stmt':
                code = 'p\nq' if act in ('extend', 'setslice0') else 'pass'
            else:
                code = 'p, q' if act in ('extend', 'setslice0') else 'zz'
            return {'op': 'kview', 'act': act, 'name': name, 'code': code}
        if len(alive) >= 3:
            return None
        c = []
        for p, a in nodes:
            for fld in ('elts', 'body', 'orelse', 'args', 'keywords', 'targets', 'names', 'bases', 'items', 'patterns'):
                v = getattr(a, fld, None)
                if isinstance(v, list) and not isinstance(a, (ast.IfExp, ast.Lambda)) and not (
                        isinstance(a, ast.arguments)) and not isinstance(getattr(a, 'ctx', None), (ast.Store, ast.Del)) \
                        and (v or fld in ('elts', 'args', 'keywords')):      # an empty orelse / bases / ... cannot always be grown (try/else needs except: C01/C03)
                    c.append((p, a, fld, len(v)))
        if not c:
            return None
        p, a, fld, n = rng.choice(c)
        name = f'v{len(kept)}'
        shape = rng.choice(['whole', 'whole', 'tail', 'bounded', 'bounded'])
        if shape == 'whole':
            st, sp = None, None
        elif shape == 'tail':
            st, sp = rng.randint(0, n), None
        else:
            st = rng.randint(0, n)
            sp = rng.randint(st, n)
        return {'op': 'kview', 'act': 'make', 'name': name, 'path': list(map(list, p)), 'field': fld, 'start': st, 'stop': sp}
    if kind == 'virt':
        c = []
        for p, a in nodes:
            fld = VIRT_FIELDS.get(a.__class__)
            if fld:
                c.append((p, a, fld))
        if not c:
            return None
        p, a, fld = rng.choice(c)
        try:
            n = len(getattr(a.f, fld))
        except Exception:
            return None
        i = rng.randint(0, n)
        j = rng.randint(i, n)
        if i == j and n:
            j = min(n, i + 1)
        how = rng.choice(['cut', 'cut', 'del', 'copy', 'viewcut', 'viewdel', 'put', 'put', 'viewput'])
        d = {'op': 'virt', 'path': list(map(list, p)), 'field': fld, 'start': i, 'stop': j, 'how': how}
        if how in ('put', 'viewput'):
            if rng.random() < 0.4:
                d['stop'] = i
            d['code'] = rng.choice(VIRT_CODES[a.__class__])
        return d
    if kind == 'line_comment':
        stmts = [(p, a) for p, a in nodes if p and isinstance(a, (ast.stmt, ast.ExceptHandler, ast.match_case))]
        if not stmts:
            return None
        def endl(a):
            while not hasattr(a, 'end_lineno'):
                a = a.body[-1]
            return a.end_lineno

        ends = {}
        for p, a in stmts:
            ends.setdefault(endl(a), []).append(p)
        # statements that end the last line of 1, 2, 3... enclosing blocks
        tails = [(p, a) for p, a in stmts if any(len(q) < len(p) and q == p[:len(q)] for q in ends.get(endl(a), []))]
        clines = {ln for ln, _, _ in all_comments(root.src)}
        commented = [(p, a) for p, a in stmts if (endl(a) - 1) in clines]
        both = [x for x in tails if x in commented]
        pool = rng.choice([stmts, tails or stmts, commented or stmts, both or commented or tails or stmts,
                           both or commented or tails or stmts])
        p, a = rng.choice(pool)
        text = rng.choice([None, '', 'y', 'a much longer comment than whatever was there before', 'é größer – ü',
                           'set x', '#!', 'z' * rng.randint(1, 12)])
        d = {'op': 'line_comment', 'path': list(map(list, p)), 'text': text, 'field': None, 'full': False}
        if text is not None and rng.random() < 0.2:
            d.update(text=rng.choice(['  # ', ' #', '    #  ']) + text, full=True)
        if rng.random() < 0.3:
            flds = [f for f in ('body', 'orelse', 'finalbody') if isinstance(getattr(a, f, None), list) and getattr(a, f)]
            if flds and not isinstance(a, (ast.IfExp,)):
                d['field'] = rng.choice(flds)
        return d
    if kind == 'docstr':
        c = [(p, a) for p, a in nodes if isinstance(a, (ast.FunctionDef, ast.AsyncFunctionDef, ast.ClassDef, ast.Module))]
        p, a = rng.choice(c)
        text = rng.choice([None, None, 'doc', 'Multi\nline\n  indented\n', 'é ü – ñ', '', 'a \\ backslash " quote'])
        return {'op': 'docstr', 'path': list(map(list, p)), 'text': text, 'reput': rng.random() < 0.2}
    if kind in ('par', 'unpar'):
        c = [(p, a) for p, a in nodes if p and isinstance(a, (ast.expr, ast.pattern))
             and not isinstance(parents[p], (ast.JoinedStr, ast.FormattedValue))
             and not isinstance(a, (ast.JoinedStr, ast.FormattedValue))]
        if kind == 'unpar':
            # prefer nodes that have grouping parentheses right now (CPython positions: text before the node is '(')
            def has_par(a):
                try:
                    line = root._lines[a.lineno - 1]
                    return line[:line.b2c(a.col_offset)].rstrip().endswith('(')
                except Exception:
                    return False
            c2 = [(p, a) for p, a in c if has_par(a)]
            c = c2 if c2 and rng.random() < 0.85 else c
        if not c:
            return None
        p, a = rng.choice(c)
        if kind == 'par':
            return {'op': 'par', 'path': list(map(list, p)), 'force': rng.random() < 0.6}
        return {'op': 'unpar', 'path': list(map(list, p)), 'node': rng.random() < 0.2, 'shared': rng.random() < 0.8}
    if kind == 'put_src_none':
        # comment-only / whitespace-only rectangles that reach the end of their line (nothing to offset behind them)
        lines = root.src.split('\n')
        cs = all_comments(root.src)
        cand = []
        for ln, col, end_col in cs:
            n = end_col - col
            cand.append(([ln, col, ln, end_col], [' ' * n, '#' + 'z' * (n - 1), '', '# é longer comment text ü', '#']))
        for ln, l in enumerate(lines):
            if l and not l.isspace() and not l.rstrip().endswith('\\') and ln not in {c[0] for c in cs} \
                    and ln in code_end_lines(root.src):
                e = len(l)
                b = len(l.rstrip())
                cand.append(([ln, b, ln, e], ['  # new', '   ', '  # ü']) if rng.random() < 0.5 else ([ln, e, ln, e], ['  ', ' # c']))
        if not cand:
            return None
        loc, codes = rng.choice(cand)
        return {'op': 'put_src_none', 'loc': loc, 'code': rng.choice(codes)}
    if kind == 'replace_expr':
        c = [(p, a) for p, a in nodes if p and _is_plain_expr_slot(p, a, parents[p])]
        if not c:
            return None
        p, a = rng.choice(c)
        return {'op': 'replace', 'path': list(map(list, p)), 'code': rng.choice(EXPR_CODES)}
    if kind == 'replace_stmt':
        c = [(p, a) for p, a in nodes if p and isinstance(a, ast.stmt) and p[-1][0] in _BODY_FIELDS and p[-1][1] is not None]
        if not c:
            return None
        p, a = rng.choice(c)
        return {'op': 'replace', 'path': list(map(list, p)), 'code': rng.choice(STMT_CODES)}
    if kind == 'remove':
        c = [(p, a) for p, a in nodes if p and p[-1][1] is not None
             and isinstance(a, (ast.stmt, ast.expr, ast.arg, ast.keyword, ast.alias, ast.withitem, ast.ExceptHandler,
                                ast.match_case, ast.comprehension, ast.pattern, ast.type_param))
             and not isinstance(parents[p], (ast.JoinedStr, ast.Compare, ast.BoolOp))
             and not (isinstance(a, ast.ExceptHandler) and len(parents[p].handlers) == 1)]   # try/else needs an except (C01/C03)
        if not c:
            return None
        p, a = rng.choice(c)
        return {'op': 'remove', 'path': list(map(list, p))}
    # container edits: pick a (node, list field)
    conts = []
    for p, a in nodes:
        if isinstance(a, _ELT_KINDS) and not isinstance(getattr(a, 'ctx', None), (ast.Store, ast.Del)):
            conts.append((p, a, 'elts', 'expr'))
        for fld in _BODY_FIELDS:
            v = getattr(a, fld, None)
            if isinstance(v, list) and (v or fld == 'body') and not isinstance(a, (ast.IfExp, ast.Lambda)) \
                    and all(isinstance(x, ast.stmt) for x in v):
                conts.append((p, a, fld, 'stmt'))
        if isinstance(a, ast.Call):
            conts.append((p, a, 'args', 'expr'))
            conts.append((p, a, 'keywords', 'kw'))
        if isinstance(a, ast.arguments):
            conts.append((p, a, 'args', 'arg'))
        if isinstance(a, ast.Delete):
            conts.append((p, a, 'targets', 'name'))
        if isinstance(a, (ast.Global, ast.Nonlocal)):
            conts.append((p, a, 'names', 'name'))
    if kind == 'put_src':
        gs = src_gaps(root.src) if src_gaps else []
        if not gs:
            return None
        ln, col, end_ln, end_col, depth = rng.choice(gs)
        c = [' ', '  ', '   ', ' \\\n ', ' \\\n     ']
        if depth > 0:
            c += ['\n', '\n  ', ' # c\n    ', '\n\n # é comment\n', '  # ü\n']
        if (ln, col) != (end_ln, end_col):
            c += ['', '']
        return {'op': 'put_src', 'loc': [ln, col, end_ln, end_col], 'code': rng.choice(c),
                'on': rng.choice(['innermost', 'innermost', 'root'])}
    if not conts:
        return None
    p, a, fld, what = rng.choice(conts)
    n = len(getattr(a, fld))
    one = {'expr': ELT_CODES, 'stmt': STMT_CODES, 'kw': KW_CODES, 'arg': ARG_CODES, 'name': ['nm']}[what]
    sl = {'expr': SLICE_CODES_EXPR, 'stmt': SLICE_CODES_STMT, 'kw': ['k1=1, k2=2'], 'arg': ['a1, a2=3'],
          'name': ['n1, n2']}[what]
    base = {'path': list(map(list, p)), 'field': fld}
    if kind == 'insert':
        return {'op': 'insert', **base, 'idx': rng.randint(0, n), 'code': rng.choice(one)}
    if kind == 'append':
        return {'op': 'append', **base, 'code': rng.choice(one)}
    if kind == 'prepend':
        return {'op': 'prepend', **base, 'code': rng.choice(one)}
    if kind == 'put_slice':
        i = rng.randint(0, n)
        j = rng.randint(i, min(n, i + 2))
        return {'op': 'put_slice', **base, 'start': i, 'stop': j, 'code': rng.choice(sl)}
    if kind == 'del_slice':
        if n < 1:
            return None
        i = rng.randint(0, n - 1)
        j = rng.randint(i + 1, min(n, i + 2))
        return {'op': 'put_slice', **base, 'start': i, 'stop': j, 'code': None}
    if kind == 'view':
        # windowed view [s:e] of the field, edited THROUGH the view
        s = rng.randint(0, n)
        e = rng.randint(s, n)
        vop = rng.choice(['insert', 'append', 'prepend', 'extend', 'remove', 'replace', 'delitem', 'setitem', 'cut',
                          'setslice', 'delslice'])
        w = e - s
        d = {'op': 'view', **base, 'start': s, 'stop': e, 'vop': vop}
        if vop == 'insert':
            d.update(idx=rng.randint(0, w), code=rng.choice(one))
        elif vop in ('append', 'prepend'):
            d.update(code=rng.choice(one))
        elif vop == 'extend':
            d.update(code=rng.choice(sl))
        elif vop == 'replace':
            d.update(code=rng.choice(one))
        elif vop in ('delitem', 'setitem'):
            if not w:
                return None
            d.update(idx=rng.randint(-w, w - 1), code=rng.choice(one))
        elif vop in ('setslice', 'delslice'):
            i = rng.randint(0, w)
            d.update(idx=i, idx2=rng.randint(i, w), code=rng.choice(sl))
        return d
    return None


def op_kind(op):
    if op['op'] == 'ext':
        return f"ext-{op['how']}"
    if op['op'] == 'kview':
        return f"kview-{op['act']}"
    if op['op'] == 'virt':
        return f"virt-{op['how']}"
    return op['op'] + ('-' + op['vop'] if op['op'] == 'view' else '')


def innermost(root, ln, col, end_ln, end_col):
    best = None
    for _, a in enum_nodes(root.a):
        f = getattr(a, 'f', None)
        if f is None:
            continue
        if getattr(a, 'end_col_offset', None) is None:
            continue
        lines = root._lines
        l0, c0 = a.lineno - 1, lines[a.lineno - 1].b2c(a.col_offset)
        l1, c1 = a.end_lineno - 1, lines[a.end_lineno - 1].b2c(a.end_col_offset)
        if (l0, c0) < (ln, col) and (end_ln, end_col) < (l1, c1):
            best = f            # preorder: later = deeper or later sibling containing it
    return best or root


class ViewExpect:
    """What the window of a view must be after an edit made through it (plain list-window semantics)."""

    def __init__(self, start, stop, n_before):
        self.start, self.stop, self.n_before = start, stop, n_before


def apply_op(root, op, kept=None):
    """Execute one op with the public API. Returns extra expectations: {'view': (view, exp_start, exp_stop_fn)} or {}.
    Raises whatever pfst raises."""
    opts = {'norm': True, **op.get('options', {})}
    k = op['op']
    if k == 'kview':
        return apply_kview(root, op, kept if kept is not None else {})
    if k == 'put_src_none':
        # action=None: "best to call on the node that owns the source": the statement a trailing comment / whitespace
        # is on, the innermost block (or the module) for a comment on its own line
        ln, col, end_ln, end_col = op['loc']
        owner = None
        for _, a in enum_nodes(root.a):
            if isinstance(a, ast.stmt) and a.end_lineno - 1 == ln and root._lines[ln].b2c(a.end_col_offset) <= col:
                owner = a.f
        if owner is None:
            for _, a in enum_nodes(root.a):
                if isinstance(a, ast.stmt) and a.lineno - 1 <= ln <= a.end_lineno - 1:
                    owner = a.f
        if owner is None:
            owner = root
        owner.put_src(op['code'], ln, col, end_ln, end_col, None)
        return {}
    if k == 'put_src':
        ln, col, end_ln, end_col = op['loc']
        node = root if op['on'] == 'root' else innermost(root, ln, col, end_ln, end_col)
        node.put_src(op['code'], ln, col, end_ln, end_col, 'offset')
        return {}
    path = tuple((n, i) for n, i in op['path'])
    a = at_path(root.a, path)
    f = a.f
    if k == 'ext':
        from fst import FST
        fld, how, code = op['field'], op['how'], op.get('code')
        with FST.options(**opts):
            n = len(getattr(f, fld))
            if how == 'append':
                f.put_slice(code, n, n, fld, one=True)
            elif how == 'prepend':
                f.put_slice(code, 0, 0, fld, one=True)
            elif how == 'del0':
                f.put_slice(None, 0, 1, fld)
            elif how == 'newview_append':
                getattr(f, fld).append(code)
            elif how == 'extend':
                f.put_slice(code, n, n, fld)
            else:
                raise ValueError(how)
        return {}
    if k == 'virt':
        # get / cut / delete a span of a virtual field (arguments._all, Call._args, ClassDef._bases, Dict._all,
        # MatchMapping._all, MatchClass._attrs, Compare._all) or of a plain list field
        from fst import FST
        fld, st, sp, how = op['field'], op['start'], op['stop'], op['how']
        o = dict(opts if op.get('norm', True) else {})
        if 'trivia' in op:
            o['trivia'] = op['trivia']
        with FST.options(**o):
            if how == 'cut':
                f.get_slice(st, sp, fld, cut=True)
            elif how == 'copy':
                f.get_slice(st, sp, fld, cut=False)
            elif how == 'del':
                f.put_slice(None, st, sp, fld)
            elif how == 'viewcut':
                getattr(f, fld)[st:sp].cut()
            elif how == 'viewdel':
                del getattr(f, fld)[st:sp]
            elif how == 'put':
                f.put_slice(op['code'], st, sp, fld)
            elif how == 'viewput':
                getattr(f, fld)[st:sp] = op['code']
            elif how == 'viewcopy':
                getattr(f, fld)[st:sp].copy()
            else:
                raise ValueError(how)
        return {}
    if k == 'move':
        # cut a statement out and put the cut FST object back somewhere else (dedent + indent of live nodes)
        tpath = tuple((n, i) for n, i in op['to'])
        tgt = at_path(root.a, tpath).f
        from fst import FST
        with FST.options(**opts):
            node = f.cut()
            n = len(getattr(tgt.a, op['field']))
            i = min(op['idx'], n)
            tgt.put_slice(node, i, i, op['field'], one=True)
        return {}
    if k == 'raw_replace':
        f.replace(op['code'], raw=True)
        return {}
    if k == 'reparse':
        loc = f.pars() if op.get('pars') else f.loc
        root.put_src(op['code'], loc[0], loc[1], loc[2], loc[3], 'reparse')
        return {}
    if k == 'line_comment':
        f.put_line_comment(op['text'], op['field'], op['full'])
        return {}
    if k == 'docstr':
        f.put_docstr(op['text'], op['reput'], **opts)
        return {}
    if k == 'par':
        f.par(op['force'])
        return {}
    if k == 'unpar':
        f.unpar(op['node'], shared=op['shared'])
        return {}
    if k == 'replace':
        f.replace(op['code'], **opts)
    elif k == 'remove':
        f.remove(**opts)
    elif k == 'insert':
        f.insert(op['code'], op['idx'], op['field'], **opts)
    elif k == 'append':
        f.append(op['code'], op['field'], **opts)
    elif k == 'prepend':
        f.prepend(op['code'], op['field'], **opts)
    elif k == 'put_slice':
        f.put_slice(op['code'], op['start'], op['stop'], op['field'], **opts)
    elif k == 'view':
        fld = op['field']
        n0 = len(getattr(a, fld))
        s, e = op['start'], op['stop']
        view = getattr(f, fld)[s:e]
        vop = op['vop']
        code = op.get('code')
        from fst import FST
        with FST.options(**opts):
            if vop == 'insert':
                view.insert(code, op['idx'])
            elif vop == 'append':
                view.append(code)
            elif vop == 'prepend':
                view.prepend(code)
            elif vop == 'extend':
                view.extend(code)
            elif vop == 'remove':
                view.remove()
            elif vop == 'replace':
                view.replace(code)
            elif vop == 'cut':
                view.cut()
            elif vop == 'delitem':
                del view[op['idx']]
            elif vop == 'setitem':
                view[op['idx']] = code
            elif vop == 'setslice':
                view[op['idx']:op['idx2']] = code
            elif vop == 'delslice':
                del view[op['idx']:op['idx2']]
        deleted = None
        w = e - s
        if vop == 'cut':
            deleted = w
        elif vop == 'delitem':
            deleted = 1
        elif vop == 'delslice':
            deleted = max(0, min(op['idx2'], w) - min(op['idx'], w))
        return {'view': view, 'field': fld, 'start': s, 'stop': e, 'n0': n0, 'base_path': path, 'deleted': deleted}
    else:
        raise ValueError(k)
    return {}


def check_view_after(root, info, env):
    """Window law: after an edit through the window [s:e] that changed the field length by d, the window is
    [s:e+d], its length is e+d-s and its items are exactly field[s:e+d] of the current tree."""
    view = info['view']
    try:
        a = at_path(root.a, info['base_path'])
    except Exception:
        return None
    if a.f is not view.base:
        return None     # base node itself was replaced (not a window question)
    n1 = len(getattr(a, info['field']))
    d = n1 - info['n0']
    k = info.get('deleted')
    if k is not None and d != -k:
        return None     # norm=True put a placeholder element back (e.g. `{*()}`): window law not defined by the property
    s, e = info['start'], info['stop'] + d
    if e < s:
        return None
    try:
        got_len = len(view)
        got = [env.p(x) if getattr(x, 'is_FST', False) else x for x in view]
        bi = list(view._base_indices())
    except Exception as ex:
        return f'view query raised {type(ex).__name__}: {ex}'
    want = [env.p(x.f) if isinstance(x, ast.AST) else x for x in getattr(a, info['field'])[s:e]]
    if got_len != e - s or got != want or bi != [s, e, n1]:
        return f'window after edit: len {got_len} items {got} indices {bi}; list-window semantics give len {e - s} items {want} indices {[s, e, n1]}'
    return None


# ---------------------------------------------------------------------------------------------------------------------
# views kept alive across the history ("queries" that outlive edits)

def _vlen(f, fld):
    return len(getattr(f, fld))


def apply_kview(root, op, kept):
    """'make': create a view (whole field: start = stop = None; `[k:]`: stop None; bounded) and keep it under `name`;
    other acts: edit THROUGH the kept view object. Maintains the expected window (plain list-window semantics)."""
    from fst import FST
    act, name = op['act'], op['name']
    if act == 'make':
        a = at_path(root.a, tuple((n, i) for n, i in op['path']))
        fld = op['field']
        whole = getattr(a.f, fld)
        n = len(whole)
        st, sp = op['start'], op['stop']
        if st is None and sp is None:
            kept[name] = {'view': whole, 'field': fld, 'whole': True, 's': 0, 'e': n}
        else:
            s0 = min(st or 0, n)
            e0 = n if sp is None else min(sp, n)
            e0 = max(e0, s0)
            v = whole[s0:] if sp is None else whole[s0:e0]
            kept[name] = {'view': v, 'field': fld, 'whole': False, 's': s0, 'e': e0}
        return {}
    rec = kept.get(name)
    if rec is None or rec.get('dead'):
        raise ValueError('no such kept view')
    v = rec['view']
    fld = rec['field']
    n0 = _vlen(v.base, fld)
    s0, e0 = rec['s'], min(rec['e'], n0)
    s0 = min(s0, e0)
    code = op.get('code')
    with FST.options(norm=True):
        if act == 'cut':
            v.cut()
        elif act == 'remove':
            v.remove()
        elif act == 'delall':
            del v[:]
        elif act == 'append':
            v.append(code)
        elif act == 'prepend':
            v.prepend(code)
        elif act == 'insert1':
            v.insert(code, 1)
        elif act == 'extend':
            v.extend(code)
        elif act == 'del0':
            del v[0]
        elif act == 'setslice0':
            v[0:0] = code
        else:
            raise ValueError(act)
    n1 = _vlen(v.base, fld)
    d = n1 - n0
    if not rec['whole']:
        w = e0 - s0
        if act in ('cut', 'remove', 'delall'):
            ok, e1 = d == -w, s0
        elif act in ('append', 'prepend', 'insert1'):
            ok, e1 = d == 1, e0 + 1
        elif act in ('extend', 'setslice0'):
            ok, e1 = d >= 0, e0 + d
        else:
            ok, e1 = d == -1 and w > 0, e0 - 1
        if not ok:
            rec['dead'] = 'length change not that of the method (norm placeholder): window not defined by the property'
        rec['s'], rec['e'] = s0, e1
    rec['acted'] = True
    return {}


def check_kept(root, kept, okind):
    """Every kept view vs a fresh view on a fresh parse of the current source: a whole-field view is always the whole
    field; a bounded view is the window [s:e) that plain list-window semantics give (edits through the view move the
    end by the length change, edits elsewhere only clip it)."""
    fails = []
    live = [(n, r) for n, r in kept.items() if not r.get('dead')]
    if not live:
        return fails
    try:
        fresh = fresh_tree(root.src)
    except Exception:
        return fails
    env = Env(root)
    fenv = Env(fresh)

    def items(view, e):
        out = []
        for x in view:
            out.append(e.p(x) if getattr(x, 'is_FST', False) else (x if isinstance(x, (str, type(None))) else
                                                                    (e.p(getattr(x, 'base', None)), 'subview')))
        return out

    for name, rec in live:
        v = rec['view']
        base = v.base
        ba = getattr(base, 'a', None)
        if ba is None or id(ba) not in env.by_id or getattr(ba, 'f', None) is not base:
            rec['dead'] = 'base node left the tree'
            continue
        path = env.by_id[id(ba)]
        fld = rec['field']
        try:
            fa = at_path(fresh.a, path)
            wv = getattr(fa.f, fld)
            n = len(wv)
        except Exception:
            rec['dead'] = 'field gone'
            continue
        if rec['whole']:
            s, e = 0, n
        else:
            e = min(rec['e'], n)
            s = min(rec['s'], e)
            rec['s'], rec['e'] = s, e
        acted = rec.pop('acted', False)
        try:
            want = [e - s, items(wv[s:e] if (s, e) != (0, n) or not rec['whole'] else wv, fenv), [s, e]]
            got = [len(v), items(v, env), list(v.start_and_stop)]
        except RecursionError:
            raise
        except Exception as ex:
            fails.append((('kept-view', okind, fld, 'query-raised'),
                          f'kept view {name} of .{fld}: query raised {type(ex).__name__}: {ex}', None))
            continue
        if got != want:
            fails.append((('kept-view', okind, fld, 'whole-window' if rec['whole'] else 'bounded-window'),
                          f'kept {"whole-field" if rec["whole"] else "bounded"} view {name} of {pstr(path)}.{fld} '
                          f'(edited through itself: {acted}): len/items/start_and_stop {str(got)[:300]}; a fresh view on a '
                          f'fresh parse of the current source gives {str(want)[:300]}', None))
    return fails


# f-strings (PEP 701 shapes) with multi-byte text before the fields: replacements of the operands inside the fields by
# texts of another length must leave every node (JoinedStr, FormattedValue, format_spec Constants) where CPython puts it
FSTR_SHAPES = [
    "x = f'é{-a:>5}'",
    "x = f'é{not a:^{w}}'",
    "x = f'ñ{a + b!r:>{w}.{p}}'",
    "x = f'日本{a=}'",
    "x = f'é{a=:>5}'",
    "x = f'é{a!s:{b}{c}}'",
    "x = f'é{f\"ü{b:>{w}}\"}{c}'",
    "x = f'''é\nü{a:>5}\n{b}ß{c:{w}}'''",
    "x = f'é{(a):5}{b}'",
    "x = f'{a:é>5}ü{b:>{w}}'",
    "x = f'é{a:>5}' f'ü{b:<{w}}' 'plain'",
    "print(f'é{x[i]:{w}d}', f'ü{y.z(k)!a:^9}')",
    "x = f'{a}{b:>5}'",
    "x = f'ascii {-a:>5}'",
    "x = f'{{{a=}}}'",
    "x = f'é{ a = }'",
    "x = f'x{a=}y{b = !r}z'",
]
FSTR_CODES = ['bbb', 'q', 'ñé', 'f(1)', 'u.v[0]', '{k: v}']


def fstr_product():
    out = []
    for src in FSTR_SHAPES:
        tree = ast.parse(src)
        nodes = enum_nodes(tree)
        inside = []
        for p, a in nodes:
            if isinstance(a, (ast.Name, ast.BinOp, ast.UnaryOp, ast.Call, ast.Subscript, ast.Attribute)) and \
                    isinstance(getattr(a, 'ctx', ast.Load()), ast.Load) and any(n == 'values' for n, _ in p) and p[-1][0] != 'func':
                inside.append(p)
        pre = [[list(map(list, p)), q] for p, _ in nodes for q in QNAMES]
        for p in inside:
            for code in FSTR_CODES:
                out.append((src, [{'pre': pre, 'op': {'op': 'replace', 'path': list(map(list, p)), 'code': code}}]))
    return out


# raw (source-level) edits confined to the header of every kind of block statement
RAW_SHAPES = [
    'match cmd.kind:\n    case 1:\n        a\n    case [x, y] if g(x):\n        b\n    case _:\n        c\n',
    'match (p, q):\n    case (1, z):\n        a\n    case _:\n        b\nafter\n',
    'try:\n    a\nexcept E as e:\n    b\n',
    'try:\n    a\nexcept (E, F):\n    b\nexcept G.H:\n    c\nelse:\n    d\nfinally:\n    e\n',
    'try:\n    a\nexcept* E:\n    b\nfinally:\n    c\n',
    'with open(f) as g, h() as (i, j):\n    a\n',
    'async def w():\n    async with m(1) as n:\n        a\n    async for i in it(n):\n        b\n    else:\n        c\n',
    'for i, j in rng(n):\n    a\nelse:\n    b\n',
    'while x < lim:\n    a\nelse:\n    b\n',
    'if a.b:\n    c\nelif d(e):\n    f\nelif g:\n    h\nelse:\n    i\n',
    '@deco(1)\n@other\ndef f[T: int](a: int = one, *b, c=two) -> R:\n    """d"""\n    return a\n',
    '@d.e\nclass C[T](Base, Mixin, metaclass=M):\n    """d"""\n    x = 1\n',
    'class K:\n    def m(self, p=q):\n        if p:\n            return p\n        while p: pass\n',
]
RAW_CODES = ['zz', 'q.r(1)']
_BLOCK_FIELDS = ('body', 'orelse', 'finalbody', 'handlers', 'cases')


def header_exprs(tree):
    """paths of expression nodes that sit in the header of a block statement / handler / match_case"""
    out = []
    for p, a in enum_nodes(tree):
        if not isinstance(a, ast.expr) or isinstance(a, (ast.JoinedStr, ast.FormattedValue)):
            continue
        # nearest statement-like ancestor must be a block and the way down to `a` must not go through a block field
        for k in range(len(p) - 1, -1, -1):
            anc = at_path(tree, p[:k])
            if isinstance(anc, (ast.stmt, ast.ExceptHandler, ast.match_case)):
                if any(isinstance(getattr(anc, f, None), list) and getattr(anc, f) and
                       isinstance(getattr(anc, f)[0], (ast.stmt, ast.ExceptHandler, ast.match_case)) for f in _BLOCK_FIELDS) \
                        and p[k][0] not in _BLOCK_FIELDS:
                    out.append(p)
                break
    return out


# multi-line statements that do not start at column 0 (after `;`, on a block header line) with multi-byte text before them
# on their first line: a raw edit inside them reparses the statement from padded source
RAW_STMT_SHAPES = [
    'é = 1; x = [a,\n     b]',
    "'日本'; y = f(a,\n   b, c)\nz",
    'if é: x = [a,\n  b]',
    'if é:\n    ü = 1; x = (a +\n        b)\n',
    'while é: x = {a: 1,\n   b: 2}; y',
    'class é: x = [a,\n  b]',
    'def f(): "é"; return [a,\n  b]',
    'for é in ü: x = a; y = g(b,\n  c)\nelse: z = [d,\n  e]',
    'try: é\nexcept ü: x = [a,\n  b]',
    'x = [a,\n     b]',
    'é; x = a',
    'é = 1; x = [a, b]',
]


def raw_product():
    out = []
    for src in RAW_STMT_SHAPES:
        tree = ast.parse(src)
        nodes = enum_nodes(tree)
        pre = [[list(map(list, p)), q] for p, _ in nodes for q in ('loc', 'bloc', 'pars', 'links', 'nav', 'views', 'src')]
        for p, a in nodes:
            if isinstance(a, ast.Name) and isinstance(a.ctx, ast.Load) and a.id.isascii():
                for code in RAW_CODES:
                    out.append((src, [{'pre': pre, 'op': {'op': 'raw_replace', 'path': list(map(list, p)), 'code': code}}]))
                    out.append((src, [{'pre': pre, 'op': {'op': 'reparse', 'path': list(map(list, p)), 'code': code}}]))
    for src in RAW_SHAPES:
        tree = ast.parse(src)
        nodes = enum_nodes(tree)
        pre = [[list(map(list, p)), q] for p, _ in nodes for q in ('loc', 'bloc', 'pars', 'links', 'nav', 'views', 'src')]
        for p in header_exprs(tree):
            for code in RAW_CODES:
                out.append((src, [{'pre': pre, 'op': {'op': 'raw_replace', 'path': list(map(list, p)), 'code': code}}]))
                out.append((src, [{'pre': pre, 'op': {'op': 'reparse', 'path': list(map(list, p)), 'code': code}}]))
    return out


# separated sequences in every enclosing context x multi-line layouts with comments between the elements x every span
# deleted / cut (with and without trivia): the tree must sit where CPython puts it, in particular UNDELIMITED sequences
# (subscript index, comprehension target) whose first elements go away while a comment before the new first one stays
SEQ_CONTEXTS = [
    ('x[{S}]', [['body', 0], ['value', None], ['slice', None]], 'elts', 'e'),
    ('x[{S}] = 1', [['body', 0], ['targets', 0], ['slice', None]], 'elts', 'e'),
    ('y = [j for {S} in k]', [['body', 0], ['value', None], ['generators', 0], ['target', None]], 'elts', 'e'),
    ('y = {{j: 1 for j in k if z[{S}]}}', [['body', 0], ['value', None], ['generators', 0], ['ifs', 0], ['slice', None]], 'elts', 'e'),
    ('x = [{S}]', [['body', 0], ['value', None]], 'elts', 'e'),
    ('x = ({S})', [['body', 0], ['value', None]], 'elts', 'e'),
    ('x = {{{S}}}', [['body', 0], ['value', None]], 'elts', 'e'),
    ('f({S})', [['body', 0], ['value', None]], 'args', 'e'),
    ('class C({S}): pass', [['body', 0]], 'bases', 'e'),
    ('def f({S}): pass', [['body', 0], ['args', None]], '_all', 'e'),
    ('from m import ({S})', [['body', 0]], 'names', 'e'),
    ('with ({S}): pass', [['body', 0]], 'items', 'e'),
    ('del ({S})', [['body', 0], ['targets', 0]], 'elts', 'e'),
    ('match x:\n case [{S}]: pass', [['body', 0], ['cases', 0], ['pattern', None]], 'patterns', 'e'),
    ('match x:\n case ({S}): pass', [['body', 0], ['cases', 0], ['pattern', None]], 'patterns', 'e'),
    ('x = {{{S}}}', [['body', 0], ['value', None]], '_all', 'kv'),
    ('(a for {S} in k)', [['body', 0], ['value', None], ['generators', 0], ['target', None]], 'elts', 'e'),
]


def _seq_layouts(kind):
    el = ['aa', 'bb', 'cc', 'dd'] if kind == 'e' else ['aa: 1', 'bb: 2', 'cc: 3', 'dd: 4']
    a, b, c, d = el
    m, m2 = ('é日', 'üñ') if kind == 'e' else ('é日: 5', 'üñ: 6')
    return [
        f'{a}, {b}, {c}',
        f'{a},\n  {b},\n  {c}',
        f'{a},\n  # keep this comment\n  {b}, {c}',
        f'{a},\n  # keep 1\n  {b},\n  # keep 2\n  {c},\n  # keep 3\n  {d}',
        f'{a},  # ta\n  {b},  # tb\n  {c}  # tc\n',
        f'\n  # lead\n  {a},  # ta\n\n  # own\n  {b}, {c},\n',
        f'{a}, {b},  # tab\n  # own é\n  {c}, {d}',
        f'{a},\n  {m}, {b}',                 # multi-byte text only on the last line
        f'{m}, {a},\n  {b}, {c}',            # multi-byte text only on the first line
        f'{a}, {m},\n  {b},\n  {m2}',
    ]


def seq_layout_product():
    out = []
    for tmpl, path, fld, kind in SEQ_CONTEXTS:
        for lay in _seq_layouts(kind):
            src = tmpl.replace('{S}', lay).replace('{{', '{').replace('}}', '}')
            try:
                tree = ast.parse(src)
            except SyntaxError:
                continue
            n = 4 if ('dd' in lay or 'üñ' in lay) else 3
            pre = [[list(map(list, p)), q] for p, _ in enum_nodes(tree) for q in ('loc', 'bloc', 'pars', 'src', 'own_src', 'links', 'nav', 'pos', 'views')]
            for i in range(n):
                for j in range(i + 1, n + 1):
                    if j - i == n:
                        continue
                    for how in ('del', 'cut'):
                        for triv in ((None, False, 'all') if '#' in lay else (None,)):
                            op = {'op': 'virt', 'path': path, 'field': fld, 'start': i, 'stop': j, 'how': how}
                            if triv is not None:
                                op['trivia'] = triv
                            out.append((src, [{'pre': pre, 'op': op}]))
            # parenthesize / unparenthesize the sequence itself and each of its elements (delimiters get added to and
            # removed from undelimited sequences here; multi-line + multi-byte layouts matter)
            targets = [path]
            if not fld.startswith('_'):
                targets += [path + [[fld, i]] for i in sorted({0, n - 1})]
            for tp in targets:
                for op in ({'op': 'par', 'path': tp, 'force': False}, {'op': 'par', 'path': tp, 'force': True},
                           {'op': 'unpar', 'path': tp, 'node': False, 'shared': True},
                           {'op': 'unpar', 'path': tp, 'node': True, 'shared': True}):
                    out.append((src, [{'pre': pre, 'op': op}]))
                out.append((src, [{'pre': pre, 'op': {'op': 'par', 'path': tp, 'force': True}},
                                  {'pre': pre, 'op': {'op': 'unpar', 'path': tp, 'node': True, 'shared': True}}]))
    return out


# string statements whose VALUE depends on the indentation of their continuation lines, put into / moved between blocks
# of every depth and indentation style: the Constant values (docstring lookup, dump) must be those of a fresh parse
DOC_CODES = [
    'def g():\n    "one line"\n    pass',
    'def g():\n    """multi\n    line\n      deeper\n    """\n    pass',
    'def g():\n    "cont\\\n    inued"\n    pass',
    'def g():\n    """cont\\\n    inued"""\n    return 1',
    'class G:\n    \'\'\'cls \\\n    doc\'\'\'\n    def m(self):\n        "m\\\n        doc"\n',
    '"bare cont\\\n  inued"',
    'x = 1\n"""not first\\\n  string"""\ny = 2',
    'def g():\n    r"""raw\\\n    cont"""',
    'def g():\n    u"é cont\\\n    ü"\n    "second\\\n    string"',
    'def g():\n    """a\\\n    b\n    c\\\n    d"""',
    'def g():\n    x = "assigned\\\n    cont"\n    return x',
    'async def g():\n    """doc"""  # c\n    "cont\\\n    2"  # d\n',
    'def g():\n    b"bytes\\\n    cont"\n    pass',
    'def g():\n    f"f{a}\\\n    cont"\n    pass',
    'def g():\n    ("par\\\n    cont")\n    pass',
]
DOC_TARGETS = [
    ('if a:\n    pass\n', [['body', 0]]),
    ('class K:\n  def m(self):\n    if x:\n      pass\n', [['body', 0], ['body', 0], ['body', 0]]),
    ('def f():\n\tpass\n', [['body', 0]]),
    ('pass\n', []),
    ('try:\n    pass\nfinally:\n        pass\n', [['body', 0]]),
    ('while t:\n   for i in j:\n      pass\n', [['body', 0], ['body', 0]]),
]
DOC_MOVES = [
    ('class K:\n    def m(self):\n        "cont\\\n        inued"\n        return 1\n\n    x = 1\nafter = 2\n',
     [['body', 0], ['body', 0]], [([], 'body', 1), ([], 'body', 0), ([['body', 0]], 'body', 2)]),
    ('def f():\n    if a:\n        def g():\n            """cont\\\n            inued"""\n        y\n    z\n',
     [['body', 0], ['body', 0], ['body', 0]], [([], 'body', 1), ([['body', 0]], 'body', 2), ([['body', 0], ['body', 0]], 'body', 2)]),
    ('if a:\n  "cont\\\n  inued"\n  b\nelif c:\n  """c2\\\n  d2"""\n  d\n', [['body', 0], ['body', 0]], [([], 'body', 1), ([['body', 0]], 'orelse', 1)]),
]


def docstr_product():
    out = []
    for tsrc, tpath in DOC_TARGETS:
        tree = ast.parse(tsrc)
        pre = [[list(map(list, p)), q] for p, _ in enum_nodes(tree) for q in ('loc', 'bloc', 'src', 'own_src', 'docstr', 'links', 'views')]
        for code in DOC_CODES:
            for docstr in (None, True, 'strict', False):
                o = {} if docstr is None else {'options': {'docstr': docstr}}
                base = {'path': tpath, 'field': 'body', **o}
                ops = [{'op': 'append', 'code': code, **base}, {'op': 'insert', 'idx': 0, 'code': code, **base},
                       {'op': 'put_slice', 'start': 0, 'stop': 1, 'code': code, **base},
                       {'op': 'replace', 'path': tpath + [['body', 0]], 'code': code, **o}]
                for op in ops:
                    out.append((tsrc, [{'pre': pre, 'op': op}]))
    for src, spath, dests in DOC_MOVES:
        tree = ast.parse(src)
        pre = [[list(map(list, p)), q] for p, _ in enum_nodes(tree) for q in ('loc', 'bloc', 'src', 'own_src', 'docstr', 'links', 'views')]
        for to, fld, idx in dests:
            for docstr in (None, True, 'strict', False):
                o = {} if docstr is None else {'options': {'docstr': docstr}}
                out.append((src, [{'pre': pre, 'op': {'op': 'move', 'path': spath, 'to': to, 'field': fld, 'idx': idx, **o}}]))
        # elif -> else: if conversion re-indents a live subtree
        out.append((src, [{'pre': pre, 'op': {'op': 'append', 'path': [], 'field': 'body', 'code': 'zz'}}]))
    src = 'if a:\n  b\nelif c:\n  """c2\\\n  d2"""\n  "x\\\n  y"\n'
    tree = ast.parse(src)
    pre = [[list(map(list, p)), q] for p, _ in enum_nodes(tree) for q in ('loc', 'bloc', 'src', 'own_src', 'docstr')]
    for op in ({'op': 'insert', 'path': [['body', 0]], 'field': 'orelse', 'idx': 0, 'code': 'pass'},
               {'op': 'append', 'path': [['body', 0]], 'field': 'orelse', 'code': 'pass'}):
        out.append((src, [{'pre': pre, 'op': op}]))
    return out


KVIEW_FIELDS = [
    ('x = [a, b, c, d]', [['body', 0], ['value', None]], 'elts', 'zz', 'p, q'),
    ('x = (a, b, c, d)', [['body', 0], ['value', None]], 'elts', 'zz', 'p, q'),
    ('x = {a, b, c, d}', [['body', 0], ['value', None]], 'elts', 'zz', 'p, q'),
    ('f(a, b, c, d)', [['body', 0], ['value', None]], 'args', 'zz', 'p, q'),
    ('f(a=1, b=2, c=3)', [['body', 0], ['value', None]], 'keywords', 'kk=1', 'k1=1, k2=2'),
    ('if t:\n    a\n    b\n    c\n    d\n', [['body', 0]], 'body', 'pass', 'p\nq'),
    ('def f():\n    """d"""\n    a\n    b\n    c\n', [['body', 0]], 'body', 'pass', 'p\nq'),
    ('a\nb\nc\n', [], 'body', 'pass', 'p\nq'),
    ('del a, b, c, d', [['body', 0]], 'targets', 'zz', 'p, q'),
    ('global a, b, c, d', [['body', 0]], 'names', 'zz', 'p, q'),
    ('import a, b, c, d', [['body', 0]], 'names', 'zz', 'p, q'),
    ('class C(A, B, D): pass', [['body', 0]], 'bases', 'zz', 'p, q'),
    ('with a, b, c: pass', [['body', 0]], 'items', 'zz', 'p, q'),
    ('def f(a, b, c, d): pass', [['body', 0], ['args', None]], '_all', 'zz', 'p, q'),
    ('x = {a: 1, b: 2, c: 3}', [['body', 0], ['value', None]], '_all', 'zz: 1', 'p: 1, q: 2'),
    ('match x:\n case [a, b, c]: pass', [['body', 0], ['cases', 0], ['pattern', None]], 'patterns', 'zz', 'p, q'),
]
KVIEW_KINDS = [(None, None), (0, 2), (1, None), (1, 3), (1, 1), (0, 0)]
KVIEW_ACTS = ['cut', 'remove', 'delall', 'append', 'prepend', 'insert1', 'extend', 'del0', 'setslice0', None]
KVIEW_EXT = ['append', 'prepend', 'del0', 'newview_append', 'extend']


def kview_product():
    """[(src, steps)]: field kinds x view kinds x edit through the kept view x growth / shrink through another handle"""
    out = []
    for src, path, fld, one, many in KVIEW_FIELDS:
        for st, sp in KVIEW_KINDS:
            for act in KVIEW_ACTS:
                for ext in KVIEW_EXT:
                    steps = [{'pre': [], 'op': {'op': 'kview', 'act': 'make', 'name': 'v', 'path': path, 'field': fld,
                                                'start': st, 'stop': sp}}]
                    if act:
                        steps.append({'pre': [], 'op': {'op': 'kview', 'act': act, 'name': 'v',
                                                        'code': many if act in ('extend', 'setslice0') else one}})
                    steps.append({'pre': [], 'op': {'op': 'ext', 'how': ext, 'path': path, 'field': fld,
                                                    'code': many if ext == 'extend' else one}})
                    steps.append({'pre': [], 'op': {'op': 'ext', 'how': 'append', 'path': path, 'field': fld, 'code': one}})
                    out.append((src, steps))
    return out


# ---------------------------------------------------------------------------------------------------------------------
# token gaps (for put_src offset; same rule as C11: whitespace between significant tokens, not inside f-strings)

def gaps(src):
    import tokenize
    out = []
    try:
        toks = util.tokens(src)
    except Exception:
        return out
    depth = 0
    fdepth = 0
    prev = None
    for t in toks:
        name = tokenize.tok_name[t.type]
        if t.type in (tokenize.INDENT, tokenize.DEDENT, tokenize.ENDMARKER):
            continue
        if t.type in (tokenize.NEWLINE, tokenize.NL, tokenize.COMMENT):
            prev = None
            continue
        if name == 'FSTRING_START':
            if prev is not None and fdepth == 0:
                out.append((prev[0] - 1, prev[1], t.start[0] - 1, t.start[1], depth))
            fdepth += 1
            prev = None
            continue
        if name == 'FSTRING_END':
            fdepth -= 1
            prev = t.end if fdepth == 0 else None
            continue
        if fdepth > 0:
            continue
        if prev is not None:
            out.append((prev[0] - 1, prev[1], t.start[0] - 1, t.start[1], depth))
        if t.type == tokenize.OP:
            if t.string in '([{':
                depth += 1
            elif t.string in ')]}':
                depth -= 1
        prev = t.end
    return out


def all_comments(src):
    """[(ln, col, end_col)] of every comment token"""
    import tokenize
    try:
        return [(t.start[0] - 1, t.start[1], t.end[1]) for t in util.tokens(src) if t.type == tokenize.COMMENT]
    except Exception:
        return []


def code_end_lines(src):
    """0-based lines on which a logical line ends (NEWLINE token): trailing whitespace there is free"""
    import tokenize
    try:
        return {t.start[0] - 1 for t in util.tokens(src) if t.type == tokenize.NEWLINE}
    except Exception:
        return set()


def trailing_comments(src):
    """[(ln, col, end_col)] of comments that follow code on the same line"""
    import tokenize
    out = []
    try:
        toks = util.tokens(src)
    except Exception:
        return out
    prev = None
    for t in toks:
        if t.type == tokenize.COMMENT and prev is not None and prev.end[0] == t.start[0] \
                and prev.type not in (tokenize.NL, tokenize.NEWLINE, tokenize.INDENT, tokenize.DEDENT, tokenize.COMMENT) \
                and t.end[1] - t.start[1] >= 2:
            out.append((t.start[0] - 1, t.start[1], t.end[1]))
        prev = t
    return out


def put_src_keeps_ast(src, op):
    """the replacement must be trivia only: CPython parses old and new source to the same tree"""
    ln, col, end_ln, end_col = op['loc']
    lines = src.split('\n')
    pre = '\n'.join(lines[:ln] + [lines[ln][:col]])
    post = '\n'.join([lines[end_ln][end_col:]] + lines[end_ln + 1:])
    try:
        return ast.dump(ast.parse(pre + op['code'] + post)) == ast.dump(ast.parse(src))
    except SyntaxError:
        return False


# ---------------------------------------------------------------------------------------------------------------------
# one history

def gen_pre(rng, root, frac=None):
    nodes = enum_nodes(root.a)
    if frac is None:
        frac = rng.choice([0.0, 0.15, 0.4, 1.0])
    out = []
    for path, a in nodes:
        if rng.random() < frac:
            k = rng.choice([1, 2, 3, len(QNAMES)])
            for q in rng.sample(QNAMES, min(k, len(QNAMES))):
                out.append([list(map(list, path)), q])
    return out


def gen_pre_focus(rng, root, op):
    """pre-queries on the edit target, its ancestors and its siblings (the nodes whose caches the edit must flush)"""
    if 'path' not in op:
        return []
    path = tuple((n, i) for n, i in op['path'])
    targets = [path[:k] for k in range(len(path) + 1)]
    if path:
        par = path[:-1]
        try:
            pa = at_path(root.a, par)
            for p, _ in enum_nodes(pa):
                if len(p) == 1:
                    targets.append(par + p)
        except Exception:
            pass
    out = []
    mode = rng.choice(['none', 'some', 'all', 'all'])
    if mode == 'none':
        return out
    for p in targets:
        if mode == 'all' or rng.random() < 0.5:
            qs = QNAMES if rng.random() < 0.3 else rng.sample(['loc', 'bloc', 'pars', 'parsF', 'parsN', 'own_src', 'src',
                                                                 'lines', 'views', 'delims', 'arglists', 'docstr'], 4)
            for q in qs:
                out.append([list(map(list, p)), q])
    return out


def run_pre(root, pre):
    env = Env(root)
    for path, q in pre:
        try:
            a = at_path(root.a, tuple((n, i) for n, i in path))
        except Exception:
            continue
        f = getattr(a, 'f', None)
        if f is not None:
            run_query(q, f, env)


def fresh_tree(src):
    from fst import FST
    return FST(src, 'exec')


_ARGLIKE_FIELDS = {'Call': ('args', 'keywords'), 'ClassDef': ('bases', 'keywords'), 'MatchClass': ('patterns', 'kwd_patterns')}


def _stale_sig(root, key, knd, q, okind, stale, fresh, family=None):
    """Signature of a stale answer. One family is singled out (finding C02-F1): `pars(shared=None)` of an element of
    Call.args/keywords, ClassDef.bases/keywords, MatchClass.patterns whose parenthesis count is off by exactly one
    (the container's own parentheses count as enclosing parentheses only while the element is the sole one)."""
    if family and family[0] == 'unpar-pars-to-spaces' and (
            (key == family[1] and q in ('pars', 'parsF', 'parsN'))
            or (q == 'views' and family[1].startswith(key + '.'))):      # view loc of the parent field uses the child's pars()
        # finding C02-F3: unpar() replaced both parentheses by spaces in the line text directly (alphanumeric on both
        # sides), nothing cleared the node's own cached pars answers
        return ('pars', 'unpar-pars-to-spaces', '-', 'stale-cache')
    if q == 'parsN':
        try:
            head, _, last = key.rpartition('.')
            fld = last.split('[')[0]
            path = []
            for part in (head.split('.') if head and head != '<root>' else []):
                n, _, i = part.partition('[')
                path.append((n, int(i[:-1]) if i else None))
            pk = at_path(root.a, tuple(path)).__class__.__name__
            if fld in _ARGLIKE_FIELDS.get(pk, ()) and isinstance(stale, list) and isinstance(fresh, list) \
                    and len(stale) == 5 and len(fresh) == 5 and abs(stale[4] - fresh[4]) == 1:
                return ('parsN', 'arglike-count-change', pk, 'stale-cache')
        except Exception:
            pass
    return (q, okind, knd, 'stale-cache')


def zombies(root, held):
    """kinds of FST objects that are not reachable from the root AST any more, yet are not dead and still claim the
    root through their parent chain"""
    reach = {id(a) for _, a in enum_nodes(root.a)}
    out = []
    for f, kind in held:
        a = getattr(f, 'a', None)
        if a is None or (id(a) in reach and getattr(a, 'f', None) is f):
            continue
        r, n = f, 0
        while getattr(r, 'parent', None) is not None and n < 10000:
            r = r.parent
            n += 1
        if r is root:
            out.append(kind)
    return out


import re as _re
_re_dangling_cont = _re.compile(r'\\[ \t]*\n[ \t]*(\n|$)')


def oneline_block_continuation(root, op):
    """Finding C02-F2 (a C01 matter) input class: a deletion inside a block whose body starts on the header line and
    continues after `;` with a backslash continuation (`if x: y; \\` newline `z = 1`)."""
    import re
    if 'path' not in op or not (op['op'] in ('remove', 'put_slice') and op.get('code') is None
                                or op['op'] == 'view' and op['vop'] in ('delitem', 'delslice', 'cut', 'remove')):
        return False
    p = tuple((n, i) for n, i in op['path'])
    if op['op'] == 'remove':
        p = p[:-1]
    try:
        a = at_path(root.a, p)
    except Exception:
        return False
    for fld in _BODY_FIELDS:
        v = getattr(a, fld, None)
        if isinstance(v, list) and v and isinstance(v[0], ast.stmt):
            line = root._lines[v[0].lineno - 1]
            col = line.b2c(v[0].col_offset)
            if line[:col].rstrip().endswith(':') and re.search(r';\s*\\$', line):
                return True
    return False


def check_state(root, root_id, op, view_info=None, graphs=None, target_kind='-', c01_family=None, stale_family=None):
    """All C02 checks on the current state. Returns list of (signature-parts, what, detail)."""
    fails = []
    okind = op_kind(op) if op else 'none'
    if id(root) != root_id or root.parent is not None or root.a is None:
        fails.append((('root-identity', okind, type(root.a).__name__, 'root-changed'), 'root object changed or died', None))
        return fails, True
    src = root.src
    # 1. what the caches hold right now
    snap = cache_snapshot(root)
    # 2. what the user reads right now
    live = all_queries(root)
    if view_info:
        msg = check_view_after(root, view_info, Env(root))
        if msg:
            fails.append((('view-window', okind, view_info['field'], 'window-law'), msg, None))
    # link graph for the Lean judge
    if graphs is not None:
        st = dump_state(Ids(), root)
        bad = link_invariant_py(st)
        st.pop('new')
        st['py_bad'] = [list(b) for b in bad[:3]]
        graphs.append(st)
        if bad:
            fails.append((('links', okind, bad[0][0], 'link-invariant'), f'link invariant broken: {bad[:3]}', None))
    # 3. same queries on cleared caches
    clear_all_caches(root)
    recomputed = recompute_cached(root, snap)
    clear_all_caches(root)
    live2 = all_queries(root)
    stale_seen = set()
    _KEYQ = {'loc': 'loc', 'bloc': 'bloc', 'parsT': 'pars', 'parsF': 'parsF', 'parsN': 'parsN'}
    for key, (knd, d) in snap.items():
        r = recomputed.get(key, (knd, {}))[1]
        for k, v in d.items():
            if k in r and r[k] != v:
                q = _KEYQ.get(k, f'_cache[{k}]')
                sig = _stale_sig(root, key, knd, q, okind, v, r[k], stale_family)
                if sig not in stale_seen:
                    stale_seen.add(sig)
                    fails.append((sig, f'_cache[{k!r}] of {knd} at {key} holds {v} after the edit but recomputation '
                                       f'after _cache.clear() gives {r[k]}', None))
                break
    for key, knd, q, x, y in diff_answers(live, live2):
        sig = _stale_sig(root, key, knd, q, okind, x, y, stale_family)
        if sig not in stale_seen:
            stale_seen.add(sig)
            fails.append((sig, f'{q} of {knd} at {key}: answered {str(x)[:160]} with the caches as the edit left them, '
                               f'{str(y)[:160]} after clearing all caches', None))
    # 4. fresh tree
    stop = False
    try:
        fresh = fresh_tree(src)
    except Exception as e:
        fails.append((('tree-differs-from-parse', c01_family or okind, '-' if c01_family else target_kind, 'source-unparsable'),
                      f'(C01 matter) source no longer parses after {okind} of {target_kind}: {e}', None))
        return fails, True
    ref = all_queries(fresh)
    dd = diff_answers(live2, ref)
    if dd:
        c01 = util.tree_equals_parse(root)
        if c01:
            key, knd, q, x, y = dd[0]
            fails.append((('tree-differs-from-parse', c01_family or okind, '-' if c01_family else knd,
                           'positions' if c01.startswith('positions') else 'structure'),
                          f'(C01 matter) live tree differs from a fresh parse: {c01[:300]}', None))
            stop = True
        else:
            for key, knd, q, x, y in dd:
                fails.append(((q, okind, knd, 'differs-from-fresh'),
                              f'{q} of {knd} at {key}: live (caches cleared) {str(x)[:160]}, fresh tree {str(y)[:160]}', None))
    return fails, stop


def run_history(src, steps=None, seed=None, nsteps=6, with_graphs=False, stop_on_fail=True, light=False):
    """Run an explicit history (`steps`) or generate one (`seed`). Returns dict with 'fails', 'steps' (as executed),
    'graphs', counters."""
    rng = random.Random(seed)
    res = {'src': src, 'fails': [], 'steps': [], 'graphs': [], 'n_ops': 0, 'n_raised': 0, 'kinds': [], 'abandoned': None}
    try:
        root = fresh_tree(src)
    except Exception:
        res['abandoned'] = 'parse'
        return res
    root_id = id(root)
    graphs = res['graphs'] if with_graphs else None
    explicit = steps is not None
    kept = {}
    n = len(steps) if explicit else nsteps
    for si in range(n):
        if explicit:
            step = steps[si]
        else:
            op = None
            for _ in range(6):
                op = gen_op(rng, root, gaps, kept)
                if op is not None and (op['op'] != 'put_src' or put_src_keeps_ast(root.src, op)):
                    break
                op = None
            if op is None:
                break
            step = {'pre': gen_pre(rng, root) + gen_pre_focus(rng, root, op), 'op': op}
        run_pre(root, step['pre'])
        held = [(a.f, a.__class__.__name__) for _, a in enum_nodes(root.a) if getattr(a, 'f', None) is not None]
        before_src = root.src
        before_dump = util.dump_pos(root.a)
        op = step['op']
        try:
            target_kind = at_path(root.a, tuple((n, i) for n, i in op['path'])).__class__.__name__ if 'path' in op else '-'
        except Exception:
            target_kind = '-'
        c01_family = 'delete-in-oneline-block-with-continuation' if oneline_block_continuation(root, op) else None
        if c01_family is None and _re_dangling_cont.search(before_src):
            c01_family = 'edit-after-dangling-line-continuation'     # state left by known finding C01-K8
        try:
            info = apply_op(root, op, kept)
        except RecursionError:
            raise
        except Exception as e:
            res['n_raised'] += 1
            res['steps'].append({'pre': step['pre'], 'op': op, 'raised': type(e).__name__})   # replayed too: may matter
            if root.src != before_src or util.dump_pos(root.a) != before_dump or id(root) != root_id:
                res['abandoned'] = f'failed edit changed the tree (C12 matter): {op_kind(op)} {type(e).__name__}'
                break
            continue
        if op['op'] in ('par', 'unpar'):
            # "doesn't do any higher level parsability validation ... that's on you": only meaning-preserving calls count
            try:
                same = ast.dump(ast.parse(root.src)) == ast.dump(ast.parse(before_src))
            except SyntaxError:
                same = False
            if not same:
                res['abandoned'] = 'par/unpar changed the meaning of the source (caller responsibility)'
                break
        res['steps'].append(step)
        res['n_ops'] += 1
        res['kinds'].append(op_kind(op))
        stale_family = None
        if op['op'] == 'unpar' and len(root.src) == len(before_src) and root.src != before_src:
            stale_family = ('unpar-pars-to-spaces', pstr(tuple((n, i) for n, i in op['path'])))
        if light:
            # deterministic products about one mechanism: root identity, C01 oracle (ends the history), link invariant
            fails, stop = [], False
            if id(root) != root_id or root.a is None:
                fails.append((('root-identity', op_kind(op), '-', 'root-changed'), 'root object changed or died', None))
                stop = True
            elif util.tree_equals_parse(root):
                break
            else:
                bad = link_invariant_py(dump_state(Ids(), root))
                if bad:
                    fails.append((('links', op_kind(op), bad[0][0], 'link-invariant'), f'link invariant broken: {bad[:3]}', None))
        else:
            fails, stop = check_state(root, root_id, op, info if info else None, graphs, target_kind,
                                      c01_family or (stale_family and stale_family[0]), stale_family)
        if kept and not stop:
            fails.extend(check_kept(root, kept, op_kind(op)))
        z = zombies(root, held)
        if z:
            fails.append((('is_alive', op_kind(op), z[0], 'zombie-node'),
                          f'{len(z)} node object(s) held from before the edit (first: {z[0]}) are no longer part of the '
                          f'tree but still have .a set and a parent chain ending at the root (is_alive is True)', None))
        for sig, what, _ in fails:
            res['fails'].append({'sig': 'C02|' + '|'.join(sig), 'what': what, 'step': len(res['steps']) - 1})
        if fails and (stop or stop_on_fail):
            break
    return res
