"""Shared machinery for the pfst Lean-4 proof checks.

One run of `./check Cxx` does, in this order (DESIGN.md section 1.1):

  1. extract    - regenerate lean/Pfst/Gen/*.lean from /repo's working tree (extensional table extraction)
  2. build      - `lake build` the property theorems and the driver (proof obligations re-checked against the tables)
  3. audit      - `#print axioms` on every property theorem + forbidden-token grep
  4. correspond - run the executable Lean model and the real pfst code on the same inputs, diff
  5. sweep      - per-case check of the external hypotheses of the theorems (CPython agreement) on the real code
  6. search     - only if 1-4 broke: look for a concrete failing input on the implementation
  7. verdict    - KNOWN-FINDING lines / VIOLATION line / evidence file

Exit codes: 0 held, 1 violation, 2 infrastructure problem (timeout, crash of the harness itself).
"""

from __future__ import annotations

import hashlib
import importlib
import json
import multiprocessing as mp
import os
import random
import re
import shutil
import subprocess
import sys
import time
import traceback
from pathlib import Path

ROOT = Path(__file__).resolve().parent.parent
LEAN = ROOT / 'lean'
REPO = Path(os.environ.get('PFST_REPO', '/repo'))
EVIDENCE = Path(os.environ['VERIF_EVIDENCE_DIR']) if os.environ.get('VERIF_EVIDENCE_DIR') else ROOT / 'evidence'   # mutation trials write elsewhere
REPLAYS = ROOT / 'replays'
KNOWN = ROOT / 'known_findings.json'

ALLOWED_AXIOMS = {'propext', 'Classical.choice', 'Quot.sound'}
FORBIDDEN = re.compile(r'\b(sorry|admit|native_decide|bv_decide|implemented_by)\b|^\s*axiom\s|unsafe\s|maxHeartbeats\s+0\b')

BASE_TRUSTED = [
    'Lean 4.33.0 kernel; axioms allowed in property theorems: propext, Classical.choice, Quot.sound (audited by #print axioms each run)',
    'CPython 3.12.1 as external parameter (ast.parse, tokenize, symtable, re) wherever a property names Python\'s own behaviour',
    'harness/extract*.py (extensional table extraction) and the correspondence harness (serialisation, canonicalisation, generators)',
]


def setup_repo_path():
    src = str(REPO / 'src')
    if src not in sys.path:
        sys.path.insert(0, src)
    sys.dont_write_bytecode = True


class Failure:
    """A concrete input on which the property fails on the implementation."""

    def __init__(self, sig: str, what: str, witness):
        self.sig = sig          # narrow signature string, matched against known_findings.json
        self.what = what
        self.witness = witness


class Ctx:
    def __init__(self, pid: str, tier: str, seed: int):
        self.pid = pid
        self.tier = tier
        self.seed = seed
        self.rng = random.Random(f'{pid}:{seed}')
        self.t0 = time.time()
        self.evaluations = 0
        self.distinct = set()
        self.samples = []
        self.dist = {}
        self.broken = []        # [(kind, name, detail)]  proof / extraction / correspondence breaks
        self.failures = []      # [Failure]
        self.notes = {}
        self.exhaustive = None
        self.corr_cases = 0
        self.corr_disagreements = []
        self.hints = []         # inputs on which model and implementation disagreed (seed the search)
        self.driver_ok = False
        self.quick = tier == 'quick'

    # ---- bookkeeping -------------------------------------------------------------------------------------------
    def count(self, key=None, nontrivial=True, n=1):
        self.evaluations += n
        if key is not None and nontrivial:
            if not isinstance(key, (str, bytes)):
                key = json.dumps(key, sort_keys=True, default=str)
            self.distinct.add(hashlib.blake2b(key.encode() if isinstance(key, str) else key, digest_size=8).digest())

    def sample(self, obj, cap=6):
        if len(self.samples) < cap:
            self.samples.append(obj)

    def tally(self, group: str, key):
        d = self.dist.setdefault(group, {})
        k = str(key)
        d[k] = d.get(k, 0) + 1

    def elapsed(self):
        return time.time() - self.t0

    def brk(self, kind: str, name: str, detail=''):
        self.broken.append((kind, name, str(detail)[:4000]))

    def fail(self, sig: str, what: str, witness):
        self.failures.append(Failure(sig, what, witness))

    # ---- Lean driver -------------------------------------------------------------------------------------------
    def lean(self, cases: list[dict]) -> list[dict]:
        """Run the Lean driver on a batch of cases (one JSON per line) and return one JSON per case."""
        if not cases:
            return []
        exe = LEAN / '.lake' / 'build' / 'bin' / 'driver'
        if not exe.exists():
            raise RuntimeError('driver not built')
        nproc = min(16, max(1, len(cases) // 2000))
        chunks = [cases[i::nproc] for i in range(nproc)]
        procs = []
        for ch in chunks:
            data = ''.join(json.dumps(c, separators=(',', ':')) + '\n' for c in ch)
            p = subprocess.Popen([str(exe)], stdin=subprocess.PIPE, stdout=subprocess.PIPE, stderr=subprocess.PIPE, text=True)
            procs.append((p, data))
        outs = []
        import threading
        results = [None] * nproc

        def run(i, p, data):
            results[i] = p.communicate(data)

        ths = [threading.Thread(target=run, args=(i, p, d)) for i, (p, d) in enumerate(procs)]
        for t in ths:
            t.start()
        for t in ths:
            t.join()
        per_chunk = []
        for i, (p, _) in enumerate(procs):
            so, se = results[i]
            lines = so.splitlines()
            if p.returncode != 0 or len(lines) != len(chunks[i]):
                raise RuntimeError(f'driver failed rc={p.returncode} got {len(lines)}/{len(chunks[i])} lines: {se[:500]}')
            per_chunk.append([json.loads(l) for l in lines])
        out = [None] * len(cases)
        for i in range(nproc):
            out[i::nproc] = per_chunk[i]
        return out

    def compare(self, name: str, cases: list[dict], impl_outs: list, keyf=None, nontrivial=None):
        """Correspondence: run the Lean model on `cases`, compare with implementation outputs (already canonical)."""
        try:
            model_outs = self.lean(cases)
        except Exception as e:
            self.brk('correspondence', name, f'driver error: {e}')
            return
        nbad = 0
        for c, io, mo in zip(cases, impl_outs, model_outs):
            self.corr_cases += 1
            nt = True if nontrivial is None else nontrivial(c, io)
            self.count(keyf(c) if keyf else c, nt)
            m = mo.get('out', mo)
            if m != io:
                nbad += 1
                if len(self.corr_disagreements) < 20:
                    self.corr_disagreements.append({'corr': name, 'case': c, 'impl': io, 'model': m})
                self.hints.append((name, c))
        if cases:
            self.sample({'corr': name, 'case': cases[0], 'impl': impl_outs[0]})
        self.tally('correspondence_cases', name)
        self.dist['correspondence_cases'][name] = self.dist['correspondence_cases'].get(name, 1) - 1 + len(cases)
        if nbad:
            self.brk('correspondence', name, f'{nbad}/{len(cases)} cases differ; first: '
                     + json.dumps(self.corr_disagreements[0], default=str)[:1500])


def pmap(func, items, procs=16, chunksize=None):
    """Parallel map: the items are cut into `procs` contiguous chunks, each chunk runs in a freshly forked process
    (the repo import happened once in the parent; no pfst state leaks between chunks), results come back over a pipe."""
    import pickle
    items = list(items)
    if len(items) < 8 or procs <= 1:
        return [func(x) for x in items]
    n = min(procs, len(items))
    bounds = [(len(items) * k // n, len(items) * (k + 1) // n) for k in range(n)]
    kids = []
    for lo, hi in bounds:
        r, w = os.pipe()
        pid = os.fork()
        if pid == 0:
            os.close(r)
            try:
                try:
                    out = ('ok', [func(x) for x in items[lo:hi]])
                except BaseException:
                    out = ('exc', traceback.format_exc()[-3000:])
                data = pickle.dumps(out)
                with os.fdopen(w, 'wb') as fw:
                    fw.write(data)
            finally:
                os._exit(0)
        os.close(w)
        kids.append((pid, r))
    import selectors
    sel = selectors.DefaultSelector()
    bufs = {}
    for k, (pid, r) in enumerate(kids):
        os.set_blocking(r, False)
        sel.register(r, selectors.EVENT_READ, k)
        bufs[k] = bytearray()
    open_n = len(kids)
    while open_n:
        for key, _ in sel.select():
            chunk = os.read(key.fd, 1 << 20)
            if chunk:
                bufs[key.data] += chunk
            else:
                sel.unregister(key.fd)
                os.close(key.fd)
                open_n -= 1
    results = []
    for k, (pid, r) in enumerate(kids):
        os.waitpid(pid, 0)
        if not bufs[k]:
            raise RuntimeError(f'pmap worker {k} died without a result (items {bounds[k]})')
        kind, val = pickle.loads(bytes(bufs[k]))
        if kind != 'ok':
            raise RuntimeError('pmap worker raised:\n' + val)
        results.extend(val)
    return results


# ---------------------------------------------------------------------------------------------------------------------

def sh(cmd, cwd=None, timeout=3600):
    p = subprocess.run(cmd, cwd=cwd, capture_output=True, text=True, timeout=timeout)
    return p.returncode, p.stdout + p.stderr


def gen_drv_index():
    """lean/Pfst/DrvAll.lean is generated from the Drv/*.lean present (keeps per-property packages independent)."""
    mods = sorted(p.stem for p in (LEAN / 'Pfst' / 'Drv').glob('*.lean'))
    txt = '-- GENERATED by harness/framework.py (gen_drv_index); do not edit\nimport Lean.Data.Json\n'
    txt += ''.join(f'import Pfst.Drv.{m}\n' for m in mods)
    txt += '\nnamespace Pfst.DrvAll\nopen Lean\n\ndef dispatchers : List (String → Json → Option Json) :=\n  ['
    txt += ', '.join(f'Pfst.Drv.{m}.dispatch' for m in mods) + ']\n\nend Pfst.DrvAll\n'
    write_if_changed(LEAN / 'Pfst' / 'DrvAll.lean', txt)
    props = sorted(p.stem for p in (LEAN / 'Pfst' / 'Props').glob('*.lean'))
    root = '-- GENERATED by harness/framework.py (gen_drv_index); do not edit\n'
    root += ''.join(f'import Pfst.Props.{m}\n' for m in props) + 'import Pfst.DrvAll\n'
    write_if_changed(LEAN / 'Pfst.lean', root)


def write_if_changed(path: Path, txt: str):
    if not path.exists() or path.read_text() != txt:
        path.parent.mkdir(parents=True, exist_ok=True)
        path.write_text(txt)
        return True
    return False


def lake_build(targets: list[str], timeout=3000):
    gen_drv_index()
    rc, out = sh(['lake', 'build', *targets], cwd=LEAN, timeout=timeout)
    return rc, out


def audit(mod, ctx: Ctx):
    """#print axioms on every property theorem; forbidden-token grep over the Lean sources this property uses."""
    thms = list(mod.THEOREMS)
    src = ''.join(f'import {m}\n' for m in mod.LEAN_MODULES) + ''.join(f'#print axioms {t}\n' for t in thms)
    f = LEAN / '.lake' / f'audit_{mod.ID}.lean'
    f.parent.mkdir(exist_ok=True)
    f.write_text(src)
    rc, out = sh(['lake', 'env', 'lean', str(f)], cwd=LEAN, timeout=1200)
    ok = {}
    cur = None
    # output: "'name' depends on axioms: [a, b]" or "'name' does not depend on any axioms"
    for m in re.finditer(r"'([^']+)' (does not depend on any axioms|depends on axioms: \[([^\]]*)\])", out):
        name = m.group(1)
        axs = set(a.strip() for a in (m.group(3) or '').replace('\n', ' ').split(',') if a.strip())
        ok[name] = axs
    discharged = 0
    for t in thms:
        if t not in ok:
            ctx.brk('proof', t, 'theorem missing or does not compile: ' + out[-800:])
        elif not ok[t] <= ALLOWED_AXIOMS:
            ctx.brk('proof', t, f'uses axioms outside the allowed set: {sorted(ok[t] - ALLOWED_AXIOMS)}')
        else:
            discharged += 1
    # forbidden tokens (comments stripped)
    files = set()
    for m in mod.LEAN_MODULES + list(getattr(mod, 'LEAN_DEPS', [])):
        files.add(LEAN / (m.replace('.', '/') + '.lean'))
    for p in list(files):
        if p.exists():
            for imp in re.findall(r'^import (Pfst\.[\w.]+)', p.read_text(), re.M):
                files.add(LEAN / (imp.replace('.', '/') + '.lean'))
    bad = []
    for p in sorted(files):
        if not p.exists():
            continue
        txt = re.sub(r'/-.*?-/', '', p.read_text(), flags=re.S)
        for i, line in enumerate(txt.splitlines()):
            line = line.split('--')[0]
            if FORBIDDEN.search(line):
                bad.append(f'{p.name}:{i + 1}: {line.strip()[:80]}')
    if bad:
        ctx.brk('proof', 'forbidden-token', '; '.join(bad[:10]))
    # thorough tier: the toolchain's independent re-checker replays the compiled declarations of the property modules
    if getattr(ctx, 'tier', 'quick') == 'thorough' and shutil.which('leanchecker'):
        rc2, out2 = sh(['lake', 'env', 'leanchecker', *mod.LEAN_MODULES], cwd=LEAN, timeout=1800)
        ctx.notes['leanchecker'] = {'modules': list(mod.LEAN_MODULES), 'exit': rc2}
        if rc2 != 0:
            ctx.brk('proof', 'leanchecker', f'leanchecker exit {rc2}: ' + out2[-600:])
    return len(thms), discharged, ok


def load_known(pid):
    if not KNOWN.exists():
        return []
    data = json.loads(KNOWN.read_text())
    return [e for e in data.get('findings', []) if e.get('property') == pid]


def write_evidence(mod, ctx: Ctx, obligations, discharged, violations, extra=None):
    EVIDENCE.mkdir(exist_ok=True)
    cov = {
        'obligations': obligations,
        'discharged': discharged,
        'checker_cmd': f'cd lean && lake build {" ".join(mod.LEAN_MODULES)} && lake env lean .lake/audit_{mod.ID}.lean  (#print axioms)',
        'trusted_base': BASE_TRUSTED + list(getattr(mod, 'TRUSTED', [])),
        'theorems': list(mod.THEOREMS),
        'evaluations': ctx.evaluations,
        'distinct_nontrivial': len(ctx.distinct),
        'rule': getattr(mod, 'RULE', ''),
        'samples': ctx.samples or [{'note': 'no correspondence case was run (build broken before the driver was available)'}],
        'correspondence_cases': ctx.corr_cases,
        'correspondence_disagreements': len(ctx.corr_disagreements),
        'distribution': ctx.dist,
        'broken': [{'kind': k, 'name': n, 'detail': d[:400]} for k, n, d in ctx.broken],
        'notes': ctx.notes,
    }
    if ctx.exhaustive is not None:
        cov['exhaustive'] = bool(ctx.exhaustive)
    if extra:
        cov.update(extra)
    ev = {
        'property_id': mod.ID,
        'tier': ctx.tier,
        'seed': ctx.seed,
        'level': 'proof',
        'coverage': cov,
        'assumptions': list(getattr(mod, 'ASSUMPTIONS', [])),
        'wall_s': round(ctx.elapsed(), 2),
        'violations': violations,
    }
    (EVIDENCE / f'{mod.ID}.json').write_text(json.dumps(ev, indent=1, default=str) + '\n')


def write_replay(pid, seed, payload):
    REPLAYS.mkdir(exist_ok=True)
    p = REPLAYS / f'{pid}_{seed}_{int(time.time())}.json'
    p.write_text(json.dumps(payload, indent=1, default=str) + '\n')
    try:
        return str(p.relative_to(ROOT))
    except ValueError:
        return str(p)


def match_known(f: Failure, known):
    for e in known:
        if e.get('kind', 'known') != 'known':
            continue   # 'fixed' entries suppress nothing
        sigs = e.get('signatures') or ([e['signature']] if e.get('signature') else [])
        if f.sig in sigs or f.sig == e.get('id'):
            return e
        import fnmatch
        for pat in e.get('patterns', []):
            if fnmatch.fnmatchcase(f.sig, pat):
                return e
    return None


def run_check(pid: str, tier: str, seed: int, replay: str | None = None) -> int:
    setup_repo_path()
    mod = importlib.import_module(f'props.{pid}')
    ctx = Ctx(pid, tier, seed)
    known = load_known(pid)

    if replay:
        data = json.loads(Path(replay).read_text())
        ok = mod.replay(ctx, data)
        for f in ctx.failures:
            print(f'REPLAY-FAILS property={pid} {f.what}')
        return 1 if ctx.failures else 0

    obligations = discharged = 0
    try:
        # 1. extraction ------------------------------------------------------------------------------------------
        if hasattr(mod, 'extract'):
            try:
                mod.extract(ctx)
            except Exception as e:
                ctx.brk('extraction', getattr(mod, 'ID'), traceback.format_exc()[-1500:])
        # 2. build -----------------------------------------------------------------------------------------------
        rc, out = lake_build(['driver'] + list(mod.LEAN_MODULES))
        if rc != 0:
            # build the driver alone so that the correspondence can still run, and record which module broke
            errs = re.findall(r'error: ([^\n]+)', out)
            ctx.brk('proof', 'lake build ' + ' '.join(mod.LEAN_MODULES), '\n'.join(errs[:12]) or out[-1500:])
            rc2, out2 = lake_build(['driver'])
            ctx.driver_ok = rc2 == 0
        else:
            ctx.driver_ok = True
        # 3. audit -----------------------------------------------------------------------------------------------
        obligations, discharged, _ = audit(mod, ctx)
        # 4. correspondence --------------------------------------------------------------------------------------
        if ctx.driver_ok and hasattr(mod, 'correspondence'):
            try:
                mod.correspondence(ctx)
            except Exception:
                ctx.brk('correspondence', pid, 'harness exception (implementation API no longer answers as the model expects): '
                        + traceback.format_exc()[-2000:])
        elif not ctx.driver_ok:
            ctx.brk('correspondence', pid, 'driver does not build; model could not be run')
        # 5. hypothesis-agreement sweep on the real code ---------------------------------------------------------
        if hasattr(mod, 'sweep'):
            try:
                mod.sweep(ctx)
            except Exception:
                ctx.brk('correspondence', pid + '.sweep', 'sweep harness exception: ' + traceback.format_exc()[-2000:])
        # 5b. replay every listed known finding on the implementation (it must be reported on every run while it exists)
        for e in known:
            if e.get('kind', 'known') != 'known' or e.get('witness') is None:
                continue
            try:
                if hasattr(mod, 'check_known'):
                    mod.check_known(ctx, e)
                elif hasattr(mod, 'replay'):
                    # generic: replay the witness through the module's replay(); any failure it reports is this finding
                    tmp = Ctx(pid, tier, seed)
                    sigs = e.get('signatures') or ([e['signature']] if e.get('signature') else [])
                    mod.replay(tmp, {'property': pid, 'witness': e['witness'], 'signature': sigs[0] if sigs else None,
                                     'what': e.get('what')})
                    if tmp.failures:
                        f0 = tmp.failures[0]
                        sig = f0.sig if match_known(f0, [e]) else (sigs[0] if sigs else e['id'])
                        ctx.fail(sig, e.get('what', f0.what), e['witness'])
                    else:
                        ctx.notes.setdefault('known_witness_no_longer_fails', []).append(e['id'])
            except Exception:
                ctx.notes.setdefault('check_known_exceptions', []).append(e['id'] + ': ' + traceback.format_exc()[-300:])
        # 6. search ----------------------------------------------------------------------------------------------
        unlisted = [f for f in ctx.failures if not match_known(f, known)]
        if ctx.broken and not unlisted and hasattr(mod, 'search'):
            try:
                mod.search(ctx)
            except Exception:
                ctx.notes['search_exception'] = traceback.format_exc()[-1500:]
    except subprocess.TimeoutExpired as e:
        print(f'TIMEOUT in {pid}: {e}', file=sys.stderr)
        return 2

    # 7. verdict ---------------------------------------------------------------------------------------------------
    seen_known = {}
    unlisted = []
    for f in ctx.failures:
        e = match_known(f, known)
        if e:
            seen_known.setdefault(e['id'], (e, f))
        else:
            unlisted.append(f)
    for kid, (e, f) in sorted(seen_known.items()):
        print(f'KNOWN-FINDING: property={pid} {e["id"]}: {e["what"]}')
    ctx.notes['known_findings_seen'] = sorted(seen_known)

    violations = 0
    rcode = 0
    if unlisted:
        violations = len(unlisted)
        f = unlisted[0]
        path = write_replay(pid, seed, {
            'property': pid, 'kind': 'failing-input', 'signature': f.sig, 'what': f.what, 'witness': f.witness,
            'other_failures': [{'signature': g.sig, 'what': g.what, 'witness': g.witness} for g in unlisted[1:10]],
            'broken': ctx.broken,
        })
        print(f'VIOLATION property={pid} replay={path}')
        rcode = 1
    elif ctx.broken:
        violations = 1
        path = write_replay(pid, seed, {
            'property': pid, 'kind': 'no-failing-input-found',
            'broken': [{'kind': k, 'name': n, 'detail': d} for k, n, d in ctx.broken],
            'disagreements': ctx.corr_disagreements[:10],
            'note': 'a proof obligation, an extraction or a model/implementation correspondence no longer checks; '
                    'the failing-input search on the implementation found no input on which the property itself fails',
        })
        print(f'VIOLATION property={pid} replay={path} no-failing-input-found')
        rcode = 1

    write_evidence(mod, ctx, max(obligations, 1), discharged, violations)
    status = 'HELD' if rcode == 0 else 'VIOLATED'
    print(f'{pid} {tier} seed={seed}: {status}; obligations {discharged}/{obligations}, correspondence cases {ctx.corr_cases}, '
          f'evaluations {ctx.evaluations}, distinct {len(ctx.distinct)}, known findings {len(seen_known)}, {ctx.elapsed():.1f}s')
    for k, n, d in ctx.broken[:8]:
        print(f'  BROKEN {k}: {n}: {d[:300]}')
    return rcode
