#!/usr/bin/env python3
"""Regenerate the generated tables of DESIGN.md (between `<!-- BEGIN GENERATED x -->` / `<!-- END GENERATED x -->` markers)
from known_findings.json, seeded/*/meta.json, seeded/results.json (history notes) and seeded/matrix.json (last full run of
harness/seedmatrix.py)."""
import json, re
from pathlib import Path
ROOT = Path(__file__).resolve().parent.parent
kf = json.loads((ROOT / 'known_findings.json').read_text())['findings']
def cell(s, n=220):
    s = re.sub(r'\s+', ' ', str(s or '')).replace('|', '\\|').strip()
    return s if len(s) <= n else s[:n - 1].rstrip() + '…'
def fixes():
    rows = ['| commit | finding | property | what failed |', '|---|---|---|---|']
    for e in kf:
        if e.get('kind') == 'fixed':
            rows.append(f"| {e.get('commit')} | {e['id']} | {e['property']} | {cell(e.get('what') or e.get('record'), 260)} |")
    return '\n'.join(rows)
def known():
    rows = ['| finding | property | what fails (specific input / call site) |', '|---|---|---|']
    for e in kf:
        if e.get('kind') != 'fixed':
            rows.append(f"| {e['id']} | {e['property']} | {cell(e.get('what'), 420)} |")
    return '\n'.join(rows)
def seeded():
    res = json.loads((ROOT / 'seeded' / 'results.json').read_text())
    mp = ROOT / 'seeded' / 'matrix.json'
    mat = json.loads(mp.read_text()) if mp.exists() else {}
    rows = ['| seed | what it changes | first result | strengthening | last matrix run (own check) |', '|---|---|---|---|---|']
    for d in sorted(p for p in (ROOT / 'seeded').iterdir() if p.is_dir() and (p / 'meta.json').exists()):
        meta = json.loads((d / 'meta.json').read_text())
        r = res.get(d.name, {})
        m = mat.get(d.name, {})
        cur = '; '.join(f"{k}: {v['result']}" + (f" `{cell(v['signature'], 70)}`" if v.get('signature') else '') for k, v in m.get('checks', {}).items()) or m.get('error', '')
        rows.append(f"| {d.name} | {cell(meta.get('summary'), 230)} | {cell(r.get('first'), 160)} | {cell(r.get('after'), 200)} | {cell(cur, 260)} |")
    return '\n'.join(rows)
gen = {'fixes': fixes, 'known': known, 'seeded': seeded}
p = ROOT / 'DESIGN.md'; s = p.read_text()
for name, fn in gen.items():
    pat = re.compile(rf'(<!-- BEGIN GENERATED {name} -->\n).*?(<!-- END GENERATED {name} -->)', re.S)
    if not pat.search(s): print('marker missing:', name); continue
    s = pat.sub(lambda m: m.group(1) + fn() + '\n' + m.group(2), s)
p.write_text(s)
