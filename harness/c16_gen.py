"""Generator of scope-heavy programs for C16 (source text, every program parses; all randomness from the rng passed in)."""

from __future__ import annotations

import ast

NAMES = ['a', 'b', 'c', 'd', 'x', 'y', 'z', 'n', 'k', 'v']
MODS = ['os', 'sys', 'm.sub', 'pkg']

# hand-written programs: every construct the property's quantifier lists, in the combinations that matter
FIXED = [
    'def f(n):\n    xs = [i for i in range(n)]\n    return xs\n',
    'def f(n):\n    xs = [i for i in n]\n',
    'def f(self):\n    return {k: v for k, v in self.items.get(a)[0] if k}\n',
    'try:\n    pass\nexcept E as e:\n    print(e)\n',
    'def f():\n    try:\n        g()\n    except (A, B) as err:\n        raise X from err\n    except* C as grp:\n        pass\n' .replace('    except* C as grp:\n        pass\n', ''),
    'try:\n    pass\nexcept* E as eg:\n    pass\n',
    'match x:\n    case [a, *b]:\n        pass\n    case {1: c, **d}:\n        pass\n    case C(p, q=y) as z if z:\n        pass\n    case str() | None:\n        pass\n    case _:\n        pass\n',
    'def f(x):\n    match x:\n        case (a, b) | [a, b, _]:\n            return a\n        case {"k": v, **rest}:\n            return rest\n',
    'def outer():\n    v = 1\n    def inner():\n        nonlocal v\n        v = 2\n        return v\n    return inner\n',
    'g1 = 0\ndef f():\n    global g1, g2\n    g1 += 1\n    g2 = g1\n    del g2\n',
    'import os, sys as s, a.b.c\nfrom m import p, q as r\nfrom . import rel\nfrom mm import *\n',
    'def f():\n    import os.path\n    from m import (x as y)\n    return os, y\n',
    '@deco(dn)\ndef f(a: A = da, /, b: B = db, *c: C, d: D = dd, **e: E) -> R:\n    return a, b, c, d, e, inner\n',
    '@cd\nclass K(Base, metaclass=Meta, kw=kv):\n    attr = Base\n    def m(self):\n        return attr, K\n',
    'class K:\n    x = 1\n    y = [x for _ in range(3)]\n    z = [i for i in x]\n',
    'f = lambda a, b=dflt, *c, d=kd, **e: a + b + free\n',
    'def f():\n    return [y := g(x) for x in data if (z := x)]\n',
    'def f():\n    return [[(w := j) for j in i] for i in rows]\n',
    'r = [(t := i) for i in s]\n',
    'class K:\n    r = {(t := i) for i in s}\n' .replace('{(t := i) for i in s}', '[i for i in s]'),
    'def f():\n    return [(lambda: (y := 1)) for _ in z]\n',
    'def f():\n    return [(lambda q=(u := 2): q) for _ in z]\n',
    'def f():\n    g = (lambda: [p for p in (lambda: inner_free)()])\n',
    'def f():\n    return [i for i in [j for j in k]]\n',
    'def f():\n    return [i for i in (lambda d=dd: d)(1)]\n',
    'def f():\n    return [i + j for i in a for j in b(i) if i if j]\n',
    'def f():\n    return {i: j for i in a for j in i}\n',
    'def f():\n    return sum(i for i in range(n))\n',
    'async def f():\n    return [await i async for i in aiter(src)]\n',
    'def f[T: int, *Ts, **P](x: T, *a: Ts) -> T:\n    return x\n',
    'class G[T](Base[T], kw=T):\n    def m(self, v: T) -> T:\n        return v\n',
    'type A[T: bound] = list[T]\n',
    'type B = int | other\n',
    'def f():\n    type L[T] = dict[T, loc]\n    loc = 1\n',
    'def f(a):\n    a += 1\n    b.c += a\n    d[a] += 1\n',
    'def f():\n    for i, (j, k) in it:\n        pass\n    with cm() as (w1, w2), cm2 as w3:\n        pass\n',
    'def f():\n    x: int = 1\n    y: ann\n    (z): int = 2\n    o.attr: T = 3\n',
    'x: int\ny: str = v\n',
    'def f():\n    def g():\n        return x\n    x = 1\n    class C:\n        x = x\n        def h(self):\n            return __class__, x\n',
    'class C:\n    def f(self):\n        return super().f()\n',
    'def f():\n    del a, b[0], c.d\n',
    'def f(a, b):\n    def g(c=a, *, d=b):\n        return c, d\n    return g\n',
    'def f():\n    @d1(lambda: q)\n    @d2\n    def g(): pass\n    @cd(x for x in y)\n    class C((lambda: b)()): pass\n',
    'def f(x=[i for i in range(3)], y=(lambda: q)()) -> [r for r in s]: pass\n',
    'lambda: (yield)\n',
    'def f():\n    global x\n    x = 1\n    def g():\n        nonlocal_ = x\n    for x in y: pass\n',
    'def f():\n    return [x for x in a if (lambda: x)()]\n',
    'def f():\n    return [(x, y) for x in a for y in [z for z in x]]\n',
    'def f():\n    return [lambda: [(w := 1) for _ in q] for _ in r]\n',
    'while (n := next(it)):\n    print(n)\n',
    'def f():\n    if (m := g()) and [m for _ in m]:\n        return m\n',
    'def f():\n    return [i for i in a.b]\n',
    'def f():\n    return [i for i in a[0]]\n',
    'def f():\n    return [i for i in (a, b)]\n',
    'def f():\n    return [i for i in a + b]\n',
    'def f():\n    return [i for i in a or b]\n',
    'def f():\n    return [i for i in -a]\n',
    'def f():\n    return [i for i in a if b]\n',
    'def f():\n    return [i for i in [a, b]]\n',
    'def f():\n    return [i for i in {a: b}]\n',
    'def f():\n    return [i for i in {a, b}]\n',
    'def f():\n    return [i for i in f"{a}"]\n',
    'def f():\n    return [i for i in (a if b else c)]\n',
    'def f():\n    return [i for i in a < b]\n',
    'def f():\n    return [i for i in "abc"]\n',
    'def f():\n    return [i for i in (yield)]\n' .replace('(yield)', '(not a)'),
    'async def f():\n    return [i for i in await a]\n',
    'def f():\n    return [i for i in [*a]]\n',
]


class SGen:
    def __init__(self, rng):
        self.r = rng

    def name(self):
        return self.r.choice(NAMES)

    def expr(self, d=0, in_comp=False, in_class=False):
        r = self.r
        if d >= 3:
            return self.name() if r.random() < 0.8 else str(r.randint(0, 9))
        k = r.randrange(22)
        e = lambda: self.expr(d + 1, in_comp, in_class)
        if k < 4:
            return self.name()
        if k == 4:
            return str(r.randint(0, 9))
        if k == 5:
            return f'{e()} + {e()}'
        if k == 6:
            return f'{self.name()}({", ".join(e() for _ in range(r.randint(0, 2)))})'
        if k == 7:
            return f'{self.name()}.{self.name()}'
        if k == 8:
            return f'{self.name()}[{e()}]'
        if k == 9:
            return f'({e()}, {e()})'
        if k == 10 or k == 11:
            return self.comp(d, in_class)
        if k == 12:
            return self.lam(d, in_comp, in_class)
        if k == 13 and not in_class:
            # walrus: not in a comprehension iterable; callers guard that by in_comp == 'iter'
            if in_comp == 'iter':
                return self.name()
            return f'({self.name()} := {e()})'
        if k == 14:
            return f'({e()} if {e()} else {e()})'
        if k == 15:
            return f'[{e()}, *{self.name()}]'
        if k == 16:
            return f'{{{e()}: {e()}}}'
        if k == 17:
            return f'{self.name()}({self.name()}={e()}, **{self.name()})'
        if k == 18:
            return f'not {e()}'
        if k == 19:
            return f'{e()} < {e()}'
        if k == 20:
            return "f'{" + self.name() + "}'"
        return self.name()

    def target(self):
        r = self.r
        c = r.random()
        if c < 0.7:
            return self.name()
        if c < 0.85:
            return f'({self.name()}, {self.name()})'
        return f'{self.name()}, *{self.name()}'

    def comp(self, d, in_class=False):
        r = self.r
        gens = []
        ngen = r.choice([1, 1, 1, 2, 3])
        for i in range(ngen):
            it = self.expr(d + 1, 'iter', in_class)
            g = f'for {self.target()} in {it}'
            for _ in range(r.choice([0, 0, 1, 2])):
                g += f' if {self.expr(d + 1, True, in_class)}'
            gens.append(g)
        elt = self.expr(d + 1, True, in_class)
        gs = ' '.join(gens)
        c = r.randrange(4)
        if c == 0:
            return f'[{elt} {gs}]'
        if c == 1:
            return f'{{{elt} {gs}}}'
        if c == 2:
            return f'{{{elt}: {self.expr(d + 1, True, in_class)} {gs}}}'
        return f'({elt} {gs})'

    def lam(self, d, in_comp=False, in_class=False):
        r = self.r
        ps = []
        if r.random() < 0.6:
            ps.append(self.name())
        if r.random() < 0.4:
            ps.append(f'{self.name()}={self.expr(d + 1, in_comp, in_class)}')
        if r.random() < 0.2:
            ps.append(f'*{self.name()}')
            if r.random() < 0.5:
                ps.append(f'{self.name()}={self.expr(d + 1, in_comp, in_class)}')
        if r.random() < 0.15:
            ps.append(f'**{self.name()}')
        ps = list(dict((p.lstrip('*').split('=')[0], p) for p in ps).values())
        return f'(lambda {", ".join(ps)}: {self.expr(d + 1, False, False)})'

    def params(self, d, in_class, ann=True):
        r = self.r
        seen = set()
        out = []

        def p(star=''):
            n = self.name()
            if n in seen:
                return None
            seen.add(n)
            s = star + n
            if ann and r.random() < 0.4:
                s += f': {self.expr(d + 2, False, in_class)}'
            return s

        def dflt(s):
            if s and r.random() < 0.4:
                return s + f' = {self.expr(d + 2, False, in_class)}'
            return s

        for _ in range(r.randint(0, 2)):
            x = dflt(p())
            if x:
                out.append(x)
        # defaults must be trailing among positional params
        pos = [x for x in out if '=' not in x.split(':')[0] and ' = ' not in x] + [x for x in out if ' = ' in x]
        out = pos
        if r.random() < 0.3:
            x = p('*')
            if x:
                out.append(x)
                for _ in range(r.randint(0, 2)):
                    y = dflt(p())
                    if y:
                        out.append(y)
        if r.random() < 0.2:
            x = p('**')
            if x:
                out.append(x)
        return ', '.join(out)

    def block(self, d, kind, indent):
        """kind: 'module' | 'func' | 'class'"""
        r = self.r
        n = r.randint(1, 4 if d else 6)
        lines = []
        for _ in range(n):
            lines.extend(self.stmt(d, kind, indent))
        return lines

    def stmt(self, d, kind, ind):
        r = self.r
        in_class = kind == 'class'
        e = lambda: self.expr(1, False, in_class)
        k = r.randrange(30)
        if d >= 3:
            k = r.choice([0, 1, 2, 3, 9, 10, 14])
        if k <= 2:
            return [f'{ind}{self.target()} = {e()}']
        if k == 3:
            return [f'{ind}{self.name()} += {e()}']
        if k == 4:
            return [f'{ind}{self.name()}.{self.name()} += {e()}']
        if k == 5 and kind == 'func':
            return [f'{ind}return {e()}']
        if k == 6:
            return [f'{ind}del {self.name()}']
        if k == 7:
            return [f'{ind}import {r.choice(MODS)}' + (f' as {self.name()}' if r.random() < 0.4 else '')]
        if k == 8:
            return [f'{ind}from {r.choice(MODS)} import {self.name()}' + (f' as {self.name()}' if r.random() < 0.4 else '')]
        if k == 9:
            return [f'{ind}{e()}']
        if k == 10:
            return [f'{ind}{self.name()}: {e()} = {e()}'] if r.random() < 0.6 else [f'{ind}{self.name()}: {e()}']
        if k == 11:
            return [f'{ind}for {self.target()} in {e()}:'] + self.block(d + 1, kind, ind + '    ')
        if k == 12:
            return [f'{ind}with {e()} as {self.target().split(",")[0].strip("(")}:'] + self.block(d + 1, kind, ind + '    ')
        if k == 13:
            out = [f'{ind}try:'] + self.block(d + 1, kind, ind + '    ')
            for _ in range(r.randint(1, 2)):
                c = r.random()
                h = f'{ind}except {self.name()} as {self.name()}:' if c < 0.6 else f'{ind}except {self.name()}:' if c < 0.9 else f'{ind}except:'
                out += [h] + self.block(d + 1, kind, ind + '    ')
                if c >= 0.9:
                    break
            return out
        if k == 14:
            return [f'{ind}if {e()}:'] + self.block(d + 1, kind, ind + '    ')
        if k == 15:
            pats = ['[{a}, *{b}]', '{{1: {a}, **{b}}}', '{c}({a}, k={b}) as {d}', '{a}', '({a}, {b}) | [{a}, {b}, _]', '{c}.{d}', '_',
                    '{{"k": {a}}}', '*{a},', 'str() as {a}', '[{a}, [{b}, *_]]']
            out = [f'{ind}match {e()}:']
            for _ in range(r.randint(1, 3)):
                nm = r.sample(NAMES, 4)
                p = r.choice(pats).format(a=nm[0], b=nm[1], c=nm[2], d=nm[3])
                guard = f' if {e()}' if r.random() < 0.3 else ''
                out += [f'{ind}    case {p}{guard}:'] + self.block(d + 2, kind, ind + '        ')
                if p in ('_',) or (p == nm[0] and not guard):
                    break
            return out
        if k == 16 and kind == 'func':
            # global / nonlocal must precede uses: emitted by funcdef() at the top of the body instead
            return [f'{ind}pass']
        if k in (17, 18, 19, 20):
            return self.funcdef(d, kind, ind)
        if k in (21, 22):
            return self.classdef(d, kind, ind)
        if k == 23:
            return [f'{ind}while {e()}:'] + self.block(d + 1, kind, ind + '    ')
        if k == 24:
            tps = ''
            if r.random() < 0.6:
                ps = []
                for t in r.sample(['T', 'U', 'V'], r.randint(1, 2)):
                    c = r.random()
                    ps.append(t if c < 0.3 else f'{t}: {e()}' if c < 0.7 else f'{t}: ({e()}, {e()})')
                if r.random() < 0.2:
                    ps.append('*Ts')
                if r.random() < 0.2:
                    ps.append('**P')
                tps = '[' + ', '.join(ps) + ']'
            return [f'{ind}type {self.name().upper()}{tps} = {e()}']
        if k == 25:
            return [f'{ind}{self.name()} = {self.comp(1, in_class)}']
        if k == 26:
            return [f'{ind}{self.name()} = {self.lam(1, False, in_class)}']
        if k == 27 and kind != 'class':
            return [f'{ind}if ({self.name()} := {e()}):'] + self.block(d + 1, kind, ind + '    ')
        if k == 28:
            return [f'{ind}assert {e()}, {e()}']
        return [f'{ind}{self.name()} = {e()}']

    def funcdef(self, d, kind, ind):
        r = self.r
        in_class = kind == 'class'
        out = []
        for _ in range(r.choice([0, 0, 1, 2])):
            out.append(f'{ind}@{self.expr(2, False, in_class)}')
        tps = ''
        if r.random() < 0.15:
            tps = '[' + ', '.join(r.sample(['T', 'U: int', '*Ts', '**P'], r.randint(1, 2))) + ']'
        ret = f' -> {self.expr(2, False, in_class)}' if r.random() < 0.3 else ''
        a = 'async ' if r.random() < 0.1 else ''
        params = self.params(d, in_class)
        out.append(f'{ind}{a}def {r.choice(["f", "g", "h"]) if r.random() < 0.6 else self.name()}{tps}({params}){ret}:')
        body = []
        used = set(x.strip('*').split(':')[0].split('=')[0].strip() for x in params.split(',')) if params else set()
        if r.random() < 0.25:
            gl = [n for n in r.sample(NAMES, r.randint(1, 2)) if n not in used]
            if gl:
                body.append(f'{ind}    global {", ".join(gl)}')
                used.update(gl)
        if kind == 'func' and r.random() < 0.3:
            # nonlocal needs a binding in an enclosing function: the caller made sure 'v' and 'k' style names get bound;
            # validity is checked by compile() in programs()
            nl = [n for n in r.sample(NAMES, r.randint(1, 2)) if n not in used]
            if nl:
                body.append(f'{ind}    nonlocal {", ".join(nl)}')
        body += self.block(d + 1, 'func', ind + '    ')
        return out + body

    def classdef(self, d, kind, ind):
        r = self.r
        in_class = kind == 'class'
        out = []
        for _ in range(r.choice([0, 0, 1])):
            out.append(f'{ind}@{self.expr(2, False, in_class)}')
        tps = '[T]' if r.random() < 0.1 else ''
        bases = [self.expr(2, False, in_class) for _ in range(r.choice([0, 1, 1, 2]))]
        if r.random() < 0.3:
            bases.append(f'{r.choice(["metaclass", "kw"])}={self.expr(2, False, in_class)}')
        bs = f'({", ".join(bases)})' if bases else ''
        out.append(f'{ind}class {r.choice(["C", "D", "K"])}{tps}{bs}:')
        return out + self.block(d + 1, 'class', ind + '    ')

    def program(self):
        return '\n'.join(self.block(0, 'module', '')) + '\n'


def valid(src):
    try:
        compile(src, '<c16>', 'exec', dont_inherit=True)
        return True
    except (SyntaxError, ValueError, RecursionError):
        return False


def programs(rng, n):
    """n valid generated programs (invalid ones - nonlocal without binding, walrus on an iteration variable, name used
    before global ... - are discarded by CPython's compile)"""
    g = SGen(rng)
    out = []
    tries = 0
    while len(out) < n and tries < n * 30:
        tries += 1
        try:
            s = g.program()
        except RecursionError:
            continue
        if valid(s):
            out.append(s)
    return out


# ----------------------------------------------------------------------------------------------------------------------
# deterministic product: every construct whose parts belong to the enclosing scope x generic x decorated x kind x nesting

def product_programs():
    """def / async def / class / lambda, nested 1-2 levels inside def / class / module, with every header part that
    belongs to the enclosing scope present or absent (decorators, bases, keywords, defaults, kw_defaults, annotations,
    returns, type-parameter bounds), plus comprehension first iterables, walrus targets and lambda defaults in them."""
    out = []
    n = [0]

    def nm(p):
        n[0] += 1
        return f'{p}{n[0]}'

    def inner(kind, deco, generic, rich):
        """lines of one nested scope-defining statement"""
        lines = []
        if deco:
            lines += [f'@{nm("dec")}({nm("darg")}, key=lambda k=({nm("ddf")}): k)', f'@{nm("dec")}']
        tp = f'[T: {nm("bnd")}, *Ts, **P]' if generic else ''
        if kind == 'class':
            bases = f'({nm("base")}, {nm("base")}[{nm("bidx")}], metaclass={nm("meta")}, **{nm("kws")})' if rich else f'({nm("base")})'
            lines += [f'class {nm("K")}{tp}{bases}:', f'    attr = {nm("cbody")}',
                      f'    def meth(self, q={nm("mdf")}): return {nm("mbody")}']
        elif kind in ('def', 'async def'):
            if rich:
                ps = (f'p1: {nm("ann")} = {nm("df")}, /, p2: {nm("ann")} = [c for c in {nm("dfit")}({nm("dfarg")})], '
                      f'*va: {nm("ann")}, k1: {nm("ann")} = {nm("kdf")}, k2=({nm("w")} := {nm("kdf")}), **kw: {nm("ann")}')
                ret = f' -> {nm("ret")}[{nm("retidx")}]'
            else:
                ps, ret = f'p1={nm("df")}', ''
            lines += [f'{kind} {nm("fn")}{tp}({ps}){ret}:', f'    loc = {nm("fbody")}', '    return loc, p1']
        else:   # lambda
            ps = f'l1, l2={nm("ldf")}, *lv, l3=[e for e in {nm("ldfit")}.{nm("attr")}], **lk' if rich else f'l1={nm("ldf")}'
            lines += [f'{nm("var")} = lambda {ps}: ({nm("lbody")}, l1)']
        return lines

    kinds = ['def', 'async def', 'class', 'lambda']
    for outer in ('module', 'def', 'class', 'def>def', 'def>class', 'class>def'):
        for kind in kinds:
            for deco in (False, True):
                for generic in (False, True):
                    if kind == 'lambda' and (deco or generic):
                        continue
                    for rich in (False, True):
                        body = inner(kind, deco, generic, rich)
                        body.append(f'{nm("after")} = [{nm("elt")} for v in {nm("it")}({nm("itarg")}) if ({nm("wal")} := v)]'
                                    if 'class' not in outer.split('>')[-1] or outer == 'module' else f'{nm("after")} = {nm("plain")}')
                        lines = body
                        for lvl in reversed(outer.split('>')):
                            if lvl == 'module':
                                continue
                            hdr = f'def {nm("outer")}(oa, ob={nm("odf")}):' if lvl == 'def' else f'class {nm("Outer")}({nm("obase")}):'
                            lines = [hdr] + ['    ' + l for l in lines]
                        src = '\n'.join(lines) + '\n'
                        if valid(src):
                            out.append(src)
    return out


# replacement sources for the walk-with-mutation sweep: one per scope kind
REPLACEMENTS = {
    'Name': 'rp_name',
    'Call': 'rp_fn(rp_arg, key=rp_kw)',
    'Lambda': 'lambda rp_p, rp_q=rp_dflt: rp_p.attr * rp_q * rp_free',
    'ListComp': '[rp_e + rp_out for rp_e in rp_iter(rp_iarg) if rp_cond]',
    'GeneratorExp': '(rp_g for rp_g in rp_git if rp_g)',
    'DictComp': '{rp_k: rp_v for rp_k, rp_v in rp_items}',
    'FunctionDef': 'def rp_def(rp_a=rp_ddf, *rp_va, rp_kw=rp_kdf) -> rp_ret:\n    return rp_a, rp_inner',
    'ClassDef': '@rp_deco\nclass rp_cls(rp_base, metaclass=rp_meta):\n    rp_attr = rp_cbody',
}

# deterministic: a target of every kind in a function, replaced by every other kind
MUT_TEMPLATES = {
    'Name': 'def f(items, factor):\n    key = HELPER\n    return sorted(items, key=key)\n',
    'Call': 'def f(items, factor):\n    key = make(items, factor)\n    return sorted(items, key=key)\n',
    'Lambda': 'def f(items, factor):\n    key = lambda it, sc=factor: it.w * sc * bias\n    return sorted(items, key=key)\n',
    'ListComp': 'def f(items, factor):\n    key = [i * factor for i in items if i]\n    return sorted(items, key=key)\n',
    'GeneratorExp': 'def f(items, factor):\n    key = list(i * factor for i in items)\n    return sorted(items, key=key)\n',
    'FunctionDef': 'def f(items, factor):\n    @wrap(factor)\n    def key(it, sc=factor) -> res:\n        return it * sc * bias\n    return sorted(items, key=key)\n',
    'ClassDef': 'def f(items, factor):\n    @wrap(factor)\n    class key(base, kw=factor):\n        w = bias\n    return sorted(items, key=key)\n',
}


def typealias_programs():
    """`type` statements (PEP 695) whose type parameters are NOT the walk root's own: every form of type parameter
    (plain / bound / constraints / *Ts / **P, bounds holding a call, a lambda with a default, a comprehension) x the value x
    the place of the statement (module, def, async def, class, inside a block, inside a generic def / class that has type
    parameters of its own, two levels down, in a lambda-free nested def whose enclosing def binds the names)."""
    out = []
    n = [0]

    def nm(p):
        n[0] += 1
        return f'{p}{n[0]}'

    def tparams(form):
        if form == 'none':
            return ''
        if form == 'plain':
            return '[T]'
        if form == 'bound':
            return f'[T: {nm("Bound")}]'
        if form == 'constraints':
            return f'[K: ({nm("ConsA")}, {nm("ConsB")}.{nm("attr")})]'
        if form == 'mixed':
            return f'[U: ({nm("ConsC")}, {nm("ConsD")}), V: {nm("BoundV")}[{nm("idx")}], *Ts, **P]'
        if form == 'callbound':
            return f'[T: {nm("mk")}({nm("arg")}, key=lambda q={nm("ldf")}: q)]'
        if form == 'compbound':
            return f'[T: ({nm("cb")}[0], [c for c in {nm("cit")}({nm("ciarg")})])]'
        raise ValueError(form)

    forms = ['none', 'plain', 'bound', 'constraints', 'mixed', 'callbound', 'compbound']
    places = ['module', 'def', 'async def', 'class', 'def>if', 'class>for', 'generic def', 'generic class', 'def>def', 'def>class',
              'class>def']
    for place in places:
        for form in forms:
            stmt = f'type {nm("Alias")}{tparams(form)} = dict[{"T" if form in ("plain", "bound", "callbound", "compbound") else nm("KeyT")}, {nm("Value")}] | {nm("Other")}'
            lines = [f'{nm("pre")} = {nm("prev")}', stmt, f'{nm("post")} = {nm("postv")}']
            for lvl in reversed(place.split('>')):
                if lvl == 'module':
                    continue
                if lvl == 'def':
                    hdr = f'def {nm("fn")}(pa, pb={nm("df")}):'
                elif lvl == 'async def':
                    hdr = f'async def {nm("afn")}(pa):'
                elif lvl == 'class':
                    hdr = f'class {nm("Cls")}({nm("Base")}):'
                elif lvl == 'if':
                    hdr = f'if {nm("cond")}:'
                elif lvl == 'for':
                    hdr = f'for {nm("it")} in {nm("seq")}:'
                elif lvl == 'generic def':
                    hdr = f'def {nm("gfn")}[G: {nm("GBound")}](pa: G) -> G:'
                else:
                    hdr = f'class {nm("GCls")}[G: {nm("GBound")}]({nm("Base")}[G]):'
                lines = [hdr] + ['    ' + l for l in lines]
            src = '\n'.join(lines) + '\n'
            if valid(src):
                out.append(src)
    return out


# ----------------------------------------------------------------------------------------------------------------------
# deterministic product: every binding / declaring / reading form x identifiers with a special look x place

SPECIAL_NAMES = ['_', '__', '_x', '__priv', '__dunder__', 'match', 'case', 'type', 'é', 'print', 'self', 'cls', 'NAME', 'x1']

NAME_FORMS = {
    'assign': '{n} = v0',
    'augassign': '{n} = 0\n{n} += v1',
    'annassign': '{n}: ann0 = v2',
    'ann-only': '{n}: ann1',
    'for': 'for {n} in seq0:\n    pass',
    'for-tuple': 'for ({n}, other0) in seq3:\n    pass',
    'with': 'with cm0 as {n}:\n    pass',
    'except': 'try:\n    pass\nexcept Exc0 as {n}:\n    pass',
    'except-tuple': 'try:\n    pass\nexcept (ExcA, ExcB) as {n}:\n    use0({n})',
    'except-star': 'try:\n    pass\nexcept* Exc1 as {n}:\n    pass',
    'import': 'import {n}',
    'import-dotted': 'import {n}.sub0',
    'import-as': 'import mod0 as {n}',
    'from': 'from mod2 import {n}',
    'from-as': 'from mod1 import thing as {n}',
    'def': 'def {n}(): pass',
    'class': 'class {n}: pass',
    'param': 'def fn0({n}, *, kw0=None): return {n}',
    'vararg': 'def fn4(*{n}, **kw1): return {n}',
    'lambda': 'lam0 = lambda {n}: {n}',
    'comp': 'lst0 = [{n} for {n} in seq1]',
    'walrus': 'if ({n} := v3): pass',
    'comp-walrus': 'lst1 = [({n} := e0) for e0 in seq2]',
    'match-capture': 'match subj0:\n    case {n}:\n        pass',
    'match-as': 'match subj1:\n    case Cls0() as {n}:\n        pass',
    'match-star': 'match subj2:\n    case [first0, *{n}]:\n        pass',
    'match-rest': 'match subj3:\n    case {{"k": v4, **{n}}}:\n        pass',
    'match-kw': 'match subj4:\n    case Cls1(attr0={n}):\n        pass',
    'match-or': 'match subj5:\n    case ({n}, 1) | (1, {n}):\n        pass',
    'global': 'def fn1():\n    global {n}\n    {n} = 1',
    'nonlocal': 'def fn2():\n    {n} = 0\n    def inner0():\n        nonlocal {n}\n        {n} = 1',
    'del': '{n} = 0\ndel {n}',
    'tparam': 'def fn3[{n}](p: {n}): pass',
    'typealias': 'type {n} = int0',
    'load': 'use1({n})',
    'load-attr': 'use2({n}.attr1, key={n})',
}


def name_programs():
    out = []
    for place in ('module', 'def', 'class', 'def>def'):
        for form, tpl in NAME_FORMS.items():
            for nme in SPECIAL_NAMES:
                lines = tpl.format(n=nme).split('\n')
                for lvl in reversed(place.split('>')):
                    if lvl == 'def':
                        lines = ['def outer0(oa0):'] + ['    ' + l for l in lines] + ['    return oa0']
                    elif lvl == 'class':
                        lines = ['class Outer0:'] + ['    ' + l for l in lines]
                src = '\n'.join(lines) + '\n'
                if valid(src):
                    out.append(src)
    return out
