"""Regenerate /verif/MANIFEST.json from the per-property harness modules (harness/props/Cxx.py)."""
import importlib
import json
import sys
from pathlib import Path

sys.path.insert(0, str(Path(__file__).resolve().parent))
ROOT = Path(__file__).resolve().parent.parent
import framework  # noqa

framework.setup_repo_path()
ALL = [f'C{i:02d}' for i in range(1, 21)]
checks = []
na = []
for pid in ALL:
    f = ROOT / 'harness' / 'props' / f'{pid}.py'
    if not f.exists():
        na.append({'property_id': pid, 'reason': 'check not built yet in this round (planned: DESIGN.md section 4); the technique applies'})
        continue
    mod = importlib.import_module(f'props.{pid}')
    checks.append({
        'property_id': pid,
        'quick_cmd': f'./check {pid} --tier quick',
        'thorough_cmd': f'./check {pid} --tier thorough',
        'evidence_file': f'evidence/{pid}.json',
        'replay_cmd_template': f'./check {pid} --replay {{path}}',
        'engine': 'lean4-proof+correspondence',
        'level_claimed': {'category': 'proof', 'text': mod.LEVEL_TEXT, 'design_ref': f'DESIGN.md section 4 {pid}'},
        'level_note': mod.LEVEL_NOTE,
        'technique': mod.TECHNIQUE,
    })
man = {
    'version': 1,
    'setup_cmd': './setup.sh',
    'hooks': {
        'guard': 'PFST_VERIF',
        'enable': 'no source hooks are installed in /repo; the harness wraps methods at run time (PFST_VERIF reserved)',
        'baseline_off_cmd': 'cd /repo && /venv/bin/python -m pytest -ra -q -p no:cacheprovider --timeout=900 --continue-on-collection-errors',
        'source_commits': [],
        'add_only': True,
    },
    'engines': [{
        'name': 'lean4-proof+correspondence', 'path': 'lean/',
        'serves_properties': [c['property_id'] for c in checks],
        'kind_free_text': 'Lean 4 theorems about hand-written executable models + tables re-extracted from /repo on every run '
                          '+ model/implementation correspondence through a native line-protocol driver',
    }],
    'checks': checks,
    'not_applicable': na,
    'notes': 'See DESIGN.md. A broken proof/extraction/correspondence triggers a failing-input search on the implementation; '
             'known genuine defects are listed in known_findings.json.',
}
(ROOT / 'MANIFEST.json').write_text(json.dumps(man, indent=1) + '\n')
print('checks:', [c['property_id'] for c in checks], 'not_applicable:', [n['property_id'] for n in na])
