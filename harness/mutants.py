#!/usr/bin/env python3
"""mutants.py <operator> [file-glob]   machine-made single-site mutants of /repo/src/fst (self-test of the checks, not a check):
operators: bytechar (drop a char->byte / byte->char conversion), for each site: copy /repo/src, mutate, run the pinned suite;
if the suite still passes run the checks named in MUT_CHECKS (default C01) against the copy (PFST_REPO) and record which one
reports a violation.  Results: /verif/seeded/mutants_<operator>.json (site, suite result, per-check verdict)."""
import json, os, re, shutil, subprocess, sys, tempfile
from pathlib import Path
ROOT = Path(__file__).resolve().parent.parent
op = sys.argv[1]
glob = sys.argv[2] if len(sys.argv) > 2 else '*.py'
checks_env = os.environ.get('MUT_CHECKS')
FILE_CHECKS = {'code.py': ['C19'], 'fst_get_slice.py': ['C07', 'C01'], 'fst_put_slice.py': ['C01', 'C03'], 'slice_exprlike.py': ['C01', 'C04'],
               'slice_stmtlike.py': ['C01', 'C04'], 'fst_misc.py': ['C01', 'C06'], 'fst_core.py': ['C01', 'C11'], 'fst_raw.py': ['C10'],
               'fst.py': ['C01', 'C06'], 'fst_put_one.py': ['C01', 'C08'], 'astutil.py': ['C06', 'C14'], 'parsex.py': ['C05'],
               'fst_traverse.py': ['C14', 'C15', 'C16'], 'match.py': ['C17', 'C18'], 'reconcile.py': ['C13'], 'fst_options.py': ['C20', 'C12'],
               'view.py': ['C03'], 'fst_locs.py': ['C06'], 'fst_trivia.py': ['C04', 'C06']}
SRC = Path('/repo/src/fst')
out_path = Path(os.environ['MUT_OUT']) if os.environ.get('MUT_OUT') else (Path('/verif/seeded') / f'mutants_{op}.json' if not os.environ.get('MUT_CHECKS') else ROOT / 'seeded' / 'mutants' / f"{os.environ['MUT_CHECKS'].replace(',', '+')}_{op}.json")
out_path.parent.mkdir(parents=True, exist_ok=True)
results = json.loads(out_path.read_text()) if out_path.exists() else {}

def sites(text):
    out = []
    if op == 'bytechar':
        for m in re.finditer(r'(\w[\w\.\[\]]*)\.c2b\(', text):           # X.c2b(Y) -> Y
            i = m.end(); depth = 1; j = i
            while depth and j < len(text):
                depth += text[j] == '('; depth -= text[j] == ')'; j += 1
            out.append((m.start(), j, '(' + text[i:j - 1] + ')'))
        for m in re.finditer(r'(\w[\w\.\[\]]*)\.b2c\(', text):
            i = m.end(); depth = 1; j = i
            while depth and j < len(text):
                depth += text[j] == '('; depth -= text[j] == ')'; j += 1
            out.append((m.start(), j, '(' + text[i:j - 1] + ')'))
        for m in re.finditer(r'\.encode\(\)\)', text):                      # len(Z.encode()) -> len(Z)
            out.append((m.start(), m.end() - 1, ''))
    elif op == 'dropcall':
        # drop a whole statement that only calls a cache-flush / offset / fix-up helper
        for m in re.finditer(r'^([ \t]+)((?:self|parent|root|fst_|self\.root|parenta\.f|ast\.f|[a-z_]+)\.(?:_touch|_touchall|_offset|_set_end_pos|_set_start_pos|_fix_\w+|_maybe_\w+|_unmake_fst_tree|_make_fst_tree|_reparse_docstr_Constants)\([^\n]*\))[ \t]*(#[^\n]*)?$', text, re.M):
            if m.group(2).count('(') == m.group(2).count(')'):
                out.append((m.start(2), m.end(2), 'pass'))
    elif op == 'swapidx':
        for m in re.finditer(r'\[(-1|0)\](?!\s*=[^=])', text):
            out.append((m.start(), m.end(), '[0]' if m.group(1) == '-1' else '[-1]'))
    elif op == 'notnone':
        for m in re.finditer(r'\bif ([\w\.]+) is not None:', text):
            out.append((m.start(), m.end(), f'if {m.group(1)}:'))
        for m in re.finditer(r'\bif ([\w\.]+) is None:', text):
            out.append((m.start(), m.end(), f'if not {m.group(1)}:'))
    elif op == 'boolflip':
        for m in re.finditer(r'(?<=[(, ])(True|False)(?=[,)])', text):
            out.append((m.start(), m.end(), 'False' if m.group(1) == 'True' else 'True'))
    elif op == 'plusone':
        for m in re.finditer(r'(?<=[\w\)\]]) ([+-]) 1\b(?!\d)', text):
            out.append((m.start(), m.end(), ''))
    elif op == 'offby':
        for m in re.finditer(r'(?<![\w\.])(end_col|col|end_ln|ln|idx|start|stop) ([<>])=? ', text):   # < <-> <=
            s = m.group(0)
            new = s.replace(m.group(2) + '= ', m.group(2) + ' ') if '= ' in s[len(m.group(1)) + 1:] else s.replace(m.group(2) + ' ', m.group(2) + '= ')
            out.append((m.start(), m.end(), new))
    return out

import random
rnd = random.Random(int(os.environ.get('MUT_SEED', '1')))
per_file = int(os.environ.get('MUT_PER_FILE', '0'))
for f in sorted(SRC.glob(glob)):
    text = f.read_text()
    ss = sites(text)
    if per_file and len(ss) > per_file:
        ss = sorted(rnd.sample(ss, per_file))
    for (a, b, new) in ss:
        line = text.count('\n', 0, a) + 1
        key = f'{f.name}:{line}:{a}'
        if os.environ.get('MUT_ONLY_MISSED'):
            old = results.get(key)
            if not old or old.get('suite') != 'passes' or any(x in ('caught', 'no-input') for x in old.get('checks', {}).values()):
                continue
        elif key in results:
            continue
        S = Path(tempfile.mkdtemp(prefix='mut-' + (os.environ.get('MUT_CHECKS') or 'all').replace(',', '+') + '-', dir='/var/tmp'))
        try:
            shutil.copytree('/repo/src', S / 'src')
            shutil.copytree('/repo/tests', S / 'tests')
            for extra in ('pyproject.toml', 'setup.cfg', 'pytest.ini', 'conftest.py', 'tox.ini'):
                if Path('/repo', extra).exists():
                    shutil.copy(Path('/repo', extra), S / extra)
            mt = text[:a] + new + text[b:]
            (S / 'src' / 'fst' / f.name).write_text(mt)
            rec = {'file': f.name, 'line': line, 'old': text[a:b][:120], 'new': new[:120]}
            c = subprocess.run(['/venv/bin/python', '-m', 'py_compile', str(S / 'src' / 'fst' / f.name)], capture_output=True)
            if c.returncode:
                rec['suite'] = 'does-not-compile'
            else:
                t = subprocess.run(['/venv/bin/python', '-m', 'pytest', '-q', '-x', '-p', 'no:cacheprovider', '--timeout=900',
                                    '--deselect', 'tests/test_one.py::TestFSTPut::test_get_format_spec', '--deselect', 'tests/test_one.py::TestFSTPut::test_get_one_special',
                                    '--deselect', 'tests/doctests/test_misc_non_expr_compatible_coerce.txt'],
                                   cwd=S, env=dict(os.environ, PYTHONPATH=str(S / 'src')), capture_output=True, text=True)
                tail = (t.stdout.strip().splitlines() or ['?'])[-1]
                rec['suite'] = 'passes' if t.returncode == 0 else 'killed: ' + tail[:100]
            if rec['suite'] == 'passes':
                rec['checks'] = {}
                for ck in (checks_env.split(',') if checks_env else FILE_CHECKS.get(f.name, ['C01'])):
                    env = dict(os.environ, PFST_REPO=str(S), VERIF_EVIDENCE_DIR=str(S / 'evidence'))
                    (S / 'evidence').mkdir(exist_ok=True)
                    p = subprocess.run([str(ROOT / 'check'), ck], capture_output=True, text=True, env=env, cwd=ROOT)
                    lines = [l for l in p.stdout.splitlines() if l.startswith('VIOLATION')]
                    rec['checks'][ck] = 'HELD' if p.returncode == 0 else ('no-input' if lines and lines[-1].endswith('no-failing-input-found') else 'caught' if lines else f'exit{p.returncode}')
            if os.environ.get('MUT_ONLY_MISSED') and out_path.exists():
                results = json.loads(out_path.read_text())
            results[key] = rec
            print(key, rec.get('suite'), rec.get('checks'), rec['old'][:60], flush=True)
        finally:
            shutil.rmtree(S, ignore_errors=True)
            out_path.write_text(json.dumps(results, indent=1, sort_keys=True))
