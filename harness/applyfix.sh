#!/bin/bash
# applyfix.sh <fixes dir> <name>...   : apply each <dir>/<name>.diff to /repo, run the pinned suite, commit with <name>.msg
D=$1; shift
cd /repo || exit 2
for f in "$@"; do
  git apply --check $D/$f.diff 2>/dev/null || { echo "$f: DOES NOT APPLY"; continue; }
  git apply $D/$f.diff
  r=$(/venv/bin/python -m pytest -q -p no:cacheprovider --timeout=900 2>&1 | grep -E "passed|failed" | tail -1)
  case "$r" in
    *"3 failed, 304 passed"*) git add -A && git commit -qF $D/$f.msg && echo "$f=$(git log --format=%h -1)";;
    *) echo "$f: TESTS CHANGED ($r) - reverted"; git checkout -- .; git clean -fdq src tests 2>/dev/null;;
  esac
done
