"""C12 correspondence: well-nested histories of registry events, run against the REAL `_Modifying` class / `_MODIFYING`
registry and the REAL control skeletons of `_put_one`, `_put_slice` and `FST.unpar` (their handler / raw / helper
callees replaced by stubs that run the nested part of the history), with the registry recorded after every
`enter` / `success` / `fail`.  The same history is run through the Lean model (`C12.run`) by the caller.

History (JSON, shared with lean/Pfst/Drv/C12.lean):
  ["raise", catchable] | ["with", root, node, raw, force, [body]] | ["unpar", root, node, do1, [b1], do2, [b2]]
  | ["try", catchAll, [body]] | ["put", root, node, raw(false|"auto"|true), force, guardFails, [handler], [rawBody]]
  | ["rootrep", root, 0, guardFails, [body]]     (the root branch of FST.replace; body always ends in a raise, see below)
Python-only details (which field, which guard, slice or one, which exception class) travel in a parallel dict keyed by
the id of the list object.
"""

from __future__ import annotations

import random
import types


class PlainExc(Exception):
    """not caught by the raw fallback"""


def _mods():
    import fst
    from fst import fst_core, fst_put_one, fst_put_slice
    return fst, fst_core, fst_put_one, fst_put_slice


# ---------------------------------------------------------------------------------------------------------------------
# real trees

SUFFIX = '\n(c12p, c12q)\n'


def build_trees(srcs):
    """[(root, nodes, put_one_cands, put_slice_cands, tuple_idxs)]"""
    fst, fst_core, fst_put_one, fst_put_slice = _mods()
    import ast
    out = []
    for src in srcs:
        try:
            root = fst.FST(src.rstrip('\n') + SUFFIX, 'exec')
        except Exception:
            root = fst.FST(src, 'exec')
        nodes = list(root.walk(True))
        one, slc, tup, psrc = [], [], [], []
        ix = {id(f): i for i, f in enumerate(nodes)}
        for i, f in enumerate(nodes):
            cls = f.a.__class__
            for fld in cls._fields:
                h = fst_put_one._PUT_ONE_HANDLERS.get((cls, fld))
                if h and h[1] is not None:
                    one.append((i, fld))
                if (cls, fld) in fst_put_slice._PUT_SLICE_HANDLERS:
                    slc.append((i, fld))
            if cls is ast.Tuple:
                tup.append(i)
            if isinstance(f.a, ast.stmt) and f.loc is not None:
                # FST.put_src(action='reparse') registers the node found by find_contains_loc (or the root)
                try:
                    par = root.find_contains_loc(*f.loc, True) or root
                except Exception:
                    par = None
                if par is not None and id(par) in ix:
                    psrc.append((i, ix[id(par)]))
        out.append((root, nodes, one, slc, tup, psrc))
    return out


# ---------------------------------------------------------------------------------------------------------------------
# generator

class HistGen:
    def __init__(self, rng: random.Random, trees):
        self.r = rng
        self.trees = trees
        self.info = {}      # id(list) -> python-only details
        self.keep = []      # keep the lists alive (ids stay unique)

    def node(self, cur):
        """cur = enclosing (root, node) or None: bias towards nesting on the same node / same tree"""
        r = self.r
        c = r.random()
        if cur is not None and c < 0.45:
            return cur
        if cur is not None and c < 0.7:
            ri = cur[0]
        else:
            ri = r.randrange(len(self.trees))
        return (ri, r.randrange(len(self.trees[ri][1])))

    def body(self, d, cur, maxlen=3):
        r = self.r
        n = r.choice([0, 1, 1, 1, 2, 2, maxlen])
        return [self.prog(d + 1, cur) for _ in range(n)]

    def mk(self, lst, **info):
        self.info[id(lst)] = info
        self.keep.append(lst)
        return lst

    def prog(self, d, cur):
        r = self.r
        if d >= 5:
            k = r.choice(['raise', 'with0'])
        else:
            k = r.choice(['raise', 'with', 'with', 'with', 'with', 'try', 'put', 'put', 'putslice', 'unpar', 'rootrep'])
        if k == 'raise':
            c = r.random() < 0.5
            return self.mk(['raise', c], cls=r.choice(['node', 'syntax', 'notimpl']) if c else r.choice(['plain', 'value', 'key']))
        if k == 'with' and r.random() < 0.18:
            # the same `with parent._modifying(False, True)` reached through the real FST.put_src(action='reparse')
            cands = [(ri, si, pi) for ri, t in enumerate(self.trees) for si, pi in t[5]]
            if cur is not None and r.random() < 0.5:
                cands = [c for c in cands if c[0] == cur[0]] or cands
            if cands:
                ri, si, pi = r.choice(cands)
                return self.mk(['with', ri, pi, True, False, self.body(d, (ri, pi))], via='put_src', self_idx=si)
        if k in ('with', 'with0'):
            ri, ni = self.node(cur)
            raw = r.choice([False, False, True, None])
            force = r.random() < 0.25
            fields = [f for f in self.trees[ri][1][ni].a._fields]
            field = r.choice(fields) if fields and r.random() < 0.6 else False
            return self.mk(['with', ri, ni, bool(raw), force, [] if k == 'with0' else self.body(d, (ri, ni))], field=field, raw=raw)
        if k == 'try':
            return self.mk(['try', r.random() < 0.6, self.body(d, cur)])
        if k == 'rootrep':
            # FST.replace on the root of a tree: guards first, then `with self._modifying():` around code_as_all (stubbed
            # to run the body and then raise, so that the real tree is never actually replaced)
            ri = cur[0] if cur is not None and r.random() < 0.6 else r.randrange(len(self.trees))
            guard = r.choice(['none', 'to', 'circular', 'consumed']) if r.random() < 0.3 else None
            c = r.random() < 0.5
            body = self.body(d, (ri, 0), 2) + [self.mk(['raise', c], cls='node' if c else 'plain')]
            return self.mk(['rootrep', ri, 0, guard is not None, body], guard=guard)
        if k == 'unpar':
            cands = [(ri, ni) for ri, t in enumerate(self.trees) for ni in t[4]]
            if cur is not None and cur[1] in self.trees[cur[0]][4] and r.random() < 0.5:
                ri, ni = cur
            elif cands:
                ri, ni = r.choice(cands)
            else:
                return self.mk(['raise', False], cls='plain')
            do1, do2 = r.choice([(True, False), (False, True), (True, True), (True, True), (False, False)])
            return self.mk(['unpar', ri, ni, do1, self.body(d, (ri, ni), 2), do2, self.body(d, (ri, ni), 2)])
        # put / putslice
        slc = k == 'putslice'
        ci = 3 if slc else 2
        cands = []
        if cur is not None and r.random() < 0.5:
            cands = [(cur[0], ni, f) for ni, f in self.trees[cur[0]][ci] if ni == cur[1]]
        if not cands:
            ri = cur[0] if cur is not None and r.random() < 0.4 else r.randrange(len(self.trees))
            cands = [(ri, ni, f) for ni, f in self.trees[ri][ci]]
        if not cands:
            return self.mk(['raise', True], cls='node')
        ri, ni, field = r.choice(cands)
        raw = r.choice([False, False, 'auto', 'auto', True])
        force = (not slc) and r.random() < 0.25
        guard = r.choice(['circular', 'consumed'] + (['to'] if slc else [])) if r.random() < 0.12 else None
        return self.mk(['put', ri, ni, raw, force, guard is not None, self.body(d, (ri, ni), 2), self.body(d, (ri, ni), 2)],
                       field=field, slice=slc, guard=guard)


def systematic(tree_i, node_i):
    """exceptions at every depth and position of a chain of nested `with` blocks on one node"""
    out = []
    for depth in range(1, 5):
        for pos in range(depth + 1):          # the raise sits in the body of level `pos` (0 = outermost), pos == depth: innermost
            for after in (False, True):       # before / after the nested block at that level
                for c in (False, True):
                    def build(level):
                        inner = [] if level == depth else [['with', tree_i, node_i, False, False, build(level + 1)]]
                        if level == pos:
                            return ([['raise', c]] + inner) if not after else (inner + [['raise', c]])
                        return inner
                    out.append(['with', tree_i, node_i, False, False, build(1)] if depth >= 1 else ['raise', c])
    return out


# ---------------------------------------------------------------------------------------------------------------------
# interpreter against the real code

class Runner:
    def __init__(self, trees, info):
        self.fst, self.core, self.p1, self.ps = _mods()
        import fst.fst as fstmod
        self.fstmod = fstmod
        self.trees = trees
        self.info = info
        self.trace = []
        self.stack = []       # active put / unpar frames
        self.root_idx = {id(t[0]): i for i, t in enumerate(trees)}
        self.node_idx = [{id(f): i for i, f in enumerate(t[1])} for t in trees]
        # an already-consumed FST (made with the real, unpatched put): the guard refuses it before anything else happens
        self.consumed = self.fst.FST('c12consumed')
        self.fst.FST('[1]').a.elts[0].f.replace(self.consumed)
        assert self.consumed.a is None

    # -- registry snapshot, canonical
    def snap(self):
        out = []
        for root, (node, depth) in self.core._MODIFYING.items():
            ri = self.root_idx.get(id(root), -1)
            ni = self.node_idx[ri].get(id(node), -1) if ri >= 0 else -1
            out.append([ri, ni, depth])
        return out

    # -- patches
    def install(self):
        M = self.core._Modifying
        runner = self
        self._saved = (M.enter, M.success, M.fail, dict(self.p1._PUT_ONE_HANDLERS), self.p1._put_one_raw,
                       dict(self.ps._PUT_SLICE_HANDLERS), self.ps._put_slice_raw, self.fst.FST.pars,
                       self.fst.FST._unparenthesize_grouping, self.fst.FST._undelimit_node, self.fst.FST._reparse_raw,
                       self.fstmod.code_as_all)
        o_enter, o_success, o_fail = M.enter, M.success, M.fail

        def enter(self):
            try:
                return o_enter(self)
            finally:
                runner.trace.append(runner.snap())

        def success(self, *a, **k):
            try:
                return o_success(self, *a, **k)
            finally:
                runner.trace.append(runner.snap())

        def fail(self, *a, **k):
            try:
                return o_fail(self, *a, **k)
            finally:
                runner.trace.append(runner.snap())

        M.enter, M.success, M.fail = enter, success, fail

        def h_one(self, code, idx, field, child, static, options):
            runner.run_items(runner.stack[-1]['handler'])
            return self

        def h_one_raw(self, code, idx, field, child, static, options):
            runner.run_items(runner.stack[-1]['raw'])
            return self

        def h_slice(self, code, start, stop, field, one, options):
            runner.run_items(runner.stack[-1]['handler'])

        def h_slice_raw(self, code, start, stop, field, one, options):
            runner.run_items(runner.stack[-1]['raw'])
            return self

        for k, (sliceable, handler, static) in list(self.p1._PUT_ONE_HANDLERS.items()):
            if handler is not None and not k[1].startswith('_'):
                self.p1._PUT_ONE_HANDLERS[k] = (False, h_one, static)
        self.p1._put_one_raw = h_one_raw
        for k in list(self.ps._PUT_SLICE_HANDLERS):
            if not k[1].startswith('_'):
                self.ps._PUT_SLICE_HANDLERS[k] = h_slice
        self.ps._put_slice_raw = h_slice_raw

        o_pars = self.fst.FST.pars

        def pars(self, *a, **k):
            st = runner.stack
            if st and st[-1].get('unpar') is self and not st[-1]['pars_done']:
                st[-1]['pars_done'] = True
                return types.SimpleNamespace(n=1 if st[-1]['do1'] else 0)
            return o_pars(self, *a, **k)

        def unpar_grouping(self, *a, **k):
            runner.run_items(runner.stack[-1]['b1'])

        def undelimit(self, *a, **k):
            runner.run_items(runner.stack[-1]['b2'])

        def reparse_raw(self, code, ln, col, end_ln, end_col):
            runner.run_items(runner.stack[-1]['reparse'])
            return end_ln, end_col

        self.fst.FST.pars = pars
        self.fst.FST._unparenthesize_grouping = unpar_grouping
        self.fst.FST._undelimit_node = undelimit
        self.fst.FST._reparse_raw = reparse_raw

        def code_as_all(code, *a, **k):
            runner.run_items(runner.stack[-1]['rootrep'])
            raise AssertionError('a rootrep body must end in a raise')

        self.fstmod.code_as_all = code_as_all

    def uninstall(self):
        M = self.core._Modifying
        (M.enter, M.success, M.fail, one, one_raw, slc, slc_raw, pars, ug, ud, rr, caa) = self._saved
        self.fst.FST._reparse_raw = rr
        self.fstmod.code_as_all = caa
        self.p1._PUT_ONE_HANDLERS.clear()
        self.p1._PUT_ONE_HANDLERS.update(one)
        self.p1._put_one_raw = one_raw
        self.ps._PUT_SLICE_HANDLERS.clear()
        self.ps._PUT_SLICE_HANDLERS.update(slc)
        self.ps._put_slice_raw = slc_raw
        self.fst.FST.pars = pars
        self.fst.FST._unparenthesize_grouping = ug
        self.fst.FST._undelimit_node = ud

    # -- interpreter
    def run_items(self, items):
        for it in items:
            self.run(it)

    def run(self, it):
        k = it[0]
        info = self.info.get(id(it), {})
        if k == 'raise':
            cls = info.get('cls') or ('node' if it[1] else 'plain')
            raise {'node': self.fst.NodeError, 'syntax': SyntaxError, 'notimpl': NotImplementedError, 'plain': PlainExc,
                   'value': ValueError, 'key': KeyError}[cls]('c12 user exception')
        if k == 'with':
            if info.get('via') == 'put_src':
                stmt = self.trees[it[1]][1][info['self_idx']]
                self.stack.append({'reparse': it[5]})
                try:
                    stmt.put_src('c12src', *stmt.loc)       # action='reparse' is the default
                finally:
                    self.stack.pop()
                return
            node = self.trees[it[1]][1][it[2]]
            raw = info.get('raw', it[3])
            with node._modifying(info.get('field', False), raw, force=it[4]):
                self.run_items(it[5])
            return
        if k == 'try':
            try:
                self.run_items(it[2])
            except (self.fst.NodeError, SyntaxError, NotImplementedError):
                pass
            except Exception:
                if not it[1]:
                    raise
            return
        if k == 'rootrep':
            root = self.trees[it[1]][0]
            guard = info.get('guard')
            code, opts = 'c12code', {}
            if guard == 'none':
                code = None
            elif guard == 'to':
                opts['to'] = self.trees[it[1]][1][-1]
            elif guard == 'circular':
                code = root
            elif guard == 'consumed':
                code = self.consumed
            self.stack.append({'rootrep': it[4]})
            try:
                root.replace(code, **opts)
            finally:
                self.stack.pop()
            return
        if k == 'unpar':
            node = self.trees[it[1]][1][it[2]]
            self.stack.append({'unpar': node, 'pars_done': False, 'do1': it[3], 'b1': it[4], 'b2': it[6]})
            try:
                node.unpar(node=bool(it[5]))
            finally:
                self.stack.pop()
            return
        if k == 'put':
            node = self.trees[it[1]][1][it[2]]
            field = info['field']
            guard = info.get('guard')
            code = 'c12code'
            options = {'raw': it[3]}
            if guard == 'circular':
                code = node.root
            elif guard == 'consumed':
                code = self.consumed
            elif guard == 'to':
                options['to'] = node
            self.stack.append({'handler': it[6], 'raw': it[7]})
            try:
                if info.get('slice'):
                    node._put_slice(code, 0, 0, field, False, options)
                else:
                    node._put_one(code, None, field, options, True, it[4])
            finally:
                self.stack.pop()
            return
        raise AssertionError(k)

    def classify(self, e):
        if e is None:
            return None
        if isinstance(e, (self.fst.NodeError, SyntaxError, NotImplementedError)):
            return 'user-catchable'
        if isinstance(e, RuntimeError) and 'nested modification' in str(e):
            return 'nested'
        if isinstance(e, TypeError):
            return 'internal'
        if isinstance(e, ValueError) and 'c12 user exception' not in str(e):
            return 'guard'
        if isinstance(e, (PlainExc, ValueError, KeyError)):
            return 'user'
        return 'other:' + type(e).__name__ + ':' + str(e)[:80]

    def run_case(self, prog):
        self.core._MODIFYING.clear()
        self.trace = []
        self.stack = []
        exc = None
        try:
            self.run_items(prog)
        except Exception as e:     # noqa: BLE001
            exc = e
        out = {'trace': self.trace, 'exc': self.classify(exc), 'reg': self.snap()}
        self.core._MODIFYING.clear()
        return out


def strip(prog):
    """the history as plain JSON (python-only details live in the side table, not in the lists)"""
    import json
    return json.loads(json.dumps(prog))


def stats(prog):
    """(max with-depth at which a raise sits, number of events, kinds)"""
    kinds = set()
    best = [0, 0]

    def go(items, d):
        for it in items:
            kinds.add(it[0])
            best[1] += 1
            if it[0] == 'raise':
                best[0] = max(best[0], d)
            for x in it[1:]:
                if isinstance(x, list):
                    go(x, d + (1 if it[0] in ('with', 'put', 'unpar', 'rootrep') else 0))

    go(prog, 0)
    return best[0], best[1], sorted(kinds)


def worker(arg):
    """(srcs, seed, n_progs, with_systematic) -> [(lean prog, impl out, stats)]"""
    srcs, seed, n, syst = arg
    rng = random.Random(seed)
    try:
        trees = build_trees(srcs)
    except Exception as e:     # noqa: BLE001
        return [('harness', f'build_trees failed: {e!r}', None)]
    gen = HistGen(rng, trees)
    progs = []
    for _ in range(n):
        progs.append([gen.prog(0, None) for _ in range(rng.choice([1, 1, 2, 3]))])
    if syst:
        ni = rng.randrange(len(trees[0][1]))
        progs.extend([p] for p in systematic(0, ni))
    runner = Runner(trees, gen.info)
    out = []
    runner.install()
    try:
        for p in progs:
            impl = runner.run_case(p)
            out.append((strip(p), impl, stats(p)))
    finally:
        runner.uninstall()
    return out
