"""Extensional extraction of pfst's parenthesisation decision (`precedence_require_parens_by_type`) into Lean.

For every slot (parent kind, field) known to pfst and every expression / pattern / operator child kind, the function is
EVALUATED for all 16 combinations of its four flags; the 16 answers are packed into a bit mask (bit i = answer for flag
set i; flag bits: 1 dict_key_None, 2 matchas_pat_None, 4 attr_val_int, 8 arglike).  65536 = the call refuses (assert /
ValueError: BoolOp/BinOp/UnaryOp passed instead of their `op`).  No decision logic lives here.
"""
import ast

from framework import LEAN, write_if_changed

FLAGS = ['dict_key_None', 'matchas_pat_None', 'attr_val_int', 'arglike']


def domain():
    from fst.astutil import AST_FIELDS, _PRECEDENCE_NODE_FIELDS
    slots = []
    seen = set()
    for cls, fields in AST_FIELDS.items():
        for f in fields:
            slots.append((cls, f))
            seen.add((cls, f))
    for k in _PRECEDENCE_NODE_FIELDS:
        if k not in seen:
            slots.append(k)
            seen.add(k)
    children = [c for c in AST_FIELDS
                if isinstance(c, type) and issubclass(c, (ast.expr, ast.pattern, ast.boolop, ast.operator, ast.unaryop))]
    slots.sort(key=lambda k: (k[0].__name__, k[1]))
    children.sort(key=lambda c: c.__name__)
    return slots, children


def table():
    from fst.astutil import precedence_require_parens_by_type as req
    slots, children = domain()
    rows = []
    for (p, f) in slots:
        row = []
        for c in children:
            mask = 0
            refused = False
            for fl in range(16):
                kw = {name: True for i, name in enumerate(FLAGS) if fl >> i & 1}
                try:
                    r = req(c, p, f, **kw)
                except (AssertionError, ValueError):
                    refused = True
                    break
                if r is not True and r is not False:
                    r = bool(r)
                if r:
                    mask |= 1 << fl
            row.append(65536 if refused else mask)
        rows.append((p.__name__, f, row))
    return [c.__name__ for c in children], rows


def emit():
    from fst.astutil import AST_FIELDS
    children, rows = table()
    kinds = sorted({c.__name__ for c in AST_FIELDS} | {p for p, _, _ in rows} | set(children))
    fields = sorted({f for fs in AST_FIELDS.values() for f in fs} | {f for _, f, _ in rows})
    q = lambda n: f'«{n}»'
    out = ['-- GENERATED on every run by harness/extract_prec.py from /repo (precedence_require_parens_by_type, evaluated',
           '-- on its whole domain).  The committed copy corresponds to the pinned tree.',
           'namespace Pfst.Gen.Precedence', '',
           '/-- node kinds known to pfst (AST_FIELDS) -/',
           'inductive K where', '  | ' + ' | '.join(q(k) for k in kinds), 'deriving DecidableEq, Repr', '',
           '/-- field names -/',
           'inductive F where', '  | ' + ' | '.join(q(f) for f in fields), 'deriving DecidableEq, Repr', '',
           '/-- child kinds, in column order -/',
           'def children : List K := [' + ', '.join('.' + q(c) for c in children) + ']', '',
           '/-- (parent kind, field, per-child 16-bit flag masks; 65536 = refused).  Flag bits: 1 dict_key_None,',
           '2 matchas_pat_None, 4 attr_val_int, 8 arglike. -/',
           'def rows : List (K × F × List Nat) := [']
    for i, (p, f, row) in enumerate(rows):
        out.append(f'  (.{q(p)}, .{q(f)}, [{", ".join(map(str, row))}])' + (',' if i + 1 < len(rows) else ''))
    out += [']', '', 'end Pfst.Gen.Precedence', '']
    write_if_changed(LEAN / 'Pfst' / 'Gen' / 'Precedence.lean', '\n'.join(out))
    return children, rows
