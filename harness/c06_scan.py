"""C06 helper: generated line blocks and the real common.py scanners run on them (correspondence side).

One *block* is a list of lines (str, no newline inside).  For every block every scanner is asked at every pair of
start/end positions (columns 0..len+1 so that Python's clipping of pos/endpos is exercised) with every flag combination;
the answers are canonicalised to plain JSON (`[ln, col, [code points]]`, `[ln, col]`, `[[ln, col], ...]`, `None`).
"""

from __future__ import annotations

import itertools
import random

ALPHA_SMALL = [' ', '#', '\\', '(', ')', 'a']
ALPHA = [' ', '\t', '#', '\\', '(', ')', ',', 'a', 'b', 'é', '\x0c', '\xa0', '日', '\U0001f600']
WEIGHTS = [10, 2, 3, 3, 6, 6, 3, 5, 3, 2, 1, 1, 1, 1]
SRCS = [',', 'a', ')', '#', 'ab', '(', '\\', '# ', 'é']
LCONTS = [False, True, None]
LC_CODE = {False: 0, True: 1, None: 2}


def enc(s):
    return [ord(c) for c in s]


def enc_lines(lines):
    return [enc(l) for l in lines]


def single_lines(alpha, maxlen):
    for n in range(maxlen + 1):
        for t in itertools.product(alpha, repeat=n):
            yield [''.join(t)]


def two_line_blocks(alpha, maxlen):
    ls = [''.join(t) for n in range(maxlen + 1) for t in itertools.product(alpha, repeat=n)]
    for a in ls:
        for b in ls:
            yield [a, b]


def random_block(rng: random.Random):
    nl = rng.choice([1, 2, 2, 3, 3, 4])
    out = []
    for _ in range(nl):
        n = rng.choice([0, 1, 2, 3, 4, 5, 6, 6, 8])
        c = rng.random()
        if c < 0.15:
            l = ' ' * rng.randint(0, 3) + rng.choice(['\\', '# c', '#', ''])
        elif c < 0.3:
            l = ' ' * rng.randint(0, 2) + rng.choice(['(', '((', '( (', ')', '))', ') )', 'a', 'a,', ',)']) + rng.choice(['', ' ', ' \\', ' # x', '\\'])
        else:
            l = ''.join(rng.choices(ALPHA, WEIGHTS, k=n))
        out.append(l)
    return out


def positions(lines, full=True, reversed_too=False):
    """[(ln, col, end_ln, end_col)] all start <= end (line-wise) position pairs, columns 0..len+1"""
    out = []
    n = len(lines)
    for ln in range(n):
        cols = range(len(lines[ln]) + 2)
        for end_ln in range(n):
            if end_ln < ln and not reversed_too:
                continue
            ecols = range(len(lines[end_ln]) + 2)
            for col in cols:
                for ec in ecols:
                    out.append((ln, col, end_ln, ec))
    return out


def _frag(r):
    return None if r is None else [r[0], r[1], enc(r[2])]


def _pos(r):
    return None if r is None else [r[0], r[1]]


def run_block(arg):
    """(lines, seed, cap) -> [(lean case, impl outs)] for the six scanners."""
    from fst import common
    lines, seed, cap = arg
    rng = random.Random(seed)
    el = enc_lines(lines)
    out = []
    pos_fwd = positions(lines)
    pos_all = positions(lines, reversed_too=True)
    if cap and len(pos_fwd) > cap:
        pos_fwd = rng.sample(pos_fwd, cap)
    if cap and len(pos_all) > cap:
        pos_all = rng.sample(pos_all, cap)
    # next_frag / prev_frag: all flags; reversed bounds too
    for name, fn in (('next_frag', common.next_frag), ('prev_frag', common.prev_frag)):
        qs, impl = [], []
        for (a, b, c, d) in pos_all:
            for comment in (False, True):
                for lcont in LCONTS:
                    qs.append([a, b, c, d, int(comment), LC_CODE[lcont]])
                    try:
                        impl.append(_frag(fn(lines, a, b, c, d, comment, lcont)))
                    except Exception as e:
                        impl.append({'exc': type(e).__name__})
        out.append(({'f': 'C06.' + name, 'lines': el, 'qs': qs}, impl))
    # next_find / prev_find
    srcs = rng.sample(SRCS, 3)
    for name, fn in (('next_find', common.next_find), ('prev_find', common.prev_find)):
        qs, impl = [], []
        for (a, b, c, d) in pos_fwd:
            for si, src in enumerate(srcs):
                comment = rng.random() < 0.5
                lcont = rng.choice(LCONTS)
                first = rng.random() < 0.5
                qs.append([a, b, c, d, int(comment), LC_CODE[lcont], int(first), si])
                try:
                    impl.append(_pos(fn(lines, a, b, c, d, src, first, comment=comment, lcont=lcont)))
                except Exception as e:
                    impl.append({'exc': type(e).__name__})
        out.append(({'f': 'C06.' + name, 'lines': el, 'srcs': enc_lines(srcs), 'qs': qs}, impl))
    # next_delims / prev_delims
    for name, fn, delim in (('next_delims', common.next_delims, ')'), ('prev_delims', common.prev_delims, '('),
                            ('next_delims', common.next_delims, ','), ('prev_delims', common.prev_delims, ')')):
        qs, impl = [], []
        for (a, b, c, d) in pos_fwd:
            qs.append([a, b, c, d])
            try:
                impl.append([list(p) for p in fn(lines, a, b, c, d, delim)])
            except Exception as e:
                impl.append({'exc': type(e).__name__})
        out.append(({'f': 'C06.' + name, 'lines': el, 'delim': ord(delim), 'qs': qs}, impl))
    return out
