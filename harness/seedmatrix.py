#!/usr/bin/env python3
"""seedmatrix.py [seed-id-glob…]  run, for every stored seeded change, the check of its own property (plus extra checks given
as SEED_EXTRA="C01,C12") on a scratch copy of /repo/src with the change applied; quick first, thorough only when quick is
HELD.  Evidence of these mutated runs goes to a scratch directory, never to /verif/evidence.  Result: seeded/matrix.json."""
import fnmatch, json, os, re, shutil, subprocess, sys, tempfile, time
from pathlib import Path
ROOT = Path(__file__).resolve().parent.parent
pats = sys.argv[1:] or ['*']
SEEDED = Path('/verif/seeded')   # seeds and the result always live in the main checkout, the checks run from this checkout (may be a worktree)
seeds = sorted(p.name for p in SEEDED.iterdir() if p.is_dir() and (p / 'meta.json').exists() and any(fnmatch.fnmatch(p.name, g) for g in pats))
out_path = Path(os.environ['SEED_MATRIX_OUT']) if os.environ.get('SEED_MATRIX_OUT') else SEEDED / 'matrix.json'   # partitions run in parallel write their own file
matrix = json.loads(out_path.read_text()) if out_path.exists() else {}
extra = [c for c in os.environ.get('SEED_EXTRA', '').split(',') if c]
for sid in seeds:
    prop = sid.split('-')[0]
    S = Path(tempfile.mkdtemp(prefix='seedrun-', dir='/var/tmp'))
    try:
        shutil.copytree('/repo/src', S / 'src')
        r = subprocess.run(['patch', '-s', '-p1', '-d', str(S)], stdin=open(SEEDED / sid / 'patch.diff'), capture_output=True, text=True)
        if r.returncode:
            matrix[sid] = {'error': 'patch does not apply to current /repo: ' + (r.stdout + r.stderr)[:200]}
            print(sid, 'PATCH FAILS'); continue
        d = subprocess.run(['/venv/bin/python', str(SEEDED / sid / 'demo.py'), str(S)], capture_output=True, text=True, timeout=600)
        res = {'demo_exit_with_change': d.returncode, 'checks': {}}
        for c in [prop] + extra:
            for tier in (('quick',) if os.environ.get('SEED_QUICK_ONLY') else ('quick', 'thorough')):
                t0 = time.time()
                env = dict(os.environ, PFST_REPO=str(S), VERIF_EVIDENCE_DIR=str(S / 'evidence'))
                (S / 'evidence').mkdir(exist_ok=True)
                p = subprocess.run([str(ROOT / 'check'), c, '--tier', tier], capture_output=True, text=True, env=env, cwd=ROOT)
                lines = [l for l in p.stdout.splitlines() if l.startswith('VIOLATION')]
                kind = 'HELD' if p.returncode == 0 else ('violation-no-input' if lines and lines[-1].endswith('no-failing-input-found') else 'violation-with-input' if lines else f'exit{p.returncode}')
                sig = None
                if lines:
                    m = re.search(r'replay=(\S+)', lines[-1])
                    try:
                        rp = json.loads(Path(m.group(1)).read_text()); sig = rp.get('signature') or rp.get('broken') or rp.get('what')
                    except Exception: pass
                res['checks'][f'{c}/{tier}'] = {'result': kind, 'seconds': round(time.time() - t0), 'signature': (str(sig)[:160] if sig else None)}
                print(sid, c, tier, kind, sig if sig is None else str(sig)[:100], flush=True)
                if kind != 'HELD': break
        matrix[sid] = res
    finally:
        shutil.rmtree(S, ignore_errors=True)
        out_path.write_text(json.dumps(matrix, indent=1, sort_keys=True))
