"""C01 targeted sweep: every slice container shape x every position x an element alphabet, and statement blocks with
trailing decorations (semicolons, comments, multi-byte text) x every statement-list operation.  Deterministic (no seed): the
case list is a product, so the unchanged tree is triaged once.  CPython is the judge after every successful operation
(`util.tree_equals_parse`).  Operations pfst refuses are tallied, not judged (C12's subject)."""

import ast
import itertools

import util

# ---- element alphabets -----------------------------------------------------------------------------------------------
EXPR = ['_x', 'é', '(p)', '-q', '"sé"', 'u if v else w', 'lambda: 0', '_']
TARGET = ['_x', 'é', '_', 'o.at', 's[0]']
ELEMS = {
    'expr': EXPR,
    'target': TARGET,
    'starexpr': EXPR[:4] + ['*st'],
    'arg': ['_x', '_', 'é', '_d=1', '*_a', '**_k', 'è=2'],
    'keyword': ['_k=1', 'é=2', '**_d'],
    'arglike': ['_x', 'é', '*st', '_k=1', '**_d'],
    'alias': ['_m', 'é', 'm as _n', 'pk.md'],
    'alias_from': ['_m', 'é', 'm as _n'],
    'withitem': ['_w', '_w as _v', 'é as è', '(p)', '(p) as q'],
    'pattern': ['_', '_x', 'é', '1', 'C()', 'x as y', '"sé"'],
    'seqpattern': ['_', '_x', 'é', '1', '*_r'],
    'orpattern': ['_x.y', '1', 'C()', '"sé"', 'None'],
    'kvpattern': ['1: _x', '"é": é', '**_r'],
    'attrpattern': ['_x', '1', '_k=_v', 'é=1'],
    'kv': ['_k: _v', 'é: "é"', '**_d'],
    'type_param': ['_T', '*_Ts', '**_P', 'É: int'],
    'name': ['_g', 'é'],
    'comprehension': ['for _i in _j', 'for é in è if é', 'async for _i in _j'],
    'if': ['_c', 'é', 'not q', '(p)'],
    'deco': ['_d', 'é', 'd.e(1)'],
    'stmt': ['_ = 1', 'é = "é"', 'pass'],
    'handler': ['except _E: pass', 'except É as é: pass', 'except* _G: pass'],
    'case': ['case _x: pass', 'case "é": pass'],
    'cmp': ['_x', 'é', '-q', '(p)', '< _x', '_x <', 'is not é', 'é not in', '== (p)', 'in\n é'],
}

# (source, node class name, field, element kind)   the first node of that class in the source is the container
CONTAINERS = [
    ('x = []', 'List', 'elts', 'starexpr'), ('x = [a]', 'List', 'elts', 'starexpr'), ('x = [a, b]', 'List', 'elts', 'starexpr'),
    ('x = [a,]', 'List', 'elts', 'starexpr'), ('x = [é, "é",  b]', 'List', 'elts', 'starexpr'), ('x = [\n    a,  # c\n    b,\n]', 'List', 'elts', 'starexpr'),
    ('x = ()', 'Tuple', 'elts', 'starexpr'), ('x = (a,)', 'Tuple', 'elts', 'starexpr'), ('x = (a, b)', 'Tuple', 'elts', 'starexpr'),
    ('x = a,', 'Tuple', 'elts', 'starexpr'), ('x = a, b', 'Tuple', 'elts', 'starexpr'), ('x = "é", é, b', 'Tuple', 'elts', 'starexpr'),
    ('a, b', 'Tuple', 'elts', 'starexpr'), ('for a, b in c: pass', 'Tuple', 'elts', 'target'), ('a, b = c', 'Tuple', 'elts', 'target'),
    ('[a, b] = c', 'List', 'elts', 'target'), ('s[a, b]', 'Tuple', 'elts', 'starexpr'), ('s[a:b, c]', 'Tuple', 'elts', 'expr'),
    ('x = {a}', 'Set', 'elts', 'starexpr'), ('x = {a, b}', 'Set', 'elts', 'starexpr'), ('x = {"é", é}', 'Set', 'elts', 'starexpr'),
    ('x = {}', 'Dict', '_all', 'kv'), ('x = {a: b}', 'Dict', '_all', 'kv'), ('x = {a: b, **c}', 'Dict', '_all', 'kv'),
    ('x = {"é": é, b: c}', 'Dict', '_all', 'kv'), ('x = {\n    a: b,  # c\n    c: d,\n}', 'Dict', '_all', 'kv'),
    ('f()', 'Call', 'args', 'starexpr'), ('f(a)', 'Call', 'args', 'starexpr'), ('f(a, b)', 'Call', 'args', 'starexpr'),
    ('f(a,)', 'Call', 'args', 'starexpr'), ('f("é", é, b)', 'Call', 'args', 'starexpr'), ('f(a, k=1)', 'Call', 'args', 'starexpr'),
    ('f(i for i in j)', 'Call', 'args', 'starexpr'),
    ('f()', 'Call', 'keywords', 'keyword'), ('f(k=1)', 'Call', 'keywords', 'keyword'), ('f(a, k=1, **d)', 'Call', 'keywords', 'keyword'),
    ('f(é="é", k=1)', 'Call', 'keywords', 'keyword'),
    ('f()', 'Call', '_args', 'arglike'), ('f(a, k=1)', 'Call', '_args', 'arglike'), ('f(a, *b, k=1, **d)', 'Call', '_args', 'arglike'),
    ('f("é", é=1)', 'Call', '_args', 'arglike'),
    ('class C: pass', 'ClassDef', 'bases', 'starexpr'), ('class C(): pass', 'ClassDef', 'bases', 'starexpr'),
    ('class C(a): pass', 'ClassDef', 'bases', 'starexpr'), ('class C(a, b, k=1): pass', 'ClassDef', 'bases', 'starexpr'),
    ('class C(é, b): pass', 'ClassDef', 'bases', 'starexpr'),
    ('class C: pass', 'ClassDef', 'keywords', 'keyword'), ('class C(a, k=1): pass', 'ClassDef', 'keywords', 'keyword'),
    ('class C: pass', 'ClassDef', '_bases', 'arglike'), ('class C(a, k=1): pass', 'ClassDef', '_bases', 'arglike'),
    ('class C(é, k="é"): pass', 'ClassDef', '_bases', 'arglike'),
    ('def f(): pass', 'FunctionDef', 'decorator_list', 'deco'), ('@d\ndef f(): pass', 'FunctionDef', 'decorator_list', 'deco'),
    ('@d\n@é\nclass C: pass', 'ClassDef', 'decorator_list', 'deco'),
    ('del a', 'Delete', 'targets', 'target'), ('del a, b', 'Delete', 'targets', 'target'), ('del (a), b', 'Delete', 'targets', 'target'),
    ('del é, b', 'Delete', 'targets', 'target'),
    ('a = z', 'Assign', 'targets', 'target'), ('a = b = z', 'Assign', 'targets', 'target'), ('é = b = "é"', 'Assign', 'targets', 'target'),
    ('x = a and b', 'BoolOp', 'values', 'cmp'), ('x = a or b or c', 'BoolOp', 'values', 'cmp'), ('x = "é" and é and b', 'BoolOp', 'values', 'cmp'),
    ('x = a < b', 'Compare', '_all', 'cmp'), ('x = a < b <= c', 'Compare', '_all', 'cmp'), ('x = "é" < é < b', 'Compare', '_all', 'cmp'),
    ('x = [i for i in j]', 'comprehension', 'ifs', 'if'), ('x = [i for i in j if a]', 'comprehension', 'ifs', 'if'),
    ('x = [i for i in j if a if b]', 'comprehension', 'ifs', 'if'), ('x = [é for é in "é" if é if b]', 'comprehension', 'ifs', 'if'),
    ('x = [i for i in j]', 'ListComp', 'generators', 'comprehension'), ('x = {i for i in j for k in l}', 'SetComp', 'generators', 'comprehension'),
    ('x = (é for é in "é" for k in l)', 'GeneratorExp', 'generators', 'comprehension'), ('x = {i: k for i in j for k in l}', 'DictComp', 'generators', 'comprehension'),
    ('x = lambda: 0', 'arguments', '_all', 'arg'), ('x = lambda a: 0', 'arguments', '_all', 'arg'), ('x = lambda*a: 0', 'arguments', '_all', 'arg'),
    ('x = lambda**k: 0', 'arguments', '_all', 'arg'), ('x = lambda a, /, b=1, *c, d, **e: 0', 'arguments', '_all', 'arg'),
    ('x = lambda é, b="é": 0', 'arguments', '_all', 'arg'), ('x = lambda *, d: 0', 'arguments', '_all', 'arg'),
    ('def f(): pass', 'arguments', '_all', 'arg'), ('def f(a): pass', 'arguments', '_all', 'arg'), ('def f(a, /, b=1, *c, d=2, **e): pass', 'arguments', '_all', 'arg'),
    ('def f(é: "é", b=1): pass', 'arguments', '_all', 'arg'), ('def f(*, d): pass', 'arguments', '_all', 'arg'), ('def f(a,): pass', 'arguments', '_all', 'arg'),
    ('import a', 'Import', 'names', 'alias'), ('import a, b as c', 'Import', 'names', 'alias'), ('import é, b', 'Import', 'names', 'alias'),
    ('from m import a', 'ImportFrom', 'names', 'alias_from'), ('from m import (a)', 'ImportFrom', 'names', 'alias_from'),
    ('from m import (a, b as c,)', 'ImportFrom', 'names', 'alias_from'), ('from m import é, b', 'ImportFrom', 'names', 'alias_from'),
    ('from m import (\n    a,  # c\n    b,\n)', 'ImportFrom', 'names', 'alias_from'),
    ('with a: pass', 'With', 'items', 'withitem'), ('with a as b, c: pass', 'With', 'items', 'withitem'), ('with (a): pass', 'With', 'items', 'withitem'),
    ('with (a, b): pass', 'With', 'items', 'withitem'), ('with (a as b, c as d,): pass', 'With', 'items', 'withitem'),
    ('with é as è, b: pass', 'With', 'items', 'withitem'), ('async def f():\n    async with a, b: pass', 'AsyncWith', 'items', 'withitem'),
    ('match s:\n    case [a]: pass', 'MatchSequence', 'patterns', 'seqpattern'), ('match s:\n    case a, b: pass', 'MatchSequence', 'patterns', 'seqpattern'),
    ('match s:\n    case (a, b): pass', 'MatchSequence', 'patterns', 'seqpattern'), ('match s:\n    case []: pass', 'MatchSequence', 'patterns', 'seqpattern'),
    ('match s:\n    case ["é", é, b]: pass', 'MatchSequence', 'patterns', 'seqpattern'), ('match s:\n    case a,: pass', 'MatchSequence', 'patterns', 'seqpattern'),
    ('match s:\n    case {}: pass', 'MatchMapping', '_all', 'kvpattern'), ('match s:\n    case {1: a}: pass', 'MatchMapping', '_all', 'kvpattern'),
    ('match s:\n    case {1: a, "é": é}: pass', 'MatchMapping', '_all', 'kvpattern'), ('match s:\n    case {1: a, **r}: pass', 'MatchMapping', '_all', 'kvpattern'),
    ('match s:\n    case C(): pass', 'MatchClass', 'patterns', 'pattern'), ('match s:\n    case C(a): pass', 'MatchClass', 'patterns', 'pattern'),
    ('match s:\n    case C(a, k=b): pass', 'MatchClass', 'patterns', 'pattern'),
    ('match s:\n    case C(): pass', 'MatchClass', '_attrs', 'attrpattern'), ('match s:\n    case C(a, k=b): pass', 'MatchClass', '_attrs', 'attrpattern'),
    ('match s:\n    case C("é", é=b): pass', 'MatchClass', '_attrs', 'attrpattern'),
    ('match s:\n    case 1 | 2: pass', 'MatchOr', 'patterns', 'orpattern'), ('match s:\n    case 1 | "é" | a.b: pass', 'MatchOr', 'patterns', 'orpattern'),
    ('def f[T](): pass', 'FunctionDef', 'type_params', 'type_param'), ('def f(): pass', 'FunctionDef', 'type_params', 'type_param'),
    ('class C[T, *U]: pass', 'ClassDef', 'type_params', 'type_param'), ('class C: pass', 'ClassDef', 'type_params', 'type_param'),
    ('type A = x', 'TypeAlias', 'type_params', 'type_param'), ('type A[T, **P] = x', 'TypeAlias', 'type_params', 'type_param'),
    ('type É[É: "é", T] = x', 'TypeAlias', 'type_params', 'type_param'),
    ('global a', 'Global', 'names', 'name'), ('global a, b', 'Global', 'names', 'name'), ('def f():\n    nonlocal é, b', 'Nonlocal', 'names', 'name'),
    ('try: pass\nexcept A: pass', 'Try', 'handlers', 'handler'), ('try: pass\nexcept A: pass\nexcept É as é: pass\nelse: pass', 'Try', 'handlers', 'handler'),
    ('try: pass\nexcept A: pass\nelse: pass\nfinally: pass', 'Try', 'handlers', 'handler'), ('try: pass\nexcept A: pass\nfinally: pass', 'Try', 'handlers', 'handler'),
    ('try: pass\nexcept* A: pass\nfinally: pass', 'TryStar', 'handlers', 'handler'),
    ('try: pass\nexcept* A: pass\nexcept* É as é: pass\nelse: pass\nfinally: pass', 'TryStar', 'handlers', 'handler'),
    ('match s:\n    case 1: pass', 'Match', 'cases', 'case'), ('match s:\n    case 1: pass\n    case "é": pass', 'Match', 'cases', 'case'),
]

# ---- statement blocks ---------------------------------------------------------------------------------------------------
# (prefix before the block statements, indent of the block, suffix after, node class, field)
BLOCKS = [
    ('if x:\n', '    ', '', 'If', 'body'),
    ('if x:\n    pass\nelse:\n', '    ', '', 'If', 'orelse'),
    ('for i in j:\n', '    ', 'z = 0\n', 'For', 'body'),
    ('while x:\n    pass\nelse:\n', '    ', '', 'While', 'orelse'),
    ('with a:\n', '    ', '', 'With', 'body'),
    ('def f():\n', '    ', '', 'FunctionDef', 'body'),
    ('class C:\n', '    ', 'z = 0\n', 'ClassDef', 'body'),
    ('try:\n', '    ', 'finally:\n    pass\n', 'Try', 'body'),
    ('try:\n    pass\nexcept E:\n', '    ', '', 'ExceptHandler', 'body'),
    ('try:\n    pass\nfinally:\n', '    ', '', 'Try', 'finalbody'),
    ('match s:\n    case 1:\n', '        ', '', 'match_case', 'body'),
    ('', '', '', 'Module', 'body'),
    ('class C:\n    def f(self):\n        if x:\n', '            ', '', 'If', 'body'),
]
STMTS = ['a = 1', 's = "é"', 'é = 2', 'f(x)']
TRAILS = ['', ' ;', ';', '  # c', ' ; # é']
LAST_TRAILS = ['', ';', '  # é']
BLOCK_OPS = ['remove_last', 'cut_last', 'slice_del_last', 'view_del_last', 'remove_first', 'replace_last', 'append', 'insert0',
             'insert_mid', 'slice_del_first2']


_MB = {'x': 'é', 'a': 'á', 'b': 'ƀ', 'c': 'ç', 'f': 'ƒ', 's': 'š', 'C': 'Ç', 'm': 'ɱ', 'k': 'ķ', 'd': 'đ', 'y': 'ÿ', 'z': 'ž', 'i': 'ï', 'j': 'ĵ', 'r': 'ř',
       'T': 'Ţ', 'A': 'Á', 'o': 'ø', 'p': 'þ', 'q': 'ɋ', 'e': 'ę', 'g': 'ğ', 'h': 'ħ', 'v': 'ʋ', 'w': 'ŵ', 'u': 'ů', 't': 'ţ', 'l': 'ł', 'n': 'ñ',
       'E': 'Ę', 'B': 'Ɓ', 'U': 'Ů', 'P': 'Þ'}


def mb(src):
    """the same program with every one-letter identifier replaced by a multi-byte one (so that multi-byte text precedes almost
    every position on its line) and string literals given a multi-byte character; None if the result does not parse to the
    same shape"""
    import io
    import re
    import tokenize
    try:
        toks = list(tokenize.generate_tokens(io.StringIO(src).readline))
    except Exception:
        return None
    lines = src.split('\n')
    edits = []
    for t in toks:
        if t.type == tokenize.NAME and t.string in _MB and t.start[0] == t.end[0]:
            edits.append((t.start[0] - 1, t.start[1], t.end[1], _MB[t.string]))
        elif t.type == tokenize.STRING and t.start[0] == t.end[0] and re.fullmatch(r'"[a-z]*"', t.string):
            edits.append((t.start[0] - 1, t.start[1], t.end[1], '"é' + t.string[1:]))
    for ln, c0, c1, new in sorted(edits, reverse=True):
        lines[ln] = lines[ln][:c0] + new + lines[ln][c1:]
    out = '\n'.join(lines)
    try:
        a, b = ast.parse(src), ast.parse(out)
    except SyntaxError:
        return None
    if [n.__class__ for n in ast.walk(a)] != [n.__class__ for n in ast.walk(b)]:
        return None
    return out if out != src else None


def _variant(src, var):
    return src if var == 'ascii' else mb(src)


def _find(root, cls):
    for f in root.walk(True):
        if f.a.__class__.__name__ == cls:
            return f
    return None


def container_cases(thorough=False):
    out = []
    for ci, (src, cls, field, kind) in enumerate(CONTAINERS):
        for var in ('ascii', 'mb'):
            if var == 'mb' and mb(src) is None:
                continue
            for ei, elem in enumerate(ELEMS[kind]):
                for form in (('src', 'fst', 'ast') if thorough else ('src',)):
                    out.append(('c', ci, 'ins', ei, form, var))
                    out.append(('c', ci, 'rep', ei, form, var))
            out.append(('c', ci, 'del', 0, 'src', var))
            out.append(('c', ci, 'two', 0, 'src', var))       # two elements at once (one=False), every span
            out.append(('c', ci, 'xfer', 0, 'fst', var))      # a slice CUT from a twin tree is put into every position
            if kind in HASHY:
                out.append(('c', ci, 'twoml', 0, 'src', var))  # several elements on several lines, `#` inside string literals
    return out


# multi-line puts whose lines hold a `#` inside a string and a more deeply nested node before it (what must not be taken
# for a trailing comment when a line continuation is added)
HASHY = {'target': ['a[i.j]', 'b["k#"]', 'c'], 'starexpr': ['f(i.j)', '"k#"', 'c'], 'expr': ['f(i.j)', '"k#"', 'c'], 'arglike': ['f(i.j)', 'k="k#"', '**c'],
         'keyword': ['k1=f(i.j)', 'k2="k#"', 'k3=c'], 'withitem': ['f(i.j)', 'g("k#") as h', 'c'], 'kv': ['a[i.j]: 1', '"k#": 2', 'c: 3'],
         'seqpattern': ['C(i.j)', '"k#"', 'c'], 'kvpattern': ['1: C(i.j)', '"k#": c'], 'attrpattern': ['C(i.j)', 'k="k#"'], 'alias_from': ['a', 'b as c', 'd'],
         'name': ['a', 'b', 'c'], 'cmp': ['f(i.j)', '"k#"']}

MODE_OF = {'expr': 'expr', 'target': 'expr', 'starexpr': 'expr_arglike', 'arg': None, 'keyword': 'keyword', 'arglike': None,
           'alias': 'alias', 'alias_from': 'alias', 'withitem': 'withitem', 'pattern': 'pattern', 'seqpattern': 'pattern',
           'orpattern': 'pattern', 'kvpattern': None, 'attrpattern': None, 'kv': None, 'type_param': 'type_param', 'name': None,
           'comprehension': 'comprehension', 'if': 'expr', 'deco': 'expr', 'stmt': 'stmt', 'handler': 'ExceptHandler',
           'case': 'match_case', 'cmp': 'expr'}
JOIN = {'stmt': '\n', 'handler': '\n', 'case': '\n', 'comprehension': ' ', 'orpattern': ' | ', 'deco': '\n@'}


def _code(elem, kind, form):
    from fst import FST
    if form == 'src':
        return elem
    mode = MODE_OF.get(kind)
    if mode is None:
        return None
    f = FST(elem, mode)
    if form == 'fst':
        return f
    from fst.astutil import copy_ast
    return copy_ast(f.a)


def block_cases():
    out = []
    for bi in range(len(BLOCKS)):
        for layout in ('lines', 'oneline', 'joined'):
            for si, ti, li in itertools.product(range(len(STMTS)), range(len(TRAILS)), range(len(LAST_TRAILS))):
                out.append(('b', bi, layout, si, ti, li))
                if si == 0:
                    out.append(('b', bi, layout, si, ti, li, 'mb'))
    return out


def block_src(bi, layout, si, ti, li):
    pre, ind, suf, cls, field = BLOCKS[bi]
    first, mid, last = 'b0 = 0', STMTS[si] + TRAILS[ti], 'y = 2' + LAST_TRAILS[li]
    if layout == 'lines':
        body = ''.join(f'{ind}{s}\n' for s in (first, mid, last))
    elif layout == 'joined':         # the middle and last statements share a line
        if '#' in mid:
            return None
        sep = ' ' if mid.rstrip().endswith(';') else '; '
        body = f'{ind}{first}\n{ind}{mid}{sep}{last}\n'
    else:                            # one-line block on the header line
        if not pre or '#' in mid or pre.count('\n') != 1:
            return None
        sep = ' ' if mid.rstrip().endswith(';') else '; '
        return pre.rstrip('\n') + f' {first}; {mid}{sep}{last}\n' + suf
    return pre + body + suf


def _judge(root):
    return util.tree_equals_parse(root)


def run_case(case):
    """-> list of result dicts (one per operation tried)"""
    from fst import FST
    res = []
    if case[0] == 'c':
        _, ci, op, ei, form, var = case
        src, cls, field, kind = CONTAINERS[ci]
        src = _variant(src, var)
        elem = ELEMS[kind][ei]
        if op == 'twoml':
            h = HASHY[kind]
            elem = f'{h[0]}, {h[1]},\n{h[2] if len(h) > 2 else h[0]}'       # deep node, then `#` in a string on the SAME line; then a new line
        if op == 'two':
            a, b = ELEMS[kind][0], ELEMS[kind][1]
            if kind in ('cmp',):
                return res
            elem = ('@' if kind == 'deco' else '') + a + JOIN.get(kind, ', ') + b
        try:
            n = len(getattr(_find(FST(src, 'exec'), cls), field))
        except Exception as e:
            return [{'case': case, 'setup_error': repr(e)[:120]}]
        if op == 'xfer':
            # every span [i:j) is cut from a twin of the same source (the donor must stay consistent: its tree is judged too),
            # the cut piece (an FST with positions computed on the get path) is put at every position of a fresh target
            for i in range(n + 1):
                for j in range(i + 1, n + 1):
                    for k in sorted({0, n, i}):
                        donor = FST(src, 'exec')
                        root = FST(src, 'exec')
                        rec = {'case': list(case), 'src': src, 'cls': cls, 'field': field, 'op': 'xfer', 'elem': f'cut[{i}:{j}]', 'start': k, 'stop': k}
                        try:
                            with FST.options(norm=True):
                                piece = _find(donor, cls).get_slice(i, j, field, cut=True)
                        except Exception as e:
                            rec['raised'] = 'cut:' + type(e).__name__
                            res.append(rec)
                            break
                        d = _judge(donor)
                        if d:
                            rec['after'] = donor.src
                            rec['fail'] = d
                            rec['op'] = 'xfer-donor'
                            res.append(rec)
                            break
                        try:
                            with FST.options(norm=True):
                                _find(root, cls).put_slice(piece, k, k, field)
                        except Exception as e:
                            rec['raised'] = type(e).__name__
                            res.append(rec)
                            continue
                        d = _judge(root)
                        rec['after'] = root.src
                        if d:
                            rec['fail'] = d
                        res.append(rec)
            return res
        if op == 'ins':
            spans = [(i, i) for i in range(n + 1)]
        elif op in ('two', 'twoml'):
            spans = [(i, j) for i in range(n + 1) for j in range(i, n + 1)]
        elif op == 'rep':
            spans = [(i, j) for i in range(n + 1) for j in range(i + 1, n + 1)]
        else:
            spans = [(i, j) for i in range(n + 1) for j in range(i + 1, n + 1)]
        for (i, j) in spans:
            for one in ((True,) if op != 'del' else (None,)):
                root = FST(src, 'exec')
                c = _find(root, cls)
                rec = {'case': list(case), 'src': src, 'cls': cls, 'field': field, 'op': op, 'elem': elem if op != 'del' else None, 'start': i, 'stop': j}
                try:
                    code = None if op == 'del' else _code(elem, kind, form) if op not in ('two', 'twoml') else elem
                    if code is None and op != 'del':
                        continue
                    with FST.options(norm=True):
                        if op == 'del':
                            c.put_slice(None, i, j, field)
                        elif op in ('two', 'twoml'):
                            c.put_slice(code, i, j, field, one=False)
                        else:
                            c.put_slice(code, i, j, field, one=True)
                except Exception as e:
                    rec['raised'] = type(e).__name__
                    res.append(rec)
                    continue
                d = _judge(root)
                rec['after'] = root.src
                if d:
                    rec['fail'] = d
                    res.append(rec)
                    continue
                res.append(rec)
                # second step on the edited container: delete the first element, then append the first element of the alphabet
                c = _find(root, cls)
                if c is None or op in ('two', 'twoml'):
                    continue
                for op2 in ('del0', 'app'):
                    rec2 = dict(rec, op=op + '+' + op2, step1_after=rec['after'])
                    try:
                        m = len(getattr(c, field))
                        with FST.options(norm=True):
                            if op2 == 'del0':
                                if not m:
                                    continue
                                c.put_slice(None, 0, 1, field)
                            else:
                                c.put_slice(ELEMS[kind][0], m, m, field, one=True)
                    except Exception as e:
                        rec2['raised'] = type(e).__name__
                        res.append(rec2)
                        break
                    d = _judge(root)
                    rec2['after'] = root.src
                    if d:
                        rec2['fail'] = d
                        res.append(rec2)
                        break
                    res.append(rec2)
                    c = _find(root, cls)
                    if c is None:
                        break
        return res
    _, bi, layout, si, ti, li = case[:6]
    src = block_src(bi, layout, si, ti, li)
    if src is not None and len(case) > 6:
        src = mb(src)
    if src is None:
        return res
    pre, ind, suf, cls, field = BLOCKS[bi]
    try:
        ast.parse(src)
    except SyntaxError:
        return res
    for op in BLOCK_OPS:
        root = FST(src, 'exec')
        c = root if cls == 'Module' else None
        if c is None:
            # the innermost container of that class (the deepest one holds the block statements)
            for f in root.walk(True):
                if f.a.__class__.__name__ == cls and len(getattr(f.a, field, [])) == 3:
                    c = f
        rec = {'case': list(case), 'src': src, 'cls': cls, 'field': field, 'op': op}
        if c is None:
            rec['setup_error'] = 'container not found'
            res.append(rec)
            continue
        view = getattr(c, field)
        try:
            with FST.options(norm=True):
                if op == 'remove_last':
                    view[-1].remove()
                elif op == 'cut_last':
                    view[-1].cut()
                elif op == 'slice_del_last':
                    c.put_slice(None, 2, 3, field)
                elif op == 'view_del_last':
                    del view[-1]
                elif op == 'remove_first':
                    view[0].remove()
                elif op == 'replace_last':
                    view[-1].replace('zz = "é"')
                elif op == 'append':
                    view.append('zz = "é"')
                elif op == 'insert0':
                    view.insert('zz = "é"', 0)
                elif op == 'insert_mid':
                    view.insert('zz = "é"', 2)
                elif op == 'slice_del_first2':
                    c.put_slice(None, 0, 2, field)
        except Exception as e:
            rec['raised'] = type(e).__name__
            res.append(rec)
            continue
        d = _judge(root)
        rec['after'] = root.src
        if d:
            rec['fail'] = d
        res.append(rec)
    return res


def signature(rec):
    cls = 'no-parse' if rec['fail'].startswith('source no longer parses') else ('structure' if rec['fail'].startswith('structure') else 'positions')
    if rec['case'][0] == 'c':
        return f"C01|target|{rec['cls']}.{rec['field']}|{rec['op']}:{rec.get('elem')}@{rec['start']}:{rec['stop']}/{rec['case'][1]}{rec['case'][5][:1]}|{cls}"
    return f"C01|target|{rec['cls']}.{rec['field']}|{rec['op']}/{'.'.join(map(str, rec['case'][2:]))}|{cls}"


def replay(rec):
    """re-run the single operation of a recorded witness; returns the failure text or None"""
    for r in run_case(tuple(rec['case'])):
        if 'fail' in r and all(r.get(k) == rec.get(k) for k in ('op', 'start', 'stop', 'elem')):
            return r['fail']
    return None


# ---- primitive (identifier / operator / constant) fields --------------------------------------------------------------------
# every primitive field of every node of adversarial sources (names that contain keywords as substrings, blanks and line
# continuations around dots and keywords, multi-byte text) is set to every value of a small alphabet through attribute
# assignment; CPython judges the result.
PRIM_SRCS = [
    'import basket as k', 'import basket', 'import p . q as r', 'import p \\\n .q as r, s', 'import a.b.cas as k, important', 'import aas as asa',
    'from fromage import basket as k', 'from . import x', 'from .m import (x as y, z)', 'from .. import (a\n  as\n  b)', 'from . m . n import x',
    'from .a.b import c', 'from m import (a as b, c)', 'from m import é as è, ü',
    'x = 1.5.real', 'x = "ab".upper()', 'x = 2j.imag', 'x = (1).real', 'x = 1e3.real + 0x1f.real', 'x = b"ab".hex()', 'x = None.__class__', 'x = ....__class__',
    'x = basket.asset.isinstance_', 'x = a . b . c', 'x = a \\\n .b', 'x = (a).b', 'x = 1 .real', 'x = é.ü',
    'def define(arg, /, largs=1, *args, kwarg, **kwargs): pass', 'async def asyncio_(self): pass', 'class classy(base, metaclass=meta): pass',
    '@d\ndef   spaced  (a): pass', 'def f[T, *Ts, **P](): pass', 'class C[Tclass: int]: pass', 'type Typed[T] = T',
    'f(important=1, **starred)', 'f(a, lambda_=2, *b)', 'f(é=1)', 'class C(k=1, **kw): pass',
    'try: pass\nexcept Exception as exc: pass', 'try: pass\nexcept (A, B) as \\\n exc: pass', 'try: pass\nexcept* E as asas: pass', 'try: pass\nexcept E: pass',
    'match s:\n    case asas as asa: pass', 'match s:\n    case [*rest, last]: pass', 'match s:\n    case {1: a, **rest}: pass', 'match s:\n    case C(a, kw=b, kw2=c): pass',
    'match s:\n    case _: pass', 'match s:\n    case [*_]: pass', 'match s:\n    case (1 | 2) as x: pass', 'match s:\n    case {**rest}: pass',
    'global glob, asg', 'def f():\n    nonlocal non, local', 'x = name + notify - inner * form', 'x = a if b else c', 'x = not a', 'x = -a ** -b',
    'x = a < b in c', 'x = a and b or c', 'x += 1', 'x = a + b * c', 'x = (a + b) * c', 'x = a ** b ** c', 'x = -a', 'x = a not in b is not c',
    'x = 1', 'x = "s"', 'x = b"s"', 'x = None', 'x = ...', 'x = 1.5', 'x = 2j', 'x = -1', 'x = "é" "ü"', 'x = a[1]', 'x = f(1, "s")', 'x = [1, True, None]',
    'x = u"s"', "x = U'é' 't'", 'x = u"s".upper()', 'x = rb"s"', 'x = r"s\\d"', 'x = """m\nl"""', 'x = 0x1F', 'x = 1_000', 'x = 1e3', 'x = 0o17 + 0b11', 'x = 1_0.0_1j',
    'x = f"{u\'s\'}"', 'f(u"s", k=u"t")', 'match s:\n    case u"s": pass',
    'for forin in inner: pass', 'with within as aswith: pass', 'lambda lambda_, *a, k, **kw: lambda_', 'x = [elif_ for elif_ in orelse if ifs]',
    'def f(a: int = 1) -> int: pass', 'x: int = 1', 'del delete', 'assert asserted, msg', 'raise raised from cause', 'return_ = (yield yielded)',
]
PRIM_FIELDS = {
    'Name': ['id'], 'Attribute': ['attr'], 'FunctionDef': ['name'], 'AsyncFunctionDef': ['name'], 'ClassDef': ['name'],
    'alias': ['name', 'asname'], 'arg': ['arg'], 'keyword': ['arg'], 'ImportFrom': ['module', 'level'], 'ExceptHandler': ['name'],
    'MatchAs': ['name'], 'MatchStar': ['name'], 'MatchMapping': ['rest'], 'TypeVar': ['name'], 'ParamSpec': ['name'],
    'TypeVarTuple': ['name'], 'Constant': ['value'], 'BinOp': ['op'], 'UnaryOp': ['op'], 'BoolOp': ['op'], 'AugAssign': ['op'],
    'MatchSingleton': ['value'],
}
IDENT_VALUES = ['zz', 'é', '_', 'as_', None, 'ﬁle', ('fst', 'ﬁle'), ('fst', 'é'), ('fst', '𝐱y')]
OPS = {'BinOp': ['Add', 'Mult', 'Pow', 'BitOr', 'LShift', 'MatMult', 'FloorDiv'], 'UnaryOp': ['Not', 'USub', 'Invert'], 'BoolOp': ['And', 'Or'],
       'AugAssign': ['Add', 'Pow', 'RShift', 'FloorDiv']}
CONST_VALUES = [0, -1, 'é', b'b', None, True, ..., 1.5, 2j, 'a\nb']


def prim_cases():
    return [('p', i, var) for i in range(len(PRIM_SRCS)) for var in ('ascii', 'mb') if var == 'ascii' or mb(PRIM_SRCS[i]) is not None]


def _prim_values(cls, field):
    if field == 'op':
        return [getattr(ast, o)() for o in OPS[cls]]
    if field == 'value':
        return [None, True, False] if cls == 'MatchSingleton' else CONST_VALUES
    if field == 'level':
        return [0, 1, 2]
    if field == 'module':
        return ['zz', 'é.ü', 'pk.md', None]
    if (cls, field) == ('alias', 'name'):
        return ['zz', 'é', 'pk.md']
    return IDENT_VALUES


def run_prim_case(case):
    from fst import FST
    src = _variant(PRIM_SRCS[case[1]], case[2] if len(case) > 2 else 'ascii')
    res = []
    try:
        root0 = FST(src, 'exec')
    except Exception as e:
        return [{'case': list(case), 'setup_error': repr(e)[:120]}]
    nodes = [(k, f.a.__class__.__name__) for k, f in enumerate(root0.walk(True)) if f.a.__class__.__name__ in PRIM_FIELDS]
    for k, cls in nodes:
        for field in PRIM_FIELDS[cls]:
            for vi, val in enumerate(_prim_values(cls, field)):
                root = FST(src, 'exec')
                node = list(root.walk(True))[k]
                par = node.parent.a.__class__.__name__ if node.parent else '-'
                rec = {'case': list(case), 'src': src, 'cls': cls, 'field': field, 'op': 'set', 'node': k, 'vi': vi, 'parent': par,
                       'value': ast.dump(val) if isinstance(val, ast.AST) else repr(val)}
                try:
                    if isinstance(val, tuple) and val[0] == 'fst':      # the identifier given as an FST Name node
                        val = FST(val[1], 'Name')
                    with FST.options(norm=True):
                        setattr(node, field, val)
                except Exception as e:
                    rec['raised'] = type(e).__name__
                    res.append(rec)
                    continue
                d = _judge(root)
                rec['after'] = root.src
                if d:
                    rec['fail'] = d
                res.append(rec)
    return res


def prim_signature(rec):
    cls = 'no-parse' if rec['fail'].startswith('source no longer parses') else ('structure' if rec['fail'].startswith('structure') else 'positions')
    return f"C01|prim|{rec['cls']}.{rec['field']}@{rec.get('parent')}|{rec['value']}/{rec['case'][1]}{(rec['case'][2][:1] if len(rec['case']) > 2 and rec['case'][2] != 'ascii' else '')}.{rec['node']}|{cls}"


def replay_prim(rec):
    for r in run_prim_case(tuple(rec['case'])):
        if 'fail' in r and all(r.get(k) == rec.get(k) for k in ('node', 'field', 'vi')):
            return r['fail']
    return None


# ---- moving statements between blocks of different depth (re-indentation) ------------------------------------------------
# the statement is taken (cut / copy) from one block and put (append / insert / replace) into a block of another depth;
# multi-line literals must keep their value (only str docstrings may be re-indented), continuation lines and comments
# must follow.  CPython judges source vs tree (Constant values are part of ast.dump).
MOVE_STMTS = [
    'b"""x\n  y\n      z"""', '"""x\n  y\n      z"""', 'v = """x\ny\n      z"""', 'v = b"""x\n y"""', 'rb"""\\x\n y"""', 'f"""a\n{b}\n  c"""',
    '"s" \\\n  "t"', 'b"a" \\\nb"b"', 'g(a,  # c\n  b,\n)', 'if p:\n    q\nelif r:\n    s\nelse:\n    t', 'x = [\n    1,\n2,\n        3]',
    'def h():\n    """doc\n    more\n  less"""\n    b"""k\nl"""', 'y = a \\\n  + b', 'with o as p:\n  q  # c\n  r', 'try:\n    a\nfinally:\n    b"""m\n n"""',
    'z = (1,\n\n     2)', 'class K:\n    b"""q\nr"""\n    """not doc\n  x"""', 'for i in j:\n\tk = """t\n\tu"""\n\tl', 'é = "é" \\\n  "ü"  # é',
]
MOVE_SHAPES = [
    # (source with markers, path to source block (cls, field), path to destination block)
    ('def outer():\n    if a:\n        {S}\n        keep = 1\n    dst = 0\n', ('If', 'body'), ('FunctionDef', 'body')),
    ('def outer():\n    {S}\n    if a:\n        dst = 0\n', ('FunctionDef', 'body'), ('If', 'body')),
    ('{S}\nclass C:\n    def m(self):\n        dst = 0\n', ('Module', 'body'), ('FunctionDef', 'body')),
    ('class C:\n    def m(self):\n        {S}\n        keep = 1\ndst = 0\n', ('FunctionDef', 'body'), ('Module', 'body')),
    ('if a:\n  {S}\n  keep = 1\nelse:\n        dst = 0\n', ('If', 'body'), ('If', 'orelse')),
    ('try:\n    dst = 0\nexcept E:\n    {S}\n    keep = 1\n', ('ExceptHandler', 'body'), ('Try', 'body')),
    ('if a:\n    pass\nelse:\n    if b:\n        {S}\n    else:\n        dst = 0\n', None, None),          # elif conversion family
]
MOVE_OPS = ['cut-append', 'copy-append', 'cut-insert0', 'copy-replace', 'cut-putback', 'ast-append']


def move_cases():
    return [('m', si, hi) + v for si in range(len(MOVE_STMTS)) for hi in range(len(MOVE_SHAPES)) for v in ((), ('mb',))]


def _indent_stmt(stmt, ind):
    lines = stmt.split('\n')
    return ('\n' + ind).join(lines) if False else lines[0] + ''.join('\n' + (ind + l if l.strip() and not _in_literal(stmt, k + 1) else l) for k, l in enumerate(lines[1:]))


def _in_literal(stmt, lineno):
    """is line `lineno` (0-based) of stmt a continuation line of a multi-line string token?"""
    import io
    import tokenize
    try:
        for t in tokenize.generate_tokens(io.StringIO(stmt + '\n').readline):
            if t.type in (tokenize.STRING, getattr(tokenize, 'FSTRING_MIDDLE', -1)) and t.start[0] - 1 < lineno <= t.end[0] - 1:
                return True
            if tokenize.tok_name[t.type] == 'FSTRING_START':
                fs = t.start[0] - 1
            if tokenize.tok_name[t.type] == 'FSTRING_END' and fs < lineno <= t.end[0] - 1:
                return True
    except Exception:
        pass
    return False


def run_move_case(case):
    from fst import FST
    _, si, hi = case[:3]
    shape, srcp, dstp = MOVE_SHAPES[hi]
    ind = shape.split('{S}')[0].rsplit('\n', 1)[-1]
    src = shape.replace('{S}', _indent_stmt(MOVE_STMTS[si], ind))
    res = []
    if len(case) > 3:
        src = mb(src)
        if src is None:
            return res
    try:
        ref = ast.parse(src)
    except SyntaxError:
        return res
    if srcp is None:        # elif conversion: replace the inner `if` by itself / toggle via put of the else body
        for op in ('elif-true', 'elif-roundtrip'):
            root = FST(src, 'exec')
            rec = {'case': list(case), 'src': src, 'cls': 'If', 'field': 'orelse', 'op': op}
            try:
                outer = root.body[0]
                inner = outer.orelse[0]
                with FST.options(norm=True):
                    c = inner.copy()
                    outer.put_slice(c, 0, 1, 'orelse', elif_=True)
                    if op == 'elif-roundtrip':
                        c2 = root.body[0].orelse[0].copy()
                        root.body[0].put_slice(c2, 0, 1, 'orelse', elif_=False)
            except Exception as e:
                rec['raised'] = type(e).__name__
                res.append(rec)
                continue
            d = _judge(root)
            rec['after'] = root.src
            if d:
                rec['fail'] = d
            res.append(rec)
        return res

    def find(root, p):
        if p[0] == 'Module':
            return root
        best = None
        for f in root.walk(True):
            if f.a.__class__.__name__ == p[0]:
                best = f if p != srcp or best is None else best
                if p == dstp and any(getattr(s, 'targets', None) and getattr(s.targets[0], 'id', '') == 'dst' for s in getattr(f.a, p[1], [])):
                    return f
        return best

    for op in MOVE_OPS:
        root = FST(src, 'exec')
        rec = {'case': list(case), 'src': src, 'cls': dstp[0], 'field': dstp[1], 'op': op}
        try:
            sb = find(root, srcp)
            stmt = None
            for s in getattr(sb, srcp[1]):
                if not (s.a.__class__.__name__ == 'Assign' and getattr(s.a.targets[0], 'id', '') in ('keep', 'dst')) and s.a.__class__.__name__ not in ('ClassDef',) or s.src.startswith('class K'):
                    stmt = s
                    break
            if stmt is None:
                continue
            with FST.options(norm=True):
                how, where = op.split('-')
                if how == 'ast':
                    from fst.astutil import copy_ast
                    piece = copy_ast(stmt.a)
                else:
                    piece = stmt.cut() if how == 'cut' else stmt.copy()
                piece_src = getattr(piece, 'src', None)
                if piece_src is not None:
                    try:
                        pp = ast.parse(piece_src)
                        if not isinstance(piece.a, ast.Module):
                            pp = pp.body[0] if len(pp.body) == 1 else pp
                        if ast.dump(pp) != ast.dump(piece.a):
                            rec['fail'] = 'structure differs: the taken piece does not denote its own tree: ' + repr(piece_src)[:120]
                            rec['after'] = piece_src
                            res.append(rec)
                            continue
                    except SyntaxError as e:
                        rec['fail'] = f'source no longer parses: taken piece {piece_src!r}: {e}'
                        rec['after'] = piece_src
                        res.append(rec)
                        continue
                db = find(root, dstp)
                view = getattr(db, dstp[1])
                if where == 'append':
                    view.append(piece)
                elif where == 'insert0':
                    view.insert(piece, 0)
                elif where == 'replace':
                    view[len(view) - 1].replace(piece)
                elif where == 'putback':
                    sb2 = find(root, srcp)
                    getattr(sb2, srcp[1]).insert(piece, 0)
        except Exception as e:
            rec['raised'] = type(e).__name__
            res.append(rec)
            continue
        d = _judge(root)
        rec['after'] = root.src
        if d:
            rec['fail'] = d
        res.append(rec)
    return res


def move_signature(rec):
    cls = 'no-parse' if rec['fail'].startswith('source no longer parses') else ('structure' if rec['fail'].startswith('structure') else 'positions')
    return f"C01|move|{rec['cls']}.{rec['field']}|{rec['op']}/{rec['case'][1]}.{rec['case'][2]}{'m' if len(rec['case']) > 3 else ''}|{cls}"


def replay_move(rec):
    for r in run_move_case(tuple(rec['case'])):
        if 'fail' in r and r.get('op') == rec.get('op'):
            return r['fail']
    return None


# ---- par() / unpar() as edit steps, followed by an edit that consults the node's parentheses ------------------------------
PAR_SRCS = [
    'x = a if(b)else c', 'x = (b)if a else c', 'x = a if b else(c)', 'x = d in(y)if a else c', 'x = not(a)', 'x = [(a)for b in(c)if(d)]',
    'x = p and(a)and q', 'x = p or(a)', 'def f():\n    return(a)', 'x = (a) + (b)', 'x = ((a))', 'x = f((a), (b))', 'x = f((a))', 'x = (a).b', 'x = (a)[b]',
    'x = (a, b)', 'x = [(a, b), c]', 'for(a)in(b): pass', 'assert(a), (b)', 'x = (yield)', 'x = (lambda: 0)', 'x = (a := 1)', 'with (a): pass', 'with (a) as b: pass',
    'del(a), b', 'x = {**(a)}', 'x = f(*(a))', 'x = f(k=(a))', 'x = s[(a):(b)]', 'match s:\n    case (1) | (2): pass', 'match s:\n    case (a): pass',
    'match s:\n    case C((1)): pass', 'x = (a)if(b)else(c)', 'é = "é" if(é)else(ü)', 'raise(a)from(b)', 'x = (-a) ** (-b)', 'x = (a if b else c) if d else e',
    'x = i for_ in_ y' if False else 'x = (i for i in y)', 'print((a)if b else(c))', 'async def f():\n    await(a)',
    # fields DERIVED from the layout: AnnAssign.simple is 1 only for an unparenthesised Name target
    '(a): int = 1', 'a: int = 1', '(a): int', 'a: int', 'a.b: int = 1', '((a)): int = 1', 'class C:\n    (é): "é" = 1',
]
PAR_FOLLOW = ['lambda: 1', 'p if q else r', 'zz', 'a, b', 'yield', 'v := 1', '"é"', 'not q']
PAR_FOLLOW_PAT = ['1 | 2', 'zz', 'p as q', '"é"']


def par_cases():
    return [('r', i) for i in range(len(PAR_SRCS))]


def run_par_case(case):
    from fst import FST
    src = PAR_SRCS[case[1]]
    res = []
    try:
        root0 = FST(src, 'exec')
    except Exception as e:
        return [{'case': list(case), 'setup_error': repr(e)[:120]}]
    nodes = [k for k, f in enumerate(root0.walk(True)) if isinstance(f.a, (ast.expr, ast.pattern)) and not isinstance(f.a, ast.expr_context)]
    for k in nodes:
        for first in ('unpar', 'par', 'par-force', 'query-unpar'):
            is_pat = isinstance(list(root0.walk(True))[k].a, ast.pattern)
            for fi, follow in enumerate((PAR_FOLLOW_PAT if is_pat else PAR_FOLLOW) + [None]):
                root = FST(src, 'exec')
                node = list(root.walk(True))[k]
                if not isinstance(getattr(node.a, 'ctx', ast.Load()), ast.Load) and not (node.parent and isinstance(node.parent.a, ast.AnnAssign)):
                    break
                rec = {'case': list(case), 'src': src, 'cls': node.a.__class__.__name__, 'field': first, 'op': f'{first}+{follow}', 'node': k, 'fi': fi}
                try:
                    with FST.options(norm=True):
                        if first == 'query-unpar':
                            node.pars(); node.pars(shared=False); node.pars(shared=None)
                            node.unpar()
                        elif first == 'unpar':
                            node.unpar()
                        elif first == 'unpar-shared':
                            node.unpar(shared=None) if 'shared' in node.unpar.__code__.co_varnames else node.unpar()
                        elif first == 'par':
                            node.par()
                        else:
                            node.par(force=True)
                except Exception as e:
                    rec['raised'] = type(e).__name__
                    res.append(rec)
                    break
                d = _judge(root)
                if d and ('unpar' in first or first == 'par-force') and not d.startswith('positions'):
                    rec['unparsable_accessor'] = True       # unpar() may be asked to remove NEEDED parentheses (documented, the caller's
                    res.append(rec)                         # request): a regrouped / unparsable result is not judged, positions are
                    break
                if d:
                    rec['after'] = root.src
                    rec['fail'] = d
                    res.append(rec)
                    break
                if follow is None:
                    rec['after'] = root.src
                    res.append(rec)
                    continue
                try:
                    with FST.options(norm=True):
                        node.replace(follow)
                except Exception as e:
                    rec['raised'] = type(e).__name__
                    res.append(rec)
                    continue
                d = _judge(root)
                rec['after'] = root.src
                if d:
                    rec['fail'] = d
                res.append(rec)
    return res


def par_signature(rec):
    cls = 'no-parse' if rec['fail'].startswith('source no longer parses') else ('structure' if rec['fail'].startswith('structure') else 'positions')
    return f"C01|par|{rec['cls']}|{rec['op']}/{rec['case'][1]}.{rec['node']}|{cls}"


def replay_par(rec):
    for r in run_par_case(tuple(rec['case'])):
        if 'fail' in r and r.get('node') == rec.get('node') and r.get('op') == rec.get('op'):
            return r['fail']
    return None


# ---- optional single-node fields: delete / delete-then-put-back / replace, with the child in every parenthesised layout ---------
# (template, node class, field); {V} is the optional child; the node is the first of its class whose field is set
OPT_SLOTS = [
    ('class A[T: {V}]: pass', 'TypeVar', 'bound'), ('def f[T: {V}, U](): pass', 'TypeVar', 'bound'), ('async def f[U, T: {V}](): pass', 'TypeVar', 'bound'),
    ('type A[T: {V}] = x', 'TypeVar', 'bound'), ('def f() -> {V}: pass', 'FunctionDef', 'returns'), ('async def f(a) -> {V}: pass', 'AsyncFunctionDef', 'returns'),
    ('def f(a: {V}, b): pass', 'arg', 'annotation'), ('def f(*a: {V}): pass', 'arg', 'annotation'), ('def f(b, /, *, a: {V} = 1): pass', 'arg', 'annotation'),
    ('lambda: 0\nx: int = {V}', 'AnnAssign', 'value'), ('def f():\n    return {V}', 'Return', 'value'), ('raise {V}', 'Raise', 'exc'),
    ('raise e from {V}', 'Raise', 'cause'), ('assert t, {V}', 'Assert', 'msg'), ('with a as {V}: pass', 'withitem', 'optional_vars'),
    ('async def f():\n    async with a as {V}, b: pass', 'withitem', 'optional_vars'), ('with (a as {V}, b): pass', 'withitem', 'optional_vars'),
    ('try: pass\nexcept {V}: pass', 'ExceptHandler', 'type'), ('try: pass\nexcept* {V}: pass\nfinally: pass', 'ExceptHandler', 'type'),
    ('x[{V}:]', 'Slice', 'lower'), ('x[:{V}]', 'Slice', 'upper'), ('x[a:b:{V}]', 'Slice', 'step'), ('x[::{V}]', 'Slice', 'step'), ('x[{V}:b, c]', 'Slice', 'lower'),
    ('def f():\n    yield {V}', 'Yield', 'value'), ('def f():\n    x = yield {V}', 'Yield', 'value'),
    ('match s:\n    case 1 if {V}: pass', 'match_case', 'guard'), ('match s:\n    case [a, b] if {V}:\n        pass', 'match_case', 'guard'),
    ('z = {a: b, {V}: c}', 'Dict', 'keys[1]'), ('z = {{V}: c, d: e}', 'Dict', 'keys[0]'), ('z = {{V}: c}', 'Dict', 'keys[0]'),
    ('def f(a, *, b={V}, c): pass', 'arguments', 'kw_defaults[0]'), ('lambda *, b={V}: b', 'arguments', 'kw_defaults[0]'),
    ('def f(*, b, c={V}, **k): pass', 'arguments', 'kw_defaults[1]'),
    ('def f(a, *{V}): pass', 'arguments', 'vararg'), ('def f(a, **{V}): pass', 'arguments', 'kwarg'), ('lambda *{V}, k: 0', 'arguments', 'vararg'),
    ('match s:\n    case {P} as y: pass', 'MatchAs', 'pattern'), ('match s:\n    case [{P} as y, z]: pass', 'MatchAs', 'pattern'),
    ('match s:\n    case C(k={P} as y): pass', 'MatchAs', 'pattern'),
]
OPT_VALUES = ['v', '(v)', '( v )', '(\n v\n)', '(\n    v  # c\n)', 'é', '(é)', 'v if w else u', '(v if w else u)', '(v)[w]', '(v).w', '(v, w)', '((v))', '"#)"', '("#)")']
OPT_ARGS = ['v', 'é', 'v: w', 'v: (w)', 'é: "é"']
OPT_PATS = ['1', '(1)', '(1 | 2)', '( é.v )', '[a, b]', '(\n        1\n    )', 'C()', '((2))']
OPT_OPS = ['set-none', 'del-attr', 'put-none', 'set-none+back', 'set-none+back-par', 'replace', 'replace-par', 'replace+set-none']
OPT_VARIANTS = ['ascii', 'mb', 'nest']


def opt_cases():
    return [('o', i) for i in range(len(OPT_SLOTS))]


def _opt_src(tmpl, v, var):
    src = tmpl.replace('{V}', v).replace('{P}', v)
    if var == 'mb':
        return mb(src)
    if var == 'nest':
        return 'if 1:\n' + '\n'.join('    ' + l for l in src.split('\n')) + '\nelse:\n    pass'
    return src


def _opt_get(a, field):
    if field.endswith(']'):
        name, i = field[:-1].split('[')
        lst = getattr(a, name)
        return lst[int(i)] if int(i) < len(lst) else None
    return getattr(a, field, None)


def _opt_put(node, field, value, how):
    if field.endswith(']'):
        name, i = field[:-1].split('[')
        node.put(value, int(i), name)
    elif how == 'del-attr' and value is None:
        delattr(node, field)
    elif how == 'put-none' or value is not None and how.startswith('replace'):
        node.put(value, field)
    else:
        setattr(node, field, value)


def run_opt_case(case, only=None):
    from fst import FST
    tmpl, cls, field = OPT_SLOTS[case[1]]
    res = []
    values = OPT_PATS if '{P}' in tmpl else OPT_ARGS if field in ('vararg', 'kwarg') else OPT_VALUES
    back = '1 | 3' if '{P}' in tmpl else 'zz'
    for vi, v in enumerate(values):
        for var in OPT_VARIANTS:
            src = _opt_src(tmpl, v, var)
            if src is None:
                continue
            try:
                ast.parse(src)
            except SyntaxError:
                continue
            for op in OPT_OPS:
                if only and (vi, var, op) != only:
                    continue
                try:
                    root = FST(src, 'exec')
                except Exception as e:
                    res.append({'case': list(case), 'setup_error': repr(e)[:120]})
                    break
                node = next((f for f in root.walk(True) if f.a.__class__.__name__ == cls and _opt_get(f.a, field) is not None), None)
                if node is None:
                    res.append({'case': list(case), 'setup_error': f'no {cls}.{field} in {src!r}'})
                    break
                rec = {'case': list(case), 'src': src, 'cls': cls, 'field': field, 'op': op, 'vi': vi, 'var': var}
                steps = []
                first, _, second = op.partition('+')
                steps.append((first, None if first in ('set-none', 'del-attr', 'put-none') else back if first == 'replace' else f'({back})'))
                if second:
                    steps.append((second, None if second == 'set-none' else back if second == 'back' else f'({back})'))
                for si, (how, value) in enumerate(steps):
                    try:
                        with FST.options(norm=True):
                            _opt_put(node, field, value, how)
                    except Exception as e:
                        rec['raised'] = f'{si}:{type(e).__name__}'
                        break
                    d = _judge(root)
                    if d:
                        rec['fail'] = d
                        rec['step'] = si
                        break
                rec['after'] = root.src
                res.append(rec)
    return res


def opt_signature(rec):
    cls = 'no-parse' if rec['fail'].startswith('source no longer parses') else ('structure' if rec['fail'].startswith('structure') else 'positions')
    return f"C01|opt|{rec['cls']}.{rec['field']}|{rec['op']}@{rec['step']}/{rec['case'][1]}.{rec['vi']}{rec['var'][0]}|{cls}"


def replay_opt(rec):
    for r in run_opt_case(tuple(rec['case']), only=(rec['vi'], rec['var'], rec['op'])):
        if 'fail' in r:
            return r['fail']
    return None


# ---- ADDING an optional child that is absent, where the neighbours contain the very characters the put searches for -----------
# (source, node class, field, values)
_EV = ['zz', 'é', 'p if q else r', '"#"']
ADD_SLOTS = [
    ('def f(a, b=k**2, *, c=1, **kw): pass', 'arguments', 'vararg', ['rest', 'é', 'r: int']), ('def f(a: "*", *, c): pass', 'arguments', 'vararg', ['rest']),
    ('def f(a=2*3, *, b): pass', 'arguments', 'vararg', ['rest', 'é']), ('lambda a=2*3, *, b: 0', 'arguments', 'vararg', ['rest']),
    ('def f(p=x*y, /, *, b): pass', 'arguments', 'vararg', ['rest']), ('def f(*, b): pass', 'arguments', 'vararg', ['rest']),
    ('def f(a, /, *, b="*"): pass', 'arguments', 'vararg', ['rest']), ('def f(a, b="**"): pass', 'arguments', 'kwarg', ['kw', 'é: dict']),
    ('def f(a, *b, c="**", d=x**y): pass', 'arguments', 'kwarg', ['kw']), ('lambda a, b=x**y: 0', 'arguments', 'kwarg', ['kw']),
    ('def f(a, b=2*3): pass', 'arguments', 'vararg', ['rest']), ('def f(*, b: "=", c): pass', 'arguments', 'kw_defaults[0]', _EV),
    ('def f(*, b: x[y:z], c=1): pass', 'arguments', 'kw_defaults[0]', _EV), ('lambda *, b, c="=": 0', 'arguments', 'kw_defaults[0]', ['zz']),
    ('def f(a=")", b="->") : pass', 'FunctionDef', 'returns', _EV), ('def f(a=x[1:2], b={1: 2}) \\\n : pass', 'FunctionDef', 'returns', _EV),
    ('async def f(a: ")->" = (1)):pass', 'AsyncFunctionDef', 'returns', _EV), ('def f(a = ",", b: x[1:2] = {1: 2}): pass', 'arg', 'annotation', _EV),
    ('def f(a="):", *b, c): pass', 'arg', 'annotation', _EV), ('lambda: 0\nx[a:b]', 'Slice', 'step', _EV), ('x["a:":]', 'Slice', 'upper', _EV),
    ('x[a["::"]:]', 'Slice', 'upper', _EV), ('x[:b[c:d]]', 'Slice', 'lower', _EV), ('x[::]', 'Slice', 'lower', _EV), ('x[:: s]', 'Slice', 'upper', _EV),
    ('raise e("from")', 'Raise', 'cause', _EV), ('raise', 'Raise', 'exc', _EV), ('assert t("a,b"), ', None, None, None),
    ('assert t("a,b")', 'Assert', 'msg', _EV), ('assert (t, u)', 'Assert', 'msg', _EV), ('with a("as") : pass', 'withitem', 'optional_vars', ['zz', 'é', '(p, q)']),
    ('with (a, b("as")): pass', 'withitem', 'optional_vars', ['zz']), ('with (a): pass', 'withitem', 'optional_vars', ['zz']),
    ('async def f():\n    async with a, (b) : pass', 'withitem', 'optional_vars', ['zz']), ('x: "= 1"', 'AnnAssign', 'value', _EV),
    ('x: d["="]  # = c', 'AnnAssign', 'value', _EV), ('(x): int', 'AnnAssign', 'value', _EV), ('def f():\n    return  # c', 'Return', 'value', _EV),
    ('def f():\n    return;', 'Return', 'value', _EV), ('def f():\n    x = yield', 'Yield', 'value', _EV), ('def f():\n    x = (yield)', 'Yield', 'value', _EV),
    ('class A[T, U: "T:"]: pass', 'TypeVar', 'bound', ['int', 'é', '(p, q)']), ('def f[T](a: "T:"): pass', 'TypeVar', 'bound', ['int']),
    ('type A[T] = x["T:"]', 'TypeVar', 'bound', ['int']), ('try: pass\nexcept: pass', 'ExceptHandler', 'type', ['E', '(E, F)', 'é']),
    ('try: pass\nexcept : pass  # :', 'ExceptHandler', 'type', ['E']), ('match s:\n    case "if": pass', 'match_case', 'guard', _EV),
    ('match s:\n    case {"k:": v} : pass', 'match_case', 'guard', _EV), ('match s:\n    case x if_: pass' if False else 'match s:\n    case [a, b]:pass', 'match_case', 'guard', _EV),
    ('z = {a: b, **c}', 'Dict', 'keys[1]', ['zz', '"é"', '(p)', 'p if q else r']), ('z = {**c}', 'Dict', 'keys[0]', ['zz']),
    ('z = {**c, "**": d}', 'Dict', 'keys[0]', ['zz']), ('z = {a: "**", ** c}', 'Dict', 'keys[1]', ['zz']),
]
ADD_SLOTS = [a for a in ADD_SLOTS if a[1]]
ADD_FOLLOW = [None, 'none', 'replace']


def add_cases():
    return [('a', i) for i in range(len(ADD_SLOTS))]


def run_add_case(case, only=None):
    from fst import FST
    tmpl, cls, field, values = ADD_SLOTS[case[1]]
    res = []
    for var in ('ascii', 'mb', 'nest'):
        src = _opt_src(tmpl, '', var)
        if src is None:
            continue
        for vi, v in enumerate(values):
            for fi, follow in enumerate(ADD_FOLLOW):
                if only and (var, vi, fi) != only:
                    continue
                try:
                    root = FST(src, 'exec')
                except Exception as e:
                    res.append({'case': list(case), 'setup_error': repr(e)[:120]})
                    break
                node = next((f for f in root.walk(True) if f.a.__class__.__name__ == cls and _opt_get(f.a, field) is None
                             and (not field.endswith(']') or len(getattr(f.a, field.split('[')[0])) > int(field[:-1].split('[')[1]))), None)
                if node is None:
                    res.append({'case': list(case), 'setup_error': f'no {cls} with absent {field} in {src!r}'})
                    break
                rec = {'case': list(case), 'src': src, 'cls': cls, 'field': field, 'op': f'add+{follow}', 'vi': vi, 'var': var, 'fi': fi, 'value': v}
                steps = [('replace', v)] + ([('set-none', None)] if follow == 'none' else [('replace', 'yy')] if follow == 'replace' else [])
                for si, (how, value) in enumerate(steps):
                    try:
                        with FST.options(norm=True):
                            _opt_put(node, field, value, how)
                    except Exception as e:
                        rec['raised'] = f'{si}:{type(e).__name__}'
                        break
                    d = _judge(root)
                    if d:
                        rec['fail'] = d
                        rec['step'] = si
                        break
                rec['after'] = root.src
                res.append(rec)
    return res


def add_signature(rec):
    cls = 'no-parse' if rec['fail'].startswith('source no longer parses') else ('structure' if rec['fail'].startswith('structure') else 'positions')
    return f"C01|add|{rec['cls']}.{rec['field']}|{rec['op']}@{rec['step']}/{rec['case'][1]}.{rec['vi']}{rec['var'][0]}|{cls}"


def replay_add(rec):
    for r in run_add_case(tuple(rec['case']), only=(rec['var'], rec['vi'], rec['fi'])):
        if 'fail' in r:
            return r['fail']
    return None


# ---- line-comment and docstring puts (edits the property names) on every statement of sources with statements sharing lines -----
CMT_SRCS = [
    'if x: a; b\nelse: c; d', 'if x: a\nelif y: b; c\nelse: d; e', 'try: a\nfinally: b; c', 'try: a; b\nexcept E: c; d\nexcept F: pass\nelse: e; f\nfinally: g; h',
    'for i in j: a; b\nelse: c; d', 'while x: a\nelse: b; c', 'def f(): a; b', 'class C: a; b', 'with x: a; b', 'async def f(): await a; b',
    'match s:\n    case 1: a; b\n    case _: c', 'a; b; c', 'a; b  # old', 'a  # old\nb', 'if x:\n    a  # old\n    b\nelse:  # e\n    c',
    'def f():  # h\n    """doc"""\n    a; b  # t', 'class C:\n    def m(self): return 1; x = 2\n    y = 3', 'if x: a; b  # t\nz = 1', 'x = [a,\n     b]; y = 1',
    'if x:\n    if y: a; b\n    else: c; d\nelse: e; f', 'try:\n    pass\nexcept* E: a; b\nfinally: c; d', 'for é in ü: á = "é"; b\nelse: "é"; d',
    'x = """m\nl"""; y = 1', 'if x: a; \\\n b', 'with a, \\\n b: c; d', 'def f(a,\n      b): c; d', 'if (x and\n    y): a; b\nelse: c',
    'lambda: 0\nif x: pass;', 'if x: a;\nelse: b;',
]
CMT_TEXTS = [('note', False), ('é # é', False), ('  # full é', True), (None, False), ('#tight', True)]
DOC_SRCS = [
    'def f(): pass', 'def f(): a; b', 'def f():\n    """old"""\n    a', 'def f(): """old"""; a', 'class C: pass', 'class C:\n    """old\n    more"""\n    x = 1',
    'async def f():  # h\n    a', 'x = 1\ny = 2', '"""old"""\nx = 1', 'def f():\n    b"not doc"\n    a', 'class É:\n    é = "é"', 'def f(): "old"',
    'if 1:\n    def g(): a; b\n    z = 1', 'class C:\n    def m(self): pass\n    def n(self): """d"""', 'def f():\n\n    # c\n    a',
]
DOC_TEXTS = ['new', 'two\nlines', 'quote """ inside', "back\\slash and 'q'", 'é ü', '', None, 'trail\n', '  indented\n    more']


def cmt_cases():
    return [('l', i) for i in range(len(CMT_SRCS))] + [('d', i) for i in range(len(DOC_SRCS))]


def run_cmt_case(case, only=None):
    from fst import FST
    res = []
    kind, i = case[0], case[1]
    src0 = (CMT_SRCS if kind == 'l' else DOC_SRCS)[i]
    for var in ('ascii', 'nest'):
        src = src0 if var == 'ascii' else 'if 1:\n' + '\n'.join('    ' + l for l in src0.split('\n')) + '\nelse:\n    pass'
        if var == 'nest' and ('"""' in src0 and '\n' in src0.split('"""')[1] if '"""' in src0 else False):
            continue            # indenting would change a multi-line string
        try:
            root0 = FST(src, 'exec')
        except Exception as e:
            res.append({'case': list(case), 'setup_error': repr(e)[:120]})
            continue
        nodes = [k for k, f in enumerate(root0.walk(True)) if isinstance(f.a, (ast.stmt, ast.Module) if kind == 'd' else ast.stmt)
                 and (kind == 'l' or isinstance(f.a, (ast.FunctionDef, ast.AsyncFunctionDef, ast.ClassDef, ast.Module)))]
        for k in nodes:
            if kind == 'l':
                is_block = hasattr(list(root0.walk(True))[k].a, 'body')
                fields = [None] + ([f for f in ('orelse', 'finalbody') if getattr(list(root0.walk(True))[k].a, f, None)] if is_block else [])
                steps_list = [(t, fld) for t in CMT_TEXTS for fld in fields]
            else:
                steps_list = [(t, rp) for t in DOC_TEXTS for rp in (False, True)]
            for si, step in enumerate(steps_list):
                for second in (False, True):
                    if only and (var, k, si, second) != only:
                        continue
                    root = FST(src, 'exec')
                    node = list(root.walk(True))[k]
                    rec = {'case': list(case), 'src': src, 'cls': node.a.__class__.__name__, 'var': var, 'node': k, 'si': si, 'second': second,
                           'op': ('put_line_comment' if kind == 'l' else 'put_docstr') + repr(step) + ('+again' if second else '')}
                    try:
                        for rep in range(2 if second else 1):
                            with FST.options(norm=True):
                                if kind == 'l':
                                    (text, full), fld = step
                                    text2 = text if rep == 0 or text is None else (text + '2' if not full else text + ' 2')
                                    node.put_line_comment(text2, fld, full) if fld else node.put_line_comment(text2, full=full)
                                else:
                                    text, rp = step
                                    node.put_docstr(text if rep == 0 or text is None else text + ' again', rp)
                            d = _judge(root)
                            if d:
                                rec['fail'] = d
                                rec['step'] = rep
                                break
                    except Exception as e:
                        rec['raised'] = type(e).__name__
                    rec['after'] = root.src
                    res.append(rec)
    return res


def cmt_signature(rec):
    cls = 'no-parse' if rec['fail'].startswith('source no longer parses') else ('structure' if rec['fail'].startswith('structure') else 'positions')
    api = 'put_line_comment' if rec['case'][0] == 'l' else 'put_docstr'
    return f"C01|{api}|{rec['cls']}|{rec['case'][1]}{rec['var'][0]}.{rec['node']}.{rec['si']}{'+' if rec['second'] else ''}|{cls}"


def replay_cmt(rec):
    for r in run_cmt_case(tuple(rec['case']), only=(rec['var'], rec['node'], rec['si'], rec['second'])):
        if 'fail' in r:
            return r['fail']
    return None
