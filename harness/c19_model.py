"""C19 helpers: CPython AST <-> JSON of the Lean coercion model (Pfst/Coerce.lean), an independent leaf extractor, and
generators of expression / pattern SOURCE in and around the convertible fragment.  Shares no code with pfst."""

from __future__ import annotations

import ast
import copy

# ---------------------------------------------------------------------------------------------------------------------
# serialisation


def ser_const(v):
    if v is None:
        return ['none']
    if v is True or v is False:
        return ['bool', v]
    if v is Ellipsis:
        return ['ellipsis']
    if isinstance(v, int):
        return ['int', v < 0, repr(v)]
    if isinstance(v, float):
        return ['float', v < 0, repr(v)]
    if isinstance(v, complex):
        if v.real:
            return ['cplx', repr(v)]
        return ['imag', v.imag < 0, repr(v)]
    if isinstance(v, str):
        return ['str', repr(v)]
    if isinstance(v, bytes):
        return ['bytes', repr(v)]
    raise TypeError(type(v))


def _lpar(binop, with_pos):
    """the left operand is parenthesised in source <=> it starts after the BinOp starts"""
    if not with_pos:
        return False
    l = binop.left
    try:
        return (l.lineno, l.col_offset) != (binop.lineno, binop.col_offset)
    except AttributeError:
        return False


def ser_expr(a, with_pos=False):
    """`with_pos`: the tree comes from source (formatted route); the `lpar` annotation is taken from positions."""
    r = lambda x: ser_expr(x, with_pos)  # noqa: E731
    if isinstance(a, ast.Name):
        return ['name', a.id]
    if isinstance(a, ast.Constant):
        return ['const', ser_const(a.value)]
    if isinstance(a, ast.Attribute):
        return ['attr', r(a.value), a.attr]
    if isinstance(a, ast.List):
        return ['list', [r(e) for e in a.elts]]
    if isinstance(a, ast.Tuple):
        return ['tuple', [r(e) for e in a.elts]]
    if isinstance(a, ast.Set):
        return ['set', [r(e) for e in a.elts]]
    if isinstance(a, ast.Starred):
        return ['starred', r(a.value)]
    if isinstance(a, ast.Dict):
        items = []
        for k, v in zip(a.keys, a.values, strict=True):
            items.append(['dstar', r(v)] if k is None else ['kv', r(k), r(v)])
        return ['dict', items]
    if isinstance(a, ast.Call):
        return ['call', r(a.func), [r(e) for e in a.args], [['kw', k.arg, r(k.value)] for k in a.keywords]]
    if isinstance(a, ast.BinOp):
        return ['binop', r(a.left), a.op.__class__.__name__, r(a.right), _lpar(a, with_pos)]
    if isinstance(a, ast.UnaryOp):
        return ['unop', a.op.__class__.__name__, r(a.operand)]
    kids = []
    for f in a._fields:
        v = getattr(a, f, None)
        for x in (v if isinstance(v, list) else [v]):
            if isinstance(x, ast.expr):
                kids.append(r(x))
    return ['other', a.__class__.__name__, kids]


def _delim(a, lines):
    if lines is None:
        return ''
    try:
        ch = lines[a.lineno - 1].encode()[a.col_offset:a.col_offset + 1]
    except Exception:
        return ''
    if ch != b'[':
        return ''
    if a.patterns and (a.patterns[0].lineno, a.patterns[0].col_offset) == (a.lineno, a.col_offset):
        return ''           # bare sequence whose first element starts with `[`
    return '[]'


def ser_pattern(a, lines=None):
    """`lines`: source lines of the tree (formatted route) for the MatchSequence delimiter annotation, else None."""
    r = lambda x: ser_pattern(x, lines)  # noqa: E731
    wp = lines is not None
    if isinstance(a, ast.MatchValue):
        return ['value', ser_expr(a.value, wp)]
    if isinstance(a, ast.MatchSingleton):
        return ['singleton', ser_const(a.value)]
    if isinstance(a, ast.MatchAs):
        if a.pattern is None:
            return ['capture', a.name]
        return ['asPat', r(a.pattern), a.name]
    if isinstance(a, ast.MatchSequence):
        return ['seq', _delim(a, lines), [r(p) for p in a.patterns]]
    if isinstance(a, ast.MatchStar):
        return ['star', a.name]
    if isinstance(a, ast.MatchMapping):
        return ['mapping', [['mkv', ser_expr(k, wp), r(p)] for k, p in zip(a.keys, a.patterns, strict=True)], a.rest]
    if isinstance(a, ast.MatchClass):
        return ['cls', ser_expr(a.cls, wp), [r(p) for p in a.patterns],
                [['pkw', k, r(p)] for k, p in zip(a.kwd_attrs, a.kwd_patterns, strict=True)]]
    if isinstance(a, ast.MatchOr):
        return ['or', [r(p) for p in a.patterns]]
    raise TypeError(a.__class__.__name__)


def strip_annot(j):
    """drop the source annotations (lpar of binop, delim of seq) from a model JSON term: what 'structure' means"""
    if isinstance(j, list):
        if j and j[0] == 'binop' and len(j) == 5:
            return ['binop', strip_annot(j[1]), j[2], strip_annot(j[3]), False]
        if j and j[0] == 'seq' and len(j) == 3:
            return ['seq', '', strip_annot(j[2])]
        return [strip_annot(x) for x in j]
    if isinstance(j, dict):
        return {k: strip_annot(v) for k, v in j.items()}
    return j


def ser_arguments(a, with_pos=False):
    """ast.arguments -> JSON of Pfst.Coerce.Arguments: defaults attached to their parameters the way the code pairs them"""
    def par(p, d=None):
        return [p.arg, ser_expr(p.annotation, with_pos) if p.annotation is not None else None,
                ser_expr(d, with_pos) if d is not None else None]
    pos = list(a.posonlyargs) + list(a.args)
    dfl = [None] * (len(pos) - len(a.defaults)) + list(a.defaults)
    npo = len(a.posonlyargs)
    return {'posonly': [par(p, d) for p, d in zip(pos[:npo], dfl[:npo])],
            'args': [par(p, d) for p, d in zip(pos[npo:], dfl[npo:])],
            'vararg': par(a.vararg) if a.vararg else None,
            'kwonly': [par(p, d) for p, d in zip(a.kwonlyargs, a.kw_defaults)],
            'kwarg': par(a.kwarg) if a.kwarg else None}


def ser_type_params(tps, with_pos=False):
    out = []
    for t in tps:
        if isinstance(t, ast.TypeVar):
            out.append(['tv', t.name, ser_expr(t.bound, with_pos) if t.bound is not None else None])
        elif isinstance(t, ast.TypeVarTuple):
            out.append(['tvt', t.name])
        else:
            out.append(['ps', t.name])
    return out


def ser_node(a, lines=None):
    if isinstance(a, ast.pattern):
        return {'p': ser_pattern(a, lines)}
    return {'e': ser_expr(a, lines is not None)}


def pure(a, positions=True):
    """a deep copy without pfst's `.f` links: what a user's own AST looks like (positions kept unless positions=False)"""
    if isinstance(a, list):
        return [pure(x, positions) for x in a]
    if not isinstance(a, ast.AST):
        return a
    kw = {f: pure(getattr(a, f), positions) for f in a._fields if hasattr(a, f)}
    n = a.__class__(**kw)
    if positions:
        for at in ('lineno', 'col_offset', 'end_lineno', 'end_col_offset'):
            if hasattr(a, at):
                setattr(n, at, getattr(a, at))
    else:
        for at in ('lineno', 'col_offset', 'end_lineno', 'end_col_offset'):
            if at in n.__dict__:
                del n.__dict__[at]
    return n


# ---------------------------------------------------------------------------------------------------------------------
# independent leaf extractor: names and constants in source order


def leaves(a):
    """Names (Name.id, Attribute.attr, keyword.arg, arg.arg, alias names, pattern capture / star / rest / kwd_attrs,
    type parameter names, wildcard as '_') and constants, in source order.  Children are visited in position order when
    every child has a position, else in the order given by the field tables below (keys/values, kwd_attrs/kwd_patterns
    interleaved)."""
    out = []

    def name(s):
        out.append(('n', s))

    def const(v):
        out.append(('c', type(v).__name__, repr(v)))

    def many(xs):
        xs = [x for x in xs if x is not None]
        if all(getattr(x, 'lineno', None) is not None and getattr(x, 'col_offset', None) is not None for x in xs):
            xs = sorted(xs, key=lambda x: (x.lineno, x.col_offset))      # stable
        for x in xs:
            go(x)

    def go(a):
        if a is None:
            return
        if isinstance(a, ast.Name):
            name(a.id)
        elif isinstance(a, ast.Constant):
            const(a.value)
        elif isinstance(a, ast.Attribute):
            go(a.value)
            name(a.attr)
        elif isinstance(a, ast.Dict):
            for k, v in zip(a.keys, a.values):
                go(k)
                go(v)
        elif isinstance(a, ast.Call):
            go(a.func)
            many(list(a.args) + list(a.keywords))
        elif isinstance(a, ast.keyword):
            if a.arg is not None:
                name(a.arg)
            go(a.value)
        elif isinstance(a, ast.arg):
            name(a.arg)
            go(a.annotation)
        elif isinstance(a, ast.arguments):
            pos = list(a.posonlyargs) + list(a.args)
            defaults = [None] * (len(pos) - len(a.defaults)) + list(a.defaults)
            for p, d in zip(pos, defaults):
                go(p)
                go(d)
            go(a.vararg)
            for p, d in zip(a.kwonlyargs, a.kw_defaults):
                go(p)
                go(d)
            go(a.kwarg)
        elif isinstance(a, ast.alias):
            for part in a.name.split('.'):
                name(part)
            if a.asname:
                name(a.asname)
        elif isinstance(a, ast.withitem):
            go(a.context_expr)
            go(a.optional_vars)
        elif isinstance(a, ast.MatchSingleton):
            const(a.value)
        elif isinstance(a, ast.MatchAs):
            go(a.pattern)
            name(a.name if a.name is not None else '_')
        elif isinstance(a, ast.MatchStar):
            name(a.name if a.name is not None else '_')
        elif isinstance(a, ast.MatchMapping):
            for k, p in zip(a.keys, a.patterns):
                go(k)
                go(p)
            if a.rest is not None:
                name(a.rest)
        elif a.__class__.__name__ == '_pattern_attrlikes':
            for p in a.patterns:
                go(p)
            for k, p in zip(a.kwd_attrs, a.kwd_patterns):
                name(k)
                go(p)
        elif isinstance(a, ast.MatchClass):
            go(a.cls)
            for p in a.patterns:
                go(p)
            for k, p in zip(a.kwd_attrs, a.kwd_patterns):
                name(k)
                go(p)
        elif isinstance(a, (ast.TypeVar, ast.ParamSpec, ast.TypeVarTuple)):
            name(a.name)
            go(getattr(a, 'bound', None))
            go(getattr(a, 'default_value', None))
        elif isinstance(a, (ast.expr_context, ast.operator, ast.unaryop, ast.boolop, ast.cmpop)):
            return
        else:
            for f in a._fields:
                v = getattr(a, f, None)
                if isinstance(v, list):
                    for x in v:
                        if isinstance(x, ast.AST):
                            go(x)
                        elif isinstance(x, str) and f in ('names',):      # Global / Nonlocal
                            name(x)
                elif isinstance(v, ast.AST):
                    go(v)
                elif isinstance(v, str) and f in ('name', 'id', 'arg', 'attr', 'module', 'asname'):
                    name(v)

    go(a)
    return out


def leaf_key(l):
    """dotted alias names and Attribute chains both count as their parts; nothing else to normalise"""
    return l


# ---------------------------------------------------------------------------------------------------------------------
# generators (SOURCE text; the trees come from CPython's parser)

NAMES = ['a', 'b', 'c', 'x', 'y', 'cls', '_', 'é', 'größe', '日本']
ATOM_CONSTS = ['0', '1', '42', '1.5', '0.0', "'s'", 'b"by"', '"""t"""', "'ü日'", 'None', 'True', 'False', '...', '2j', '1e3', '0x1F']
VALUE_FORMS = ['-1', '-1.5', '1+2j', '1 - 2j', '-1+2j', '-0.5 - 1.5j', '-2j', '- 1']
BAD_ATOMS = ['a + b', 'a < b', 'a[0]', 'lambda: a', 'f(x)(y)', '+1', '~a', 'not a', 'a if b else c', '1 + 2', '1j + 2', '-a',
             '-(1)', '(-1)+2j', '1+(2j)', 'a @ b', 'f"{a}"', '[a for a in b]', 'a and b', '-True', '1 + -2j', 'x.y()', '_.a',
             '(a).b', 'a.b.c', 'a . b']


class SrcGen:
    """random source of expressions around the fragment `_coerce_to_pattern_ast` converts, with layout variation"""

    def __init__(self, rng, bad=0.08, layout=True):
        self.r = rng
        self.bad = bad
        self.layout = layout

    def ws(self, inside):
        """separator after a comma / inside delimiters"""
        if not self.layout or not inside:
            return ' '
        c = self.r.random()
        if c < 0.75:
            return ' '
        if c < 0.85:
            return ''
        if c < 0.93:
            return '\n  '
        return '  # c\n '

    def name(self):
        return self.r.choice(NAMES)

    def attr(self):
        n = self.r.choice(['a', 'b', 'cls', 'x', '_'] if self.r.random() < 0.15 else ['a', 'b', 'cls', 'x'])
        for _ in range(self.r.randint(1, 3)):
            n += '.' + self.r.choice(['p', 'q', 'a', '_', 'ñ'])
        return n

    def pars(self, s, p=0.12):
        if self.layout and self.r.random() < p and not s.lstrip().startswith('*'):
            return f'({s})' if self.r.random() < 0.8 else f'(\n {s}\n)'
        return s

    def key(self):
        c = self.r.random()
        if c < 0.5:
            return self.r.choice(ATOM_CONSTS)
        if c < 0.7:
            return self.r.choice(VALUE_FORMS)
        if c < 0.85:
            return self.attr()
        if c < 0.93:
            return self.pars(self.r.choice(ATOM_CONSTS + VALUE_FORMS), 1)
        return self.r.choice(['a', 'a | b', 'a.b | c', '(1, 2)', '+1', 'f(x)'])

    def expr(self, d, inside=False):
        r = self.r
        if r.random() < self.bad:
            return self.pars(r.choice(BAD_ATOMS))
        if d <= 0 or r.random() < 0.22:
            c = r.random()
            if c < 0.45:
                s = self.name()
            elif c < 0.75:
                s = r.choice(ATOM_CONSTS)
            elif c < 0.88:
                s = r.choice(VALUE_FORMS)
            else:
                s = self.attr()
            return self.pars(s, 0.08)
        k = r.choice(['list', 'tuple', 'set', 'dict', 'call', 'or', 'or', 'list', 'tuple'])
        if k in ('list', 'tuple', 'set'):
            n = r.choice([0, 1, 2, 2, 3, 3, 5]) if k != 'set' else r.choice([1, 2, 3])
            elts = []
            for _ in range(n):
                if r.random() < 0.15:
                    elts.append('*' + r.choice([self.name(), self.name(), f'({self.name()})', 'a.b', '[a]']))
                else:
                    elts.append(self.expr(d - 1, True))
            body = ''
            for i, e in enumerate(elts):
                body += e + (',' + self.ws(True) if i < n - 1 else '')
            if n and (r.random() < 0.2 or (k == 'tuple' and n == 1)):
                body += ','
            pre = self.ws(True).lstrip(' ') if n and r.random() < 0.2 else ''
            if k == 'list':
                return self.pars(f'[{pre}{body}]', 0.05)
            if k == 'set':
                return self.pars(f'{{{pre}{body}}}', 0.05)
            if n and not inside and r.random() < 0.3 and '\n' not in pre + body:
                return body if n > 1 or body.endswith(',') else body + ','
            return self.pars(f'({pre}{body})', 0.05)
        if k == 'dict':
            n = r.choice([0, 1, 2, 3])
            items = [f'{self.key()}:{self.ws(True)}{self.expr(d - 1, True)}' for _ in range(n)]
            c = r.random()
            if c < 0.35:
                items.append('**' + r.choice(['rest', 'r', 'r', '_', 'a.b', '(r)']))
            elif c < 0.42:
                items.insert(r.randint(0, len(items)), '**r')
                if r.random() < 0.5:
                    items.append('**s')
            return self.pars('{' + (',' + self.ws(True)).join(items) + (',' if items and r.random() < 0.2 else '') + '}', 0.05)
        if k == 'call':
            f = r.choice([self.name(), self.attr(), 'cls', 'cls', 'C', f'({self.name()})', 'f(x)', 'a[0]'])
            na, nk = r.choice([0, 1, 2, 3]), r.choice([0, 0, 1, 2])
            args = []
            for _ in range(na):
                args.append('*' + self.name() if r.random() < 0.06 else self.expr(d - 1, True))
            for i in range(nk):
                args.append('**' + self.name() if r.random() < 0.06 else
                            f'{r.choice(["k", "k", "ключ", "ß"])}{i}{r.choice(["=", " = "])}{self.expr(d - 1, True)}')
            return self.pars(f + '(' + (',' + self.ws(True)).join(args) + (',' if args and r.random() < 0.15 else '') + ')', 0.05)
        # or
        n = r.choice([2, 2, 3, 4])
        parts = [self.expr(d - 1, True) for _ in range(n)]
        s = parts[0]
        for p in parts[1:]:
            op = r.choice(['|', ' | ', ' |\n ' if inside and self.layout else ' | '])
            c = r.random()
            if c < 0.25 and self.layout:
                s = f'({s}){op}{p}'          # parenthesised left operand: the formatted route must not flatten
            elif c < 0.4:
                s = f'{s}{op}({p})'
            else:
                s = f'{s}{op}{p}'
        return self.pars(s, 0.3 if inside else 0.1)


PAT_VALUES = ['0', '1', '42', '1.5', "'s'", 'b"by"', '-1', '-1.5', '1+2j', '1 - 2j', '-1+2j', '-2j', '2j', 'a.b', 'x.p.q',
              'None', 'True', 'False']


class PatGen:
    """random source of patterns (all pattern kinds), with layout variation"""

    def __init__(self, rng, layout=True):
        self.r = rng
        self.layout = layout

    def ws(self):
        if not self.layout:
            return ' '
        c = self.r.random()
        return ' ' if c < 0.8 else ('' if c < 0.88 else ('\n  ' if c < 0.95 else ' # c\n '))

    def pars(self, s, p=0.1):
        if self.layout and self.r.random() < p and not s.lstrip().startswith('*'):
            return f'({s})'
        return s

    def pat(self, d, top=False):
        r = self.r
        if d <= 0 or r.random() < 0.25:
            c = r.random()
            if c < 0.4:
                return self.pars(r.choice(['a', 'b', 'x', 'y', '_', 'é', 'größe', '日本']), 0.06)
            return self.pars(r.choice(PAT_VALUES), 0.06)
        k = r.choice(['seq', 'seq', 'seq', 'map', 'cls', 'or', 'or', 'as'])
        if k == 'seq':
            n = r.choice([0, 1, 2, 2, 3, 4])
            elts = []
            star = False
            for _ in range(n):
                if not star and r.random() < 0.2:
                    elts.append('*' + r.choice(['a', 'rest', '_']))
                    star = True
                else:
                    elts.append(self.pat(d - 1))
            body = (',' + self.ws()).join(elts)
            if n and r.random() < 0.2:
                body += ','
            c = r.random()
            if c < 0.5:
                return f'[{body}]'
            if n == 1 and not body.endswith(','):
                body += ','
            if top and n and c < 0.7 and '\n' not in body:
                return body
            return f'({body})'
        if k == 'map':
            n = r.choice([0, 1, 2, 3])
            keys = r.sample(['0', '1', "'s'", '-1', '1+2j', 'a.b', 'None', 'True', 'b"k"', '2.5'], n)
            items = [f'{kk}:{self.ws()}{self.pat(d - 1)}' for kk in keys]
            if r.random() < 0.4:
                items.append('**' + r.choice(['rest', 'r']))
            return '{' + (',' + self.ws()).join(items) + '}'
        if k == 'cls':
            f = r.choice(['C', 'cls', 'a.B', 'm.n.K'])
            na, nk = r.choice([0, 1, 2, 3]), r.choice([0, 0, 1, 2])
            args = [self.pat(d - 1) for _ in range(na)] + [f'{r.choice(["k", "ключ"])}{i}={self.pat(d - 1)}' for i in range(nk)]
            return f + '(' + (',' + self.ws()).join(args) + (',' if args and r.random() < 0.15 else '') + ')'
        if k == 'or':
            n = r.choice([2, 2, 3, 4])
            parts = []
            for i in range(n):
                p = self.pat(d - 1)
                if r.random() < 0.25:
                    p = f'({p})'
                parts.append(p)
            s = r.choice(['|', ' | ']).join(parts)
            return self.pars(s, 0.3)
        # as
        return self.pars(f'{self.pat(d - 1)} as {r.choice(["n", "m", "é"])}', 1 if not top else 0.5)


def parse_expr_src(src):
    """CPython's tree for an expression source (Starred only inside a sequence)"""
    return ast.parse('(\n' + src + '\n)', mode='eval').body if not _bare_tuple(src) else ast.parse(src, mode='eval').body


def _bare_tuple(src):
    try:
        return isinstance(ast.parse(src, mode='eval').body, ast.Tuple) and not src.lstrip().startswith('(')
    except SyntaxError:
        return False


def parse_pattern_src(src):
    return ast.parse('match _:\n case ' + src.replace('\n', '\n  ') + ': pass').body[0].cases[0].pattern


# pure-AST-only oddities no parser produces
def odd_exprs():
    C, N, L = ast.Constant, ast.Name, ast.Load()
    return [
        C(-1), C(-1.5), C(-0.0), C(1 + 2j), C(-2j), C(complex(0, -1)), C(complex(-0.0, 2)),
        ast.UnaryOp(ast.USub(), C(-1)), ast.UnaryOp(ast.USub(), C(True)), ast.UnaryOp(ast.USub(), C(1 + 2j)),
        ast.UnaryOp(ast.USub(), C('s')), ast.UnaryOp(ast.UAdd(), C(1)),
        ast.BinOp(C(True), ast.Add(), C(2j)), ast.BinOp(C(-1), ast.Add(), C(2j)), ast.BinOp(C(1), ast.Add(), C(-2j)),
        ast.BinOp(C(1), ast.Add(), C(1 + 2j)), ast.BinOp(C(1.5), ast.Sub(), C(2j)), ast.BinOp(C(2j), ast.Add(), C(2j)),
        ast.BinOp(ast.UnaryOp(ast.USub(), C(2j)), ast.Add(), C(2j)), ast.BinOp(ast.UnaryOp(ast.UAdd(), C(1)), ast.Add(), C(2j)),
        ast.BinOp(ast.UnaryOp(ast.USub(), C(-1)), ast.Add(), C(2j)), ast.BinOp(C('s'), ast.Add(), C(2j)),
        ast.BinOp(ast.Starred(N('a', L), L), ast.BitOr(), N('b', L)), ast.BinOp(N('a', L), ast.BitOr(), ast.Starred(N('b', L), L)),
        ast.Dict([N('a', L)], [N('b', L)]), ast.Dict([C(1)], [ast.Starred(N('b', L), L)]),
        ast.Dict([None, C(1)], [N('r', L), N('b', L)]), ast.Dict([None, None], [N('r', L), N('s', L)]),
        ast.Dict([ast.BinOp(N('a', L), ast.BitOr(), N('b', L))], [N('c', L)]),
        ast.Dict([ast.BinOp(C(1), ast.BitOr(), C(2))], [N('c', L)]),
        ast.Dict([C(...)], [N('c', L)]), ast.Dict([ast.Attribute(N('_', L), 'a', L)], [N('c', L)]),
        ast.Call(N('_', L), [], []), ast.Call(ast.Attribute(N('_', L), 'a', L), [], []),
        ast.Call(N('f', L), [ast.Starred(N('a', L), L)], []), ast.Call(N('f', L), [], [ast.keyword(None, N('k', L))]),
        ast.Call(ast.Call(N('f', L), [], []), [], []),
        ast.Starred(N('a', L), L), ast.Starred(N('_', L), L), ast.Starred(ast.Attribute(N('a', L), 'b', L), L),
        ast.Tuple([], L), ast.Set([]), ast.List([ast.Starred(N('a', L), L), ast.Starred(N('b', L), L)], L),
        ast.Attribute(ast.Call(N('f', L), [], []), 'a', L), ast.Attribute(ast.Attribute(N('_', L), 'a', L), 'b', L),
    ]


def odd_patterns():
    C, N, L = ast.Constant, ast.Name, ast.Load()
    MV, MA = ast.MatchValue, ast.MatchAs
    return [
        MV(N('a', L)), MV(ast.List([N('a', L)], L)), MV(ast.Tuple([N('a', L)], L)), MV(ast.Set([N('a', L)])), MV(C(None)), MV(C(-1)),
        ast.MatchOr([]), ast.MatchOr([MA(None, 'a')]), ast.MatchOr([MA(MA(None, 'a'), 'b')]),
        ast.MatchOr([ast.MatchOr([MA(None, 'a'), MA(None, 'b')]), MA(None, 'c')]),
        ast.MatchOr([MA(None, 'a'), ast.MatchOr([MA(None, 'b'), MA(None, 'c')])]),
        ast.MatchSequence([ast.MatchStar(None), ast.MatchStar('a')]),
        ast.MatchMapping([], [], 'r'), ast.MatchMapping([C(1)], [MA(None, None)], None),
        ast.MatchMapping([C(1)], [MA(MA(None, 'x'), 'y')], 'r'),
        ast.MatchClass(N('C', L), [MA(MA(None, 'x'), 'y')], [], []), ast.MatchClass(N('C', L), [], ['k'], [MA(MA(None, 'x'), 'y')]),
        ast.MatchClass(ast.Call(N('f', L), [], []), [], [], []),
        MA(None, None), MA(None, '_'), ast.MatchStar(None), ast.MatchStar('_'), ast.MatchSingleton(None), ast.MatchSingleton(True),
        ast.MatchSingleton(1), ast.MatchSequence([]),
    ]


# ---------------------------------------------------------------------------------------------------------------------
# element-class shapes of the container kinds: every positional class alone, every ordered pair, all together, with the
# name `_` in every position


MB_NAMES = ['größe', '日本', 'ñ', 'ключ']        # 2-, 3-byte characters; byte length != character length


def _combos(classes, sep=', ', free_order=False, wrap=('', ''), names_us=True, last_sep=''):
    """classes: [(label, template)] in canonical source order; `{n}` in a template is the element's own name.
    Returns source strings: singles, ordered pairs (both orders if free_order), all; and the same with `_` as the name of
    one element."""
    out = []

    def render(idxs, us=None, mb=None):
        parts = []
        for k, i in enumerate(idxs):
            nm = '_' if us == k else 'abcdefghij'[i] + 'x'
            if mb == 'all' or mb == k:
                nm = MB_NAMES[(i + k) % len(MB_NAMES)]
            parts.append(classes[i][1].replace('{n}', nm))
        return wrap[0] + sep.join(parts) + (last_sep if parts else '') + wrap[1]

    n = len(classes)
    sel = [[i] for i in range(n)]
    for i in range(n):
        for j in range(n):
            if i < j or (free_order and i != j):
                sel.append([i, j])
    sel.append(list(range(n)))
    if n > 3:
        sel.append(list(range(0, n, 2)))
        sel.append(list(range(1, n, 2)))
    for idxs in sel:
        out.append(render(idxs))
        if names_us:
            for k in range(len(idxs)):
                if '{n}' in classes[idxs[k]][1] and (len(idxs) <= 2 or k in (0, len(idxs) - 1)):
                    out.append(render(idxs, k))
    # multi-byte identifiers (appended last: the indices of the shapes above are part of recorded signatures): one element with
    # a non-ASCII name (in first position it is multi-byte text BEFORE the other elements on the line), and all of them
    for idxs in sel:
        for k in range(len(idxs)):
            if '{n}' in classes[idxs[k]][1] and (len(idxs) <= 2 or k in (0, len(idxs) - 1)):
                out.append(render(idxs, mb=k))
        if len(idxs) > 1:
            out.append(render(idxs, mb='all'))
    seen = set()
    return [s for s in out if not (s in seen or seen.add(s))]


def _orders(classes, sizes=(3, 4, 5)):
    """every ORDER of 3..5 elements drawn from the classes, the first class (plain positional / bare name) up to twice: e.g.
    positional, *star, bare-after-star, keyword-after-star, **kw in every arrangement (invalid ones are skipped by the evaluator)"""
    import itertools
    n = len(classes)
    pool = [0] + list(range(n))
    out = []
    seen = set()
    for k in sizes:
        for idxs in itertools.permutations(range(len(pool)), k):
            sel = tuple(pool[i] for i in idxs)
            if sel in seen:
                continue
            seen.add(sel)
            out.append(', '.join(classes[c][1].replace('{n}', 'abcdefghij'[j] + 'y') for j, c in enumerate(sel)))
    return out


def _arguments_shapes():
    """posonly / plain / plain=default / *vararg / kwonly / kwonly=default / **kwarg; a bare `*` is inserted when keyword-only
    parameters come without a vararg"""
    cl = [('posonly', '{n}, /'), ('plain', '{n}'), ('plain_default', '{n}=1'), ('vararg', '*{n}'), ('kwonly', '{n}'),
          ('kwonly_default', '{n}=2'), ('kwarg', '**{n}')]
    out = []
    n = len(cl)
    sel = [[i] for i in range(n)] + [[i, j] for i in range(n) for j in range(i + 1, n)] + [list(range(n)), [1, 3, 4], [1, 3, 4, 6],
                                                                                          [1, 1, 3, 4, 4], [0, 1, 3, 5, 6], [3, 4, 4]]
    variants = [(idxs, us, None) for idxs in sel for us in [None] + list(range(len(idxs)))]
    # multi-byte names, appended last (indices of the shapes above are part of recorded signatures)
    variants += [(idxs, None, mb) for idxs in sel for mb in list(range(len(idxs))) + (['all'] if len(idxs) > 1 else [])
                 if mb == 'all' or len(idxs) <= 2 or mb in (0, len(idxs) - 1)]
    for idxs, us, mb in variants:
        if True:
            parts = []
            star = False
            for k, i in enumerate(idxs):
                nm = '_' if us == k else 'abcdefghij'[k] + 'x'
                if mb == 'all' or mb == k:
                    nm = MB_NAMES[(i + k) % len(MB_NAMES)] + ('' if mb != 'all' else str(k))
                if i == 3:
                    star = True
                if i in (4, 5) and not star:
                    parts.append('*')
                    star = True
                parts.append(cl[i][1].replace('{n}', nm))
            out.append(', '.join(parts))
    out[len([v for v in variants if v[2] is None]):len([v for v in variants if v[2] is None])] = \
        ['a: int', 'a: int, *b, c: str, **d', '*a: int', '**k: int', 'a: int = 1', 'a, b: c.d, *, e: f = g']
    out += ['größe: int', 'ñ: 日本 = "ü"', "é='日本', *ключ, größe: ñ.ü = 'ß', **ü"]
    seen = set()
    return [s for s in out if not (s in seen or seen.add(s))]


def container_shapes():
    """kind -> (parse mode, [sources]); sources that do not parse in the mode are skipped by the evaluator"""
    elt = [('name', '{n}'), ('const', '1'), ('starred', '*{n}'), ('seq', '[{n}, 2]'), ('call', 'f({n})'), ('attr', '{n}.b'),
           ('dict', '{1: {n}}'), ('paren', '({n})')]
    al = [('pos', '{n}'), ('starred', '*{n}'), ('kw', '{n}=v'), ('dstar', '**{n}'), ('posseq', '[{n}, 1]')]
    pa = [('capture', '{n}'), ('value', '1'), ('seq', '[{n}, 2]'), ('cls', 'C({n})'), ('kw', '{n}=p'), ('kw2', 'z=[{n}]')]
    d = {
        'arguments': ('arguments', _arguments_shapes()),
        '_type_params': ('_type_params', _combos([('tv', '{n}'), ('bound', '{n}: int'), ('tvt', '*{n}'), ('ps', '**{n}')], free_order=True)),
        '_arglikes': ('_arglikes', _combos(al, free_order=True) + _orders(al[:4])),
        'Call': ('Call', _combos(al, free_order=True, wrap=('f(', ')')) + ['f(' + x + ')' for x in _orders(al[:4])]),
        '_aliases': ('_aliases', _combos([('plain', '{n}'), ('dotted', '{n}.b'), ('as', 'm as {n}'), ('dotted_as', 'm.o as {n}')], free_order=True)),
        '_withitems': ('_withitems', _combos([('plain', '{n}'), ('as', 'f(1) as {n}'), ('call', 'f({n})'), ('as_tuple', 'g as ({n}, q)'),
                                              ('as_attr', 'h as {n}.a')])),
        '_decorator_list': ('_decorator_list', _combos([('name', '@{n}'), ('attr', '@{n}.b'), ('call', '@c({n})'), ('callkw', '@c(k={n})')],
                                                       sep='\n', free_order=True)),
        '_Assign_targets': ('_Assign_targets', _combos([('name', '{n}'), ('attr', '{n}.b'), ('sub', '{n}[0]'), ('tuple', '{n}, q'),
                                                        ('star', '*{n}, r'), ('list', '[{n}, s]')], sep=' = ', last_sep=' =')),
        '_comprehension_ifs': ('_comprehension_ifs', _combos([('name', 'if {n}'), ('cmp', 'if {n} < 1'), ('call', 'if f({n})'),
                                                              ('paren', 'if ({n})')], sep=' ', free_order=True)),
        '_pattern_attrlikes': ('_pattern_attrlikes', _combos(pa)),
        'MatchClass': ('pattern', _combos(pa, wrap=('C(', ')'))),
        'MatchSequence': ('pattern', _combos([('capture', '{n}'), ('value', '1'), ('star', '*{n}'), ('seq', '[{n}, 2]'), ('map', '{1: {n}}'),
                                              ('cls', 'C({n})'), ('or', '{n}x | 2')], wrap=('[', ']'))),
        'MatchMapping': ('pattern', _combos([('const', '1: {n}'), ('attr', 'a.b: [{n}]'), ('neg', '-1: C({n})'), ('rest', '**{n}')], wrap=('{', '}'))),
        'List': ('List', _combos(elt, wrap=('[', ']'))),
        'Tuple': ('Tuple', _combos(elt, wrap=('(', ')'), last_sep=',')),
        'Set': ('Set', _combos(elt[:6], wrap=('{', '}'))),
        'Dict': ('Dict', _combos([('const', '1: {n}'), ('attr', 'a.b: [{n}]'), ('neg', '-1: f({n})'), ('name', 'k: {n}'), ('rest', '**{n}')],
                                 wrap=('{', '}'))),
    }
    return d


# ---------------------------------------------------------------------------------------------------------------------
# multi-byte variant of any operand source: every identifier gets a non-ASCII character, every plain string too

import io
import keyword as _kw
import tokenize as _tok

_KEEP = set(_kw.kwlist) | {'_', 'match', 'case', 'type'}


def mb_variant(src):
    """the same source with every identifier `x` renamed `xñ` (consistently) and `ü` appended inside every plain string
    literal, so that byte offsets differ from character offsets everywhere; None if nothing changes or tokenizing fails"""
    try:
        toks = list(_tok.generate_tokens(io.StringIO(src).readline))
    except Exception:
        return None
    lines = src.split('\n')
    edits = []
    for t in toks:
        if t.type == _tok.NAME and t.string not in _KEEP and t.string.isascii():
            edits.append((t.end[0] - 1, t.end[1], 'ñ'))
        elif t.type == _tok.STRING and t.string[0] in '\'"' and not t.string.startswith(('"""', "'''")) and t.start[0] == t.end[0]:
            edits.append((t.end[0] - 1, t.end[1] - 1, 'ü'))
    if not edits:
        return None
    for ln, col, ins in sorted(edits, reverse=True):
        if ln < len(lines):
            lines[ln] = lines[ln][:col] + ins + lines[ln][col:]
    return '\n'.join(lines)


_BREAK_AFTER = {'+', '-', '*', '/', '//', '%', '@', '|', '&', '^', '<<', '>>', '<', '>', '<=', '>=', '==', '!=', 'and', 'or', 'in', 'is',
                'if', 'else', ',', 'not', ':=', 'as'}


def ml_variant(src):
    """the same source broken over two physical lines at its first operator OUTSIDE any bracket (after a binary operator /
    keyword operator / comma, before a `.`): an operand that is only valid where something encloses it.  None if there is no
    such place, the source is already multi-line, or tokenizing fails."""
    if '\n' in src or not src.strip():
        return None
    try:
        toks = list(_tok.generate_tokens(io.StringIO(src).readline))
    except Exception:
        return None
    depth = 0
    seen = False
    for i, t in enumerate(toks):
        if t.type in (_tok.NEWLINE, _tok.NL, _tok.ENDMARKER, _tok.INDENT, _tok.DEDENT, _tok.COMMENT):
            continue
        if t.type == _tok.OP and t.string in '([{':
            depth += 1
        elif t.type == _tok.OP and t.string in ')]}':
            depth -= 1
        elif depth == 0 and seen:
            if t.string == '.' and t.type == _tok.OP:
                return src[:t.start[1]] + '\n' + src[t.start[1]:]
            if t.string in _BREAK_AFTER and (t.type == _tok.OP or t.type == _tok.NAME):
                nxt = next((u for u in toks[i + 1:] if u.type not in (_tok.NEWLINE, _tok.NL, _tok.ENDMARKER, _tok.COMMENT)), None)
                if nxt is None:
                    return None         # trailing comma etc.
                return src[:t.end[1]] + '\n' + src[t.end[1]:].lstrip(' ')
        seen = True
    return None


def trivia_variant(src):
    """the same source with something OUTSIDE the node's own location: a leading comment line, a trailing line comment and a
    trailing comment line (what a node cut out of a file, or written by hand, carries around)"""
    if not src.strip():
        return None
    return '# pre\n' + src + '  # line\n# post'
