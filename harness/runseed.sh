#!/bin/bash
# runseed.sh <seed-id> <check ids...>   run checks against a scratch copy of /repo/src with a stored seeded change applied
# (run from any /verif worktree; seeds are read from /verif/seeded).  VERIF_SEED and --tier pass through via TIER env.
set -u
ID=$1; shift
P=/verif/seeded/$ID/patch.diff
[ -f $P ] || { echo "no such seed $ID"; exit 2; }
S=/var/tmp/seedrun-$$; rm -rf $S; mkdir -p $S; cp -r /repo/src $S/src
patch -s -p1 -d $S < $P || { echo "DOES NOT APPLY TO COPY"; rm -rf $S; exit 2; }
for c in "$@"; do echo "== check $c on copy with $ID"; PFST_REPO=$S VERIF_EVIDENCE_DIR=$S/evidence ./check $c --tier ${TIER:-quick} 2>&1 | grep -E "VIOLATION|HELD|VIOLATED|BROKEN" | head -4; done
rm -rf $S
