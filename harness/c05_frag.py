"""C05 oracle side: fragments of every parse-mode category cut out of CPython-parsed programs, expected sub-trees
rebased to the fragment, layout variants, and the CPython-judged validity gates.  Shares no code with pfst.

Coordinates: lines 1-based, columns in UTF-8 BYTES (as CPython's col_offset) everywhere in this module.
"""

from __future__ import annotations

import ast
import copy
import io
import tokenize

SKIP_TOK = {tokenize.NL, tokenize.COMMENT, tokenize.NEWLINE, tokenize.INDENT, tokenize.DEDENT, tokenize.ENDMARKER}
OPEN, CLOSE = '([{', ')]}'


# ---------------------------------------------------------------------------------------------------------------------
# balance (CPython's tokenizer is the judge)

def balanced(text: str) -> bool:
    """True iff in '(' NL text NL ')' the first '(' is matched by the last ')' according to CPython's tokenizer (brackets
    in strings/comments do not count); any tokenizer error -> False."""
    src = '(\n' + text + '\n)'
    try:
        toks = [t for t in tokenize.generate_tokens(io.StringIO(src).readline) if t.type == tokenize.OP and len(t.string) == 1
                and t.string in OPEN + CLOSE]
    except Exception:
        return False
    if not toks or toks[0].start != (1, 0):
        return False
    stack = []
    last = None
    for k, t in enumerate(toks):
        if t.string in OPEN:
            stack.append(k)
        else:
            if not stack:
                return False
            o = stack.pop()
            if OPEN.index(toks[o].string) != CLOSE.index(t.string):
                return False
            if o == 0:
                last = k
    return not stack and last == len(toks) - 1 and toks[-1].start[0] == src.count('\n') + 1


REDOS_GUARD = True      # switched off by the harness when the timing probe shows that the tree under test is repaired (C05-F7)


def redos_risk(text: str, limit=14) -> bool:
    """pfst's _re_trailing_comma/_re_trailing_semicolon backtrack exponentially in the length of a run of blanks / newlines /
    ')' / line continuations / comment lines that follows a node and is not followed by the separator (finding C05-F7); such
    a run at the end of the text would hang the harness (the regex engine cannot be interrupted) -> the caller skips it."""
    if not REDOS_GUARD:
        return False
    t = text
    n = 0
    while True:
        t2 = t.rstrip(') \t\n\r\f\v\\')
        n += len(t) - len(t2)
        t = t2
        i = t.rfind('\n')
        last = t[i + 1:]
        if last.lstrip().startswith('#'):
            t = t[:i + 1] + last[:len(last) - len(last.lstrip())]
            n += 1
            continue
        j = last.find('#')
        if j > 0 and last[:j].rstrip() != last[:j]:
            t = t[:i + 1] + last[:j]
            n += 1
            continue
        break
    return n >= limit


# ---------------------------------------------------------------------------------------------------------------------
# program index

class Prog:
    def __init__(self, src):
        self.src = src
        self.lines = src.split('\n')
        self.bl = [l.encode() for l in self.lines]
        self.tree = ast.parse(src)
        sig = []
        self.strlines = set()       # lines that are continuation lines of a multi-line string token
        for t in tokenize.generate_tokens(io.StringIO(src).readline):
            if t.type in SKIP_TOK:
                continue
            (sl, sc), (el, ec) = t.start, t.end
            if el > sl and t.type != tokenize.OP:
                self.strlines.update(range(sl + 1, el + 1))
            sig.append((sl, len(self.lines[sl - 1][:sc].encode()), el, len(self.lines[el - 1][:ec].encode()), t.string, t.type))
        self.sig = sig
        self.by_start = {(t[0], t[1]): i for i, t in enumerate(sig)}
        self.by_end = {(t[2], t[3]): i for i, t in enumerate(sig)}
        self.match = {}
        st = []
        for i, t in enumerate(sig):
            if t[5] == tokenize.OP and len(t[4]) == 1:
                if t[4] in OPEN:
                    st.append(i)
                elif t[4] in CLOSE and st:
                    o = st.pop()
                    self.match[o] = i
                    self.match[i] = o

    def text(self, s, e):
        (l0, c0), (l1, c1) = s, e
        if l0 == l1:
            return self.bl[l0 - 1][c0:c1].decode()
        return '\n'.join([self.bl[l0 - 1][c0:].decode()] + self.lines[l0:l1 - 1] + [self.bl[l1 - 1][:c1].decode()])

    def tstart(self, i):
        return (self.sig[i][0], self.sig[i][1])

    def tend(self, i):
        return (self.sig[i][2], self.sig[i][3])

    def tstr(self, i):
        return self.sig[i][4] if 0 <= i < len(self.sig) else ''

    def grow(self, s, e, maxlevels=2):
        """[(s, e)] the span and the spans grown over directly enclosing matching parentheses"""
        out = [(s, e)]
        i, j = self.by_start.get(s), self.by_end.get(e)
        if i is None or j is None:
            return out
        for _ in range(maxlevels):
            if i > 0 and j + 1 < len(self.sig) and self.tstr(i - 1) == '(' and self.tstr(j + 1) == ')' and self.match.get(i - 1) == j + 1:
                i -= 1
                j += 1
                out.append((self.tstart(i), self.tend(j)))
            else:
                break
        return out

    def back_over_parens(self, s):
        """token index of the first token before `s` that is not '(' (s must be a token start), or None"""
        i = self.by_start.get(s)
        if i is None:
            return None
        i -= 1
        while i >= 0 and self.tstr(i) == '(':
            i -= 1
        return i if i >= 0 else None

    def fwd_over_parens(self, e):
        j = self.by_end.get(e)
        if j is None:
            return None
        j += 1
        while j < len(self.sig) and self.tstr(j) == ')':
            j += 1
        return j if j < len(self.sig) else None

    def end_balanced(self, s, e, maxlevels=6):
        """extend `e` over following closing delimiters until the text is balanced; None if impossible"""
        j = self.by_end.get(e)
        if j is None:
            return None
        for _ in range(maxlevels):
            if balanced(self.text(s, self.tend(j))):
                return self.tend(j)
            if j + 1 < len(self.sig) and self.tstr(j + 1) in (')', ']', '}'):
                j += 1
            else:
                return None
        return None

    def inner(self, i):
        """text region strictly inside the delimiter pair opened by token i"""
        return self.tend(i), self.tstart(self.match[i])


def span(n):
    return (n.lineno, n.col_offset), (n.end_lineno, n.end_col_offset)


# ---------------------------------------------------------------------------------------------------------------------
# rebasing (plain Python): lines minus start line, first-line byte columns minus start column

def rebase(node, l0, c0, dedent=0, dl=0, dc1=0, nodedent=()):
    """deep copy of `node` with positions made relative to a fragment starting at (l0, c0); other lines lose `dedent`
    bytes of indentation; then the layout variant moves every line down by `dl` and the first line right by `dc1`."""
    n = copy.deepcopy(node)
    for a in ast.walk(n):
        if getattr(a, 'end_lineno', None) is not None and hasattr(a, 'lineno'):
            ln, el = a.lineno, a.end_lineno
            a.col_offset = a.col_offset - (c0 if ln == l0 else 0 if ln in nodedent else dedent) + (dc1 if ln == l0 else 0)
            a.end_col_offset = a.end_col_offset - (c0 if el == l0 else 0 if el in nodedent else dedent) + (dc1 if el == l0 else 0)
            a.lineno = ln - l0 + 1 + dl
            a.end_lineno = el - l0 + 1 + dl
    return n


def whole_loc(text):
    return [1, 0, 1 + text.count('\n'), len(text.rsplit('\n', 1)[-1].encode())]


def dump(n, attrs=True):
    if isinstance(n, ast.AST):
        return ast.dump(n, include_attributes=attrs)
    return repr(n)


# ---------------------------------------------------------------------------------------------------------------------
# gates: is `text` a valid fragment of the mode's category?  Embed in the genuine construct, ask CPython.
# each gate returns a list of result nodes (structure) or None.  `must` gates: pfst has to accept and agree;
# `may` gates: pfst may accept (documented liberality / enclosed forms) - used only to decide "certainly invalid".

def _blank(T):
    """no significant token in T (empty, blanks, comments, lone line continuations)"""
    try:
        toks = [t for t in tokenize.generate_tokens(io.StringIO('(\n' + T + '\n)').readline) if t.type not in SKIP_TOK]
    except Exception:
        return False
    return len(toks) == 2


def _p(src, mode='exec'):
    if src.endswith('\\\n'):       # documented normalisation of parsex._ast_parse: a trailing line continuation gets its newline
        src += '\n'
    try:
        return ast.parse(src, mode=mode)
    except (SyntaxError, ValueError, RecursionError, MemoryError):
        return None


def _lone_star_tuple(t):
    return (isinstance(t, ast.Tuple) and len(t.elts) == 1 and isinstance(t.elts[0], ast.Starred)
            and (t.elts[0].end_lineno, t.elts[0].end_col_offset) == (t.end_lineno, t.end_col_offset))


def g_expr(T):
    m = _p('(\n' + T + '\n)', 'eval')
    if m is not None:
        b = m.body
        if b.lineno == 1:       # merged with the parentheses: only an unparenthesized non-empty tuple is the fragment itself
            if isinstance(b, ast.Tuple) and b.elts:
                return [b]
            return None
        return [b]
    m = _p('[\n' + T + '\n]', 'eval')
    if m is not None and isinstance(m.body, ast.List) and len(m.body.elts) == 1 and isinstance(m.body.elts[0], ast.Starred) \
            and m.body.lineno == 1 and m.body.elts[0].lineno > 1:
        e = m.body.elts[0]
        # `*a,` would also land here with a single element: a trailing comma makes it a tuple, not a lone starred
        t = _p('x[\n' + T + '\n]', 'eval')
        if t is not None and isinstance(t.body.slice, ast.Tuple) and not _lone_star_tuple(t.body.slice):
            return [t.body.slice]
        return [e]
    return None


def _call(T, extra='', sole_genexp_ok=False):
    m = _p('f(\n' + T + '\n' + extra + ')', 'eval')
    if m is None or not isinstance(m.body, ast.Call) or not isinstance(m.body.func, ast.Name) or m.body.func.lineno != 1 \
            or m.body.end_lineno != T.count('\n') + 3:
        return None
    c = m.body
    items = sorted(c.args + c.keywords, key=lambda n: (n.lineno, n.col_offset))
    if any(n.lineno == 1 for n in items):
        # sole-argument generator expression: valid argument list for CPython, the node takes the call's own parentheses
        # (its span is not inside the fragment); reported as it is, callers that need a span inside the text check `lineno`
        if not (sole_genexp_ok and len(items) == 1 and isinstance(items[0], ast.GeneratorExp)):
            return None
    return items


def g_arglikes(T):
    return _call(T)


def g_arglikes_genexp(T):
    return _call(T, sole_genexp_ok=True)


def g_arglike_strict(T):
    r = _call(T, ', **_')
    return r[:-1] if r is not None and len(r) == 2 else None


def g_arglike_loose(T):
    r = _call(T)
    return r if r is not None and len(r) == 1 else None


def g_expr_arglike(T):
    r = g_arglike_strict(T)
    return r if r and not isinstance(r[0], ast.keyword) else None


def g_expr_arglike_loose(T):
    r = g_arglike_loose(T)
    return r if r and not isinstance(r[0], ast.keyword) else None


def g_keyword(T):
    r = g_arglike_strict(T)
    return r if r and isinstance(r[0], ast.keyword) else None


def g_keyword_loose(T):
    r = g_arglike_loose(T)
    return r if r and isinstance(r[0], ast.keyword) else None


def g_slice(T):
    m = _p('x[\n' + T + '\n]', 'eval')
    if m is None or not isinstance(m.body, ast.Subscript) or m.body.value.lineno != 1 or not isinstance(m.body.value, ast.Name) \
            or m.body.end_lineno != T.count('\n') + 3:
        return None
    return [m.body.slice]


def g_expr_all(T):
    r = g_slice(T)
    if r is not None:
        return [r[0].elts[0]] if _lone_star_tuple(r[0]) else r
    return g_expr_arglike_loose(T)


def g_tuple_elt(T):
    r = g_expr_all(T)
    if r is not None and isinstance(r[0], ast.Tuple) and g_expr(T) is None:
        return None     # documented: Tuples are parsed but cannot contain Slices or arglike expressions
    return r


def g_tuple(T):
    r = g_slice(T)
    if r is None or not isinstance(r[0], ast.Tuple) or _lone_star_tuple(r[0]):
        return None
    return r


def _ends_eq(T):
    try:
        toks = [t for t in tokenize.generate_tokens(io.StringIO('(\n' + T + '\n)').readline) if t.type not in SKIP_TOK]
    except Exception:
        return False
    return len(toks) >= 3 and toks[-2].string == '='


def g_assign_targets(T):
    if _blank(T):
        return [] if '#' not in T else None    # a statement head: comments cannot be inside it
    if not _ends_eq(T):
        return None     # the implementation (and its tests) require the trailing '='; the Mode docstring calls it optional
    m = _p('_ = ' + T + ' _')
    if m is None or len(m.body) != 1 or not isinstance(m.body[0], ast.Assign) or not isinstance(m.body[0].value, ast.Name) \
            or m.body[0].value.id != '_' or m.body[0].value.lineno != T.count('\n') + 1:
        return None
    return m.body[0].targets[1:]


def g_decorators(T):
    if _blank(T):
        return []
    m = _p(T + '\nclass c: pass')
    if m is None or len(m.body) != 1 or not isinstance(m.body[0], ast.ClassDef) or m.body[0].name != 'c' or m.body[0].bases:
        return None
    return m.body[0].decorator_list


def g_comprehensions(T):
    if _blank(T):
        return []
    m = _p('[_ \n' + T + '\n]', 'eval')
    if m is None or not isinstance(m.body, ast.ListComp) or not isinstance(m.body.elt, ast.Name) or m.body.elt.lineno != 1 \
            or m.body.end_lineno != T.count('\n') + 3:
        return None
    return m.body.generators


def g_comprehension(T):
    r = g_comprehensions(T)
    return r if r is not None and len(r) == 1 else None


def g_comprehension_ifs(T):
    m = _p('[_ for _ in _ \n' + T + '\n]', 'eval')
    if m is None or not isinstance(m.body, ast.ListComp) or len(m.body.generators) != 1 \
            or m.body.end_lineno != T.count('\n') + 3:
        return None
    g = m.body.generators[0]
    if not isinstance(g.iter, ast.Name) or g.iter.lineno != 1:
        return None
    return g.ifs


def g_arguments(T):
    m = _p('def f(\n' + T + '\n): pass')
    if m is None or len(m.body) != 1 or not isinstance(m.body[0], ast.FunctionDef) or m.body[0].returns is not None \
            or len(m.body[0].body) != 1 or not isinstance(m.body[0].body[0], ast.Pass) or m.body[0].body[0].lineno != T.count('\n') + 3:
        return None
    return [m.body[0].args]


def g_arguments_lambda(T):
    m = _p('(lambda \n' + T + '\n: None)', 'eval')
    if m is None or not isinstance(m.body, ast.Lambda) or not isinstance(m.body.body, ast.Constant) or m.body.body.value is not None \
            or m.body.body.lineno != T.count('\n') + 3:
        return None
    return [m.body.args]


def _only(args, field):
    for f in ('posonlyargs', 'args', 'vararg', 'kwonlyargs', 'kw_defaults', 'kwarg', 'defaults'):
        v = getattr(args, f)
        if f == field:
            continue
        if v:
            return False
    return True


def g_arg(T):
    r = g_arguments(T + '\n, **_')
    if r is not None and r[0].kwarg and r[0].kwarg.arg == '_' and len(r[0].args) == 1 and not r[0].defaults and not r[0].posonlyargs \
            and not r[0].vararg and not r[0].kwonlyargs:
        return [r[0].args[0]]
    r = g_arguments('*' + T) if not T.lstrip().startswith(('#', '\n')) else None
    r2 = _p('def f(*\n' + T + '\n, **_): pass')
    if r2 is not None and len(r2.body) == 1 and isinstance(r2.body[0], ast.FunctionDef):
        a = r2.body[0].args
        if a.vararg and a.kwarg and a.kwarg.arg == '_' and not (a.posonlyargs or a.args or a.kwonlyargs or a.defaults or a.kw_defaults) \
                and r2.body[0].returns is None:
            return [a.vararg]
    return None


def g_arg_loose(T):
    r = g_arguments(T)
    if r is not None and len(r[0].args) == 1 and _only(r[0], 'args'):
        return [r[0].args[0]]
    return None


def _imp(src, cls):
    m = _p(src)
    if m is None or len(m.body) != 1 or not isinstance(m.body[0], cls):
        return None
    return m.body[0].names


def g_import_names(T):
    if _blank(T):
        return []
    if '\n' in T or ';' in T:
        r = None
    else:
        r = _imp('import ' + T, ast.Import)
    return r


def _lcont(T):
    import re
    return re.sub(r'(?<!\\)\n', '\\\\\n', T)


def g_import_names_loose(T):
    m = _p('import \\\n' + T)
    if m is None:
        m = _p('import \\\n' + _lcont(T))
    if m is None or len(m.body) != 1 or not isinstance(m.body[0], ast.Import) or _semi(T):
        return None
    return m.body[0].names


def _semi(T):
    try:
        return any(t.type == tokenize.OP and t.string == ';' for t in tokenize.generate_tokens(io.StringIO('(\n' + T + '\n)').readline))
    except Exception:
        return True


def g_importfrom_names(T):
    if _blank(T):
        return []
    if '\n' in T or _semi(T):
        return None
    r = _imp('from . import ' + T, ast.ImportFrom)
    if r is None:
        return None
    if _imp('from . import (' + T + ')', ast.ImportFrom) is None and not (len(r) == 1 and r[0].name == '*'):
        return None     # own parentheses in T
    return r


def _first_tok(T):
    try:
        toks = [t for t in tokenize.generate_tokens(io.StringIO('(\n' + T + '\n)').readline) if t.type not in SKIP_TOK]
    except Exception:
        return None
    return toks[1].string if len(toks) > 2 else None


def g_importfrom_names_loose(T):
    if _semi(T) or _first_tok(T) == '(':      # parentheses belong to the ImportFrom statement, never to the names
        return None
    r = _imp('from . import (\n' + T + '\n)', ast.ImportFrom)
    if r is None:
        m = _p('from . import \\\n' + T) or _p('from . import \\\n' + _lcont(T))
        if m is not None and len(m.body) == 1 and isinstance(m.body[0], ast.ImportFrom):
            r = m.body[0].names
    return r


def _one(g):
    def f(T):
        r = g(T)
        return r if r is not None and len(r) == 1 else None
    return f


def g_aliases(T):
    return g_import_names(T) if g_import_names(T) is not None else g_importfrom_names(T)


def g_aliases_loose(T):
    return g_import_names_loose(T) if g_import_names_loose(T) is not None else g_importfrom_names_loose(T)


def _with(T, extra):
    m = _p('with (\n' + T + '\n' + extra + '): pass')
    if m is None or len(m.body) != 1 or not isinstance(m.body[0], ast.With) or len(m.body[0].body) != 1 \
            or m.body[0].body[0].lineno != T.count('\n') + 3:
        return None
    items = m.body[0].items
    if any(i.context_expr.lineno == 1 for i in items):
        return None
    return items


def g_withitems(T):
    if _blank(T):
        return []
    r = _with(T, ', _ as _')
    if r is None:
        r = _with(T, '_ as _')      # T ends with its own trailing comma
    return r[:-1] if r is not None and len(r) >= 2 else None


def g_withitems_loose(T):
    r = _with(T, '')
    if r is None and _p('with (\n' + T + '\n): pass') is not None and g_expr(T) is not None and isinstance(g_expr(T)[0], ast.Tuple) \
            and not g_expr(T)[0].elts:
        return []
    return r


def _case(src):
    m = _p(src)
    if m is None or len(m.body) != 1 or not isinstance(m.body[0], ast.Match) or len(m.body[0].cases) != 1:
        return None
    c = m.body[0].cases[0]
    if c.guard is not None or len(c.body) != 1 or not isinstance(c.body[0], ast.Pass):
        return None
    return c


def g_pattern(T):
    c = _case('match _:\n case (\n' + T + '\n): pass')
    if c is not None and c.body[0].lineno == T.count('\n') + 4:
        p = c.pattern
        if p.lineno == 2:
            if isinstance(p, ast.MatchSequence) and p.patterns:
                return [p]
            return None
        return [p]
    c = _case('match _:\n case [\n' + T + '\n]: pass')
    if c is not None and isinstance(c.pattern, ast.MatchSequence) and c.pattern.lineno == 2 and len(c.pattern.patterns) == 1 \
            and isinstance(c.pattern.patterns[0], ast.MatchStar) and c.body[0].lineno == T.count('\n') + 4:
        q = _case('match _:\n case [\n' + T + '\n, _]: pass')     # no trailing comma of its own
        if q is not None:
            return [c.pattern.patterns[0]]
    return None


def g_pattern_attrlikes(T):
    c = _case('match _:\n case c(\n' + T + '\n): pass')
    if c is None or not isinstance(c.pattern, ast.MatchClass) or c.pattern.lineno != 2 or c.body[0].lineno != T.count('\n') + 4 \
            or not isinstance(c.pattern.cls, ast.Name):
        return None
    p = c.pattern
    return [('patterns', p.patterns), ('kwd_attrs', p.kwd_attrs), ('kwd_patterns', p.kwd_patterns)]


def _tp(T, extra):
    m = _p('type t[\n' + T + '\n' + extra + '] = None')
    if m is None or len(m.body) != 1 or not isinstance(m.body[0], ast.TypeAlias) or not isinstance(m.body[0].value, ast.Constant) \
            or m.body[0].value.lineno != T.count('\n') + 3:
        return None
    return m.body[0].type_params


def g_type_params(T):
    if _blank(T):
        return []
    return _tp(T, '')


def g_type_param(T):
    r = _tp(T, ', _')
    return r[:-1] if r is not None and len(r) == 2 else None


def g_type_param_loose(T):
    r = _tp(T, '')
    return r if r is not None and len(r) == 1 else None


def g_handlers(T):
    if _blank(T):
        return []
    m = _p('try: pass\n' + T)
    if m is None or len(m.body) != 1 or not isinstance(m.body[0], (ast.Try, ast.TryStar)) or m.body[0].orelse or m.body[0].finalbody \
            or len(m.body[0].body) != 1 or not isinstance(m.body[0].body[0], ast.Pass) or m.body[0].body[0].lineno != 1:
        return None
    return m.body[0].handlers


def string_lines(T):
    """1-based lines of T that are continuation lines of a multi-line string token (CPython's tokenizer); None if T does not
    tokenize"""
    out = set()
    try:
        for t in tokenize.generate_tokens(io.StringIO(T).readline):
            if t.end[0] > t.start[0] and t.type not in (tokenize.OP, tokenize.NL, tokenize.NEWLINE, tokenize.INDENT, tokenize.DEDENT,
                                                        tokenize.ENDMARKER, tokenize.COMMENT):
                out.update(range(t.start[0] + 1, t.end[0] + 1))
    except Exception:
        return None
    return out


def g_cases(T):
    if _blank(T):
        return []
    sl = string_lines(T)
    if sl is None:
        return None
    # the genuine construct: the cases indented under a match statement; the text inside multi-line strings stays as it is
    m = _p('match _:\n' + '\n'.join(l if i + 1 in sl else ' ' + l for i, l in enumerate(T.split('\n'))))
    if m is None or len(m.body) != 1 or not isinstance(m.body[0], ast.Match):
        return None
    return m.body[0].cases


def g_stmts(T):
    m = _p(T)
    return None if m is None else m.body


def g_eval(T):
    m = _p(T, 'eval')
    return None if m is None else [m.body]


def g_single(T):
    m = _p(T, 'single')
    if m is None and not T.endswith('\n'):
        m = _p(T + '\n', 'single')
    return None if m is None else m.body


OPS = {}
for _cls, _s in [(ast.Add, '+'), (ast.Sub, '-'), (ast.Mult, '*'), (ast.MatMult, '@'), (ast.Div, '/'), (ast.Mod, '%'),
                 (ast.FloorDiv, '//'), (ast.LShift, '<<'), (ast.RShift, '>>'), (ast.BitOr, '|'), (ast.BitXor, '^'),
                 (ast.BitAnd, '&'), (ast.Pow, '**')]:
    OPS[('operator', _s)] = _cls
for _cls, _s in [(ast.Not, 'not'), (ast.USub, '-'), (ast.UAdd, '+'), (ast.Invert, '~')]:
    OPS[('unaryop', _s)] = _cls
for _cls, _s in [(ast.Eq, '=='), (ast.NotEq, '!='), (ast.Lt, '<'), (ast.LtE, '<='), (ast.Gt, '>'), (ast.GtE, '>='), (ast.Is, 'is'),
                 (ast.IsNot, 'is not'), (ast.In, 'in'), (ast.NotIn, 'not in')]:
    OPS[('cmpop', _s)] = _cls
OPS[('boolop', 'and')] = ast.And
OPS[('boolop', 'or')] = ast.Or


def g_op(cat):
    def f(T):
        try:
            toks = [t.string for t in tokenize.generate_tokens(io.StringIO('(\n' + T + '\n)').readline) if t.type not in SKIP_TOK]
        except Exception:
            return None
        c = OPS.get((cat, ' '.join(toks[1:-1])))
        return [c()] if c else None
    return f


# mode -> (must gates, may gates, single element?)
GATES = {
    'exec': ([g_stmts], [], False), 'stmts': ([g_stmts], [], False), 'stmt': ([_one(g_stmts)], [], True),
    'eval': ([g_eval], [], True), 'single': ([g_single], [], False),
    'ExceptHandler': ([_one(g_handlers)], [], True), '_ExceptHandlers': ([g_handlers], [], False),
    'match_case': ([_one(g_cases)], [], True), '_match_cases': ([g_cases], [], False),
    'expr': ([g_expr], [], True), 'expr_arglike': ([g_expr_arglike], [g_expr_arglike_loose, g_expr], True),
    'expr_slice': ([g_slice], [g_expr], True), 'expr_all': ([g_expr_all], [g_slice, g_expr], True),
    'Tuple_elt': ([g_tuple_elt], [g_slice, g_expr], True), 'Tuple': ([g_tuple], [g_expr], True),
    '_Assign_targets': ([g_assign_targets], [], False), '_decorator_list': ([g_decorators], [], False),
    '_arglike': ([g_arglike_strict], [g_arglike_loose, _one(g_arglikes_genexp)], True), '_arglikes': ([g_arglikes], [g_arglikes_genexp], False),
    'boolop': ([g_op('boolop')], [], True), 'operator': ([g_op('operator')], [], True),
    'unaryop': ([g_op('unaryop')], [], True), 'cmpop': ([g_op('cmpop')], [], True),
    'comprehension': ([g_comprehension], [], True), '_comprehensions': ([g_comprehensions], [], False),
    '_comprehension_ifs': ([g_comprehension_ifs], [], False),
    'arguments': ([g_arguments], [], True), 'arguments_lambda': ([g_arguments_lambda], [], True),
    'arg': ([g_arg], [g_arg_loose], True), 'keyword': ([g_keyword], [g_keyword_loose], True),
    'alias': ([_one(g_aliases)], [_one(g_aliases_loose)], True), '_aliases': ([g_aliases], [g_aliases_loose], False),
    'Import_name': ([_one(g_import_names)], [_one(g_import_names_loose)], True),
    '_Import_names': ([g_import_names], [g_import_names_loose], False),
    'ImportFrom_name': ([_one(g_importfrom_names)], [_one(g_importfrom_names_loose)], True),
    '_ImportFrom_names': ([g_importfrom_names], [g_importfrom_names_loose], False),
    'withitem': ([_one(g_withitems)], [_one(g_withitems_loose)], True), '_withitems': ([g_withitems], [g_withitems_loose], False),
    'pattern': ([g_pattern], [], True), '_pattern_attrlikes': ([g_pattern_attrlikes], [], False),
    'type_param': ([g_type_param], [g_type_param_loose], True), '_type_params': ([g_type_params], [], False),
}


def struct(nodes):
    """structure (no positions) of a gate result / expected list"""
    if nodes is None:
        return None
    out = []
    for n in nodes:
        if isinstance(n, tuple):        # ('field', list)
            out.append((n[0], [dump(x, False) for x in n[1]]))
        else:
            out.append(dump(n, False))
    return out


def gate(mode, T, which='must'):
    g = GATES.get(mode)
    if g is None:
        return None
    for f in (g[0] if which == 'must' else g[0] + g[1]):
        try:
            r = f(T)
        except RecursionError:
            r = None
        if r is not None:
            return r
    return None


# ---------------------------------------------------------------------------------------------------------------------
# fragment extraction

class Frag:
    __slots__ = ('mode', 'kind', 'text', 'l0', 'c0', 'dedent', 'nodes', 'container', 'opcls', 'nodedent')

    def __init__(self, mode, kind, text, l0, c0, nodes, container=None, dedent=0, opcls=None):
        self.mode, self.kind, self.text, self.l0, self.c0 = mode, kind, text, l0, c0
        self.nodes = nodes              # list of CPython nodes (or ('field', list) tuples for _pattern_attrlikes)
        self.container = container      # None: result is nodes[0] itself;  (class name, field): SPECIAL SLICE container
        self.dedent = dedent
        self.opcls = opcls
        self.nodedent = ()              # lines (in the coordinates of `nodes`) that keep their text: continuation lines of strings


def _dedent_text(P, s, e):
    """block fragment starting at column c0 of line l0: remove c0 bytes of indentation from the following lines.
    None if not possible (shallower lines, multi-line strings)."""
    (l0, c0), (l1, c1) = s, e
    if c0 == 0 or l0 == l1:
        return P.text(s, e)
    out = [P.bl[l0 - 1][c0:].decode()]
    for ln in range(l0 + 1, l1 + 1):
        b = P.bl[ln - 1] if ln < l1 else P.bl[ln - 1][:c1]
        if ln in P.strlines:
            out.append(b.decode())          # inside a multi-line string: the text is kept, nodes on this line keep their columns
            continue
        if b.strip() == b'':
            if ln == l1:
                return None
            out.append('')
            continue
        if b[:c0].strip() != b'' or len(b) < c0:
            return None
        out.append(b[c0:].decode())
    return '\n'.join(out)


def _under_fstring(tree):
    bad = set()
    for n in ast.walk(tree):
        if isinstance(n, ast.JoinedStr):
            for d in ast.walk(n):
                if d is not n:
                    bad.add(id(d))
    return bad


def _all_load(n):
    return isinstance(getattr(n, 'ctx', None) or ast.Load(), ast.Load)


def fragments(P: Prog, rng, per_kind=6):
    """yield Frag for every category found in the program (sampled: at most `per_kind` per (mode, kind))"""
    out = []
    tree = P.tree
    infstr = _under_fstring(tree)
    parents = {}
    for p in ast.walk(tree):
        for c in ast.iter_child_nodes(p):
            parents[id(c)] = p

    def add(mode, kind, s, e, nodes, container=None, block=False, opcls=None):
        if block:
            t = _dedent_text(P, s, e)
            if t is None:
                return
            fr = Frag(mode, kind, t, s[0], s[1], nodes, container, dedent=s[1], opcls=opcls)
            if s[1]:
                fr.nodedent = frozenset(ln for ln in range(s[0] + 1, e[0] + 1) if ln in P.strlines)
            out.append(fr)
        else:
            out.append(Frag(mode, kind, P.text(s, e), s[0], s[1], nodes, container, opcls=opcls))

    nodes = list(ast.walk(tree))
    for n in nodes:
        cls = type(n).__name__
        if id(n) in infstr:
            continue
        # ---- expressions ----------------------------------------------------------------------------------------
        if isinstance(n, ast.expr) and _all_load(n):
            par = parents.get(id(n))
            for lvl, (s, e) in enumerate(P.grow(*span(n), maxlevels=1)):
                k = cls + ('+pars' if lvl else '')
                if isinstance(n, ast.Slice):
                    if lvl == 0:
                        for m in ('expr_slice', 'expr_all', 'Tuple_elt', 'Slice'):
                            add(m, k, s, e, [n])
                    continue
                if isinstance(n, ast.Starred):
                    if lvl == 0:
                        for m in ('expr', 'expr_arglike', 'expr_all', 'Tuple_elt', '_arglike', 'Starred'):
                            add(m, k, s, e, [n])
                    continue
                for m in ('expr', 'expr_arglike', 'expr_slice', 'expr_all', 'Tuple_elt', '_arglike'):
                    add(m, k, s, e, [n])
                add(cls, k, s, e, [n])                   # the node class itself as mode
            # undelimited form of a delimited tuple: the text inside the parentheses; the expected Tuple spans from the
            # first to the last significant token of that text (CPython's extent of an unparenthesized tuple)
            if isinstance(n, ast.Tuple) and n.elts and all(not isinstance(x, ast.Slice) for x in n.elts):
                i = P.by_start.get(span(n)[0])
                if i is not None and P.tstr(i) == '(' and P.match.get(i) == P.by_end.get(span(n)[1]) and P.match[i] > i + 1:
                    s, e = P.inner(i)
                    n2 = copy.copy(n)
                    n2.lineno, n2.col_offset = P.tstart(i + 1)
                    n2.end_lineno, n2.end_col_offset = P.tend(P.match[i] - 1)
                    add('expr', 'Tuple-inner', s, e, [n2])
                    add('Tuple', 'Tuple-inner', s, e, [n2])
        # ---- operators -------------------------------------------------------------------------------------------
        if isinstance(n, ast.BinOp):
            _op_between(P, add, 'operator', n.left, n.right, n.op)
        elif isinstance(n, ast.BoolOp):
            for a, b in zip(n.values, n.values[1:]):
                _op_between(P, add, 'boolop', a, b, n.op)
        elif isinstance(n, ast.Compare):
            for a, b, o in zip([n.left] + n.comparators, n.comparators, n.ops):
                _op_between(P, add, 'cmpop', a, b, o)
        elif isinstance(n, ast.UnaryOp):
            j = P.back_over_parens(span(n.operand)[0])
            i = P.by_start.get(span(n)[0])
            if i is not None and j is not None and j == i:
                add('unaryop', type(n.op).__name__, P.tstart(i), P.tend(i), [n.op], opcls=type(n.op))
                add(type(n.op).__name__, type(n.op).__name__, P.tstart(i), P.tend(i), [n.op], opcls=type(n.op))
        # ---- calls / class bases ---------------------------------------------------------------------------------
        if isinstance(n, ast.Call):
            k = P.fwd_over_parens(span(n.func)[1])
            if k is not None and P.tstr(k) == '(' and k in P.match:
                s, e = P.inner(k)
                items = sorted(n.args + n.keywords, key=lambda x: (x.lineno, x.col_offset))
                if not (len(items) == 1 and isinstance(items[0], ast.GeneratorExp) and span(items[0])[0] == P.tstart(k)):
                    add('_arglikes', 'Call', s, e, items, ('_arglikes', 'arglikes'))
            for kw in n.keywords:
                add('keyword', 'keyword' if kw.arg else 'keyword**', *span(kw), [kw])
                add('_arglike', 'keyword' if kw.arg else 'keyword**', *span(kw), [kw])
        if isinstance(n, ast.ClassDef) and (n.bases or n.keywords):
            items = sorted(n.bases + n.keywords, key=lambda x: (x.lineno, x.col_offset))
            i = P.by_start.get(span(items[0])[0])
            if i is not None:
                while i > 0 and P.tstr(i - 1) == '(':
                    i -= 1
                if P.tstr(i) == '(' and i in P.match:
                    s, e = P.inner(i)
                    add('_arglikes', 'ClassDef', s, e, items, ('_arglikes', 'arglikes'))
        # ---- arguments -------------------------------------------------------------------------------------------
        if isinstance(n, (ast.FunctionDef, ast.AsyncFunctionDef)):
            i = P.by_start.get(span(n)[0])
            if i is not None:
                while i < len(P.sig) and P.tstr(i) != 'def':
                    i += 1
                i += 2
                if P.tstr(i) == '[' and i in P.match:
                    i = P.match[i] + 1
                if P.tstr(i) == '(' and i in P.match:
                    s, e = P.inner(i)
                    add('arguments', 'def', s, e, [n.args])
            a = n.args
            for x in a.posonlyargs + a.args + a.kwonlyargs + ([a.vararg] if a.vararg else []) + ([a.kwarg] if a.kwarg else []):
                add('arg', 'arg+ann' if x.annotation else 'arg', *span(x), [x])
        if isinstance(n, ast.Lambda):
            i = P.by_start.get(span(n)[0])
            j = P.back_over_parens(span(n.body)[0])
            if i is not None and j is not None and P.tstr(i) == 'lambda' and P.tstr(j) == ':' and j > i:
                if j == i + 1:
                    add('arguments_lambda', 'lambda-empty', P.tend(i), P.tstart(j), [n.args])
                else:
                    add('arguments_lambda', 'lambda', P.tstart(i + 1), P.tend(j - 1), [n.args])
                    add('arguments_lambda', 'lambda+ws', P.tend(i), P.tstart(j), [n.args])
        # ---- type params -----------------------------------------------------------------------------------------
        tps = getattr(n, 'type_params', None)
        if tps and isinstance(n, (ast.FunctionDef, ast.AsyncFunctionDef, ast.ClassDef, ast.TypeAlias)):
            i = P.by_start.get(span(tps[0])[0])
            if i is not None and i > 0 and P.tstr(i - 1) == '[' and (i - 1) in P.match:
                s, e = P.inner(i - 1)
                add('_type_params', cls, s, e, tps, ('_type_params', 'type_params'))
            for tp in tps:
                add('type_param', type(tp).__name__, *span(tp), [tp])
                add(type(tp).__name__, type(tp).__name__, *span(tp), [tp])
        # ---- comprehensions --------------------------------------------------------------------------------------
        gens = getattr(n, 'generators', None)
        if gens:
            spans = []
            for g in gens:
                j = P.back_over_parens(span(g.target)[0])
                if j is None or P.tstr(j) != 'for':
                    spans = None
                    break
                if g.is_async and P.tstr(j - 1) == 'async':
                    j -= 1
                last = g.ifs[-1] if g.ifs else g.iter
                e = P.end_balanced(P.tstart(j), span(last)[1])
                if e is None:
                    spans = None
                    break
                spans.append((P.tstart(j), e))
                if g.ifs:
                    ji = P.back_over_parens(span(g.ifs[0])[0])
                    if ji is not None and P.tstr(ji) == 'if':
                        ei = P.end_balanced(P.tstart(ji), span(g.ifs[-1])[1])
                        if ei is not None:
                            add('_comprehension_ifs', f'ifs{len(g.ifs)}', P.tstart(ji), ei, g.ifs, ('_comprehension_ifs', 'ifs'))
            if spans:
                for g, (s, e) in zip(gens, spans):
                    add('comprehension', 'async' if g.is_async else 'for', s, e, [g])
                add('_comprehensions', f'gens{len(gens)}', spans[0][0], spans[-1][1], gens, ('_comprehensions', 'generators'))
        # ---- imports ---------------------------------------------------------------------------------------------
        if isinstance(n, ast.Import):
            for al in n.names:
                for m in ('alias', 'Import_name'):
                    add(m, 'dotted' if '.' in al.name else 'plain', *span(al), [al])
            s, e = span(n.names[0])[0], span(n.names[-1])[1]
            for m in ('_aliases', '_Import_names'):
                add(m, f'Import{min(len(n.names), 3)}', s, e, n.names, ('_aliases', 'names'))
        if isinstance(n, ast.ImportFrom):
            for al in n.names:
                for m in ('alias', 'ImportFrom_name'):
                    add(m, 'star' if al.name == '*' else 'plain', *span(al), [al])
            s, e = span(n.names[0])[0], span(n.names[-1])[1]
            for m in ('_aliases', '_ImportFrom_names'):
                add(m, f'ImportFrom{min(len(n.names), 3)}' + ('-multiline' if e[0] > s[0] else ''), s, e, n.names, ('_aliases', 'names'))
        # ---- with items ------------------------------------------------------------------------------------------
        if isinstance(n, (ast.With, ast.AsyncWith)):
            for it in n.items:
                cs = P.grow(*span(it.context_expr), maxlevels=1)
                if it.optional_vars:
                    for (s, _) in cs:
                        for (_, e) in P.grow(*span(it.optional_vars), maxlevels=1):
                            add('withitem', 'as', s, e, [it])
                else:
                    for (s, e) in cs:
                        add('withitem', 'bare', s, e, [it])
            s = span(n.items[0].context_expr)[0]
            e = P.end_balanced(s, span(n.items[-1].optional_vars or n.items[-1].context_expr)[1])
            if e is not None:
                add('_withitems', f'items{min(len(n.items), 3)}', s, e, n.items, ('_withitems', 'items'))
        # ---- assignment targets ----------------------------------------------------------------------------------
        if isinstance(n, ast.Assign):
            s = span(n)[0]
            j = P.back_over_parens(span(n.value)[0])
            if j is not None and P.tstr(j) == '=' and P.by_start.get(s) is not None:
                add('_Assign_targets', f'targets{min(len(n.targets), 3)}=', s, P.tend(j), n.targets, ('_Assign_targets', 'targets'))
                add('_Assign_targets', f'targets{min(len(n.targets), 3)}', s, P.tend(j - 1), n.targets, ('_Assign_targets', 'targets'))
        # ---- decorators ------------------------------------------------------------------------------------------
        decos = getattr(n, 'decorator_list', None)
        if decos:
            j = P.back_over_parens(span(decos[0])[0])
            if j is not None and P.tstr(j) == '@':
                s = P.tstart(j)
                e = P.end_balanced(s, span(decos[-1])[1])
                if e is not None:
                    add('_decorator_list', f'decos{min(len(decos), 3)}', s, e, decos, ('_decorator_list', 'decorator_list'), block=True)
        # ---- handlers --------------------------------------------------------------------------------------------
        if isinstance(n, (ast.Try, ast.TryStar)) and n.handlers:
            for h in n.handlers:
                add('ExceptHandler', 'star' if isinstance(n, ast.TryStar) else ('bare' if h.type is None else ('as' if h.name else 'type')),
                    *span(h), [h], block=True)
            add('_ExceptHandlers', f'handlers{min(len(n.handlers), 3)}', span(n.handlers[0])[0], span(n.handlers[-1])[1],
                n.handlers, ('_ExceptHandlers', 'handlers'), block=True)
        # ---- match -----------------------------------------------------------------------------------------------
        if isinstance(n, ast.Match):
            cs = []
            for c in n.cases:
                j = P.back_over_parens(span(c.pattern)[0])
                if j is None or P.tstr(j) != 'case':
                    cs = None
                    break
                cs.append((P.tstart(j), span(c.body[-1])[1]))
            if cs:
                for c, (s, e) in zip(n.cases, cs):
                    add('match_case', 'guard' if c.guard else 'plain', s, e, [c], block=True)
                add('_match_cases', f'cases{min(len(cs), 3)}', cs[0][0], cs[-1][1], n.cases, ('_match_cases', 'cases'), block=True)
        if isinstance(n, ast.pattern):
            for lvl, (s, e) in enumerate(P.grow(*span(n), maxlevels=1)):
                add('pattern', cls + ('+pars' if lvl else ''), s, e, [n])
                add(cls, cls + ('+pars' if lvl else ''), s, e, [n])
        if isinstance(n, ast.MatchClass):
            j = P.by_end.get(span(n.cls)[1])
            if j is not None and P.tstr(j + 1) == '(' and (j + 1) in P.match:
                s, e = P.inner(j + 1)
                add('_pattern_attrlikes', 'MatchClass', s, e,
                    [('patterns', n.patterns), ('kwd_attrs', n.kwd_attrs), ('kwd_patterns', n.kwd_patterns)], ('_pattern_attrlikes', None))
        # ---- statements ------------------------------------------------------------------------------------------
        if isinstance(n, ast.stmt):
            s, e = span(n)
            decos = getattr(n, 'decorator_list', None)
            if decos:
                j = P.back_over_parens(span(decos[0])[0])
                if j is None or P.tstr(j) != '@':
                    continue
                s = P.tstart(j)
            if P.bl[s[0] - 1][:s[1]].strip() == b'':        # first statement on its line
                add('stmt', cls, s, e, [n], block=True)
                add(cls, cls, s, e, [n], block=True)
    # sample per (mode, kind)
    groups = {}
    for f in out:
        groups.setdefault((f.mode, f.kind), []).append(f)
    res = []
    for key in sorted(groups):
        g = groups[key]
        if len(g) > per_kind:
            g = rng.sample(g, per_kind)
        res.extend(g)
    return res


def _op_between(P, add, cat, left, right, op):
    i = P.fwd_over_parens(span(left)[1])
    j = P.back_over_parens(span(right)[0])
    if i is None or j is None or not (i <= j <= i + 1):
        return
    name = type(op).__name__
    add(cat, name, P.tstart(i), P.tend(j), [op], opcls=type(op))
    add(name, name, P.tstart(i), P.tend(j), [op], opcls=type(op))


# ---------------------------------------------------------------------------------------------------------------------
# layout variants: (name, text', line shift, first-line byte shift)

def variants(text, block):
    v = [('base', text, 0, 0)]
    v.append(('lead-comment', '# c é\n' + text, 1, 0))
    v.append(('lead-code-comment', '# 2) second, (é\n' + text, 1, 0))
    v.append(('trail-code-comment', text + '  # x), y\n# ] "', 0, 0))
    v.append(('trail-comment', text + '  # c é', 0, 0))
    v.append(('trail-comment-line', text + '\n# ü', 0, 0))
    v.append(('trail-newline', text + '\n', 0, 0))
    v.append(('lead-blank', '\n' + text, 1, 0))
    v.append(('trail-blanks', text + ' ' * 40, 0, 0))              # skipped (redos_risk) while C05-F7 is unrepaired
    v.append(('trail-blanks-comment', text + ' ' * 28 + '# é\n' + ' ' * 20, 0, 0))
    if not block:
        v.append(('lead-cont', '\\\n' + text, 1, 0))
        v.append(('lead-space', '  ' + text, 0, 2))
        v.append(('lead-cont-space', ' \\\n ' + text, 1, 1))
    return v


# ---------------------------------------------------------------------------------------------------------------------
# shape label of a malformed string (narrow failure signatures): names -> n, literals -> c, keywords and operators kept

def shape(T):
    import keyword
    try:
        toks = [t for t in tokenize.generate_tokens(io.StringIO('(\n' + T + '\n)').readline) if t.type not in SKIP_TOK]
    except Exception:
        return 'untokenizable'
    out = []
    for t in toks[1:-1]:
        if t.type == tokenize.NAME:
            w = t.string if keyword.iskeyword(t.string) else 'n'
        elif t.type in (tokenize.NUMBER, tokenize.STRING) or tokenize.tok_name[t.type].startswith('FSTRING'):
            w = 'c'
        else:
            w = t.string
        if out and (out[-1][-1].isalnum() and w[0].isalnum()):
            out.append(' ')
        out.append(w)
    return ''.join(out)[:40]


# ---------------------------------------------------------------------------------------------------------------------
# phrases: sequences re-assembled from elements with generated separator layouts (separators on their own following line
# at assorted columns, trailing separators, comments, non-ASCII text on every line, NO line continuations), judged by
# CPython on the genuine enclosing construct (the gates above): the expected nodes are the gate's nodes rebased from the
# template to the phrase.

MB_ATOMS = ['(\né\n)', '((\n\n  ü))', '(  # c\n "ü")', '[\n ñ]', '(\n"é",\n)', '"é"', 'ü', "'日本'", 'ñ.é', 'f("ü")', '"é" "ü"', 'é[ü]', '-ñ', '(é)', '("ü", é)', '[ñ]', 'é if ü else ñ', 'not é', 'é or ü']
PAT_ATOMS = ['(\nx\n)', '((\n\n  "é"))', '(\n"é" as y)', '[\n ñ, 1]', '1', '"é"', 'x', 'C(a, b=1)', '[a, "ü"]', '{"é": v}', 'None', 'ñ.b', '1 | 2', '(x)', '("é" as y)', '"é" "ü"', 'é', '-1']
PAT_STARS = ['*_', '*rest', '*é']
WITH_ATOMS = ['open("éé") as ff', '"ééé".x as ñ', '(\né\n) as b', 'open("éé").x as ff', 'a', 'f("é") as b', '(c) as (d, e)', 'g as h.i', 'ü', '"é".x() as ñ', '(yield_) as y', 'a[0] as b[1]']
TP_ATOMS = ['T: "éé"', '**ΠΠΠ', '*Ééé', 'T', 'U: "é"', '*Ts', '**P', 'V: (int, "ü")', 'é', 'W: ñ']
KW_ATOMS = ['ééé="üü"', '**ΠΠΠ', 'k="é"', '**d', 'ñ=ü', 'key=(1)', '**{"é": 1}']
ARG_LISTS = [['a', 'b: "é"', '/', 'c="ü"', '*args', 'd', 'e: ñ = "é"', '**kw'], ['é', 'ü=1'], ['a', '*', 'b', 'c="é"'], ['*a: "ü"', '**k: é'],
             ['a: "é"', 'b'], ['x', '/', 'y']]
LAM_LISTS = [['a', 'b', '/', 'c="ü"', '*args', 'd', 'e="é"', '**kw'], ['é', 'ü=1'], ['a', '*', 'b', 'c="é"'], ['*a', '**k'], ['x', '/', 'y']]

# first line of the phrase inside the template of the mode's (must) gate: (line, byte column)
ORIGIN = {'expr': (2, 0), 'expr_slice': (2, 0), 'expr_all': (2, 0), 'Tuple_elt': (2, 0), 'Tuple': (2, 0), '_arglikes': (2, 0),
          '_arglike': (2, 0), 'expr_arglike': (2, 0), 'pattern': (3, 0), '_pattern_attrlikes': (3, 0), '_withitems': (2, 0),
          'withitem': (2, 0), '_type_params': (2, 0), 'type_param': (2, 0), 'arguments': (2, 0), 'arguments_lambda': (2, 0),
          'Slice': (2, 0)}
CONTAINERS = {'_arglikes': ('_arglikes', 'arglikes'), '_pattern_attrlikes': ('_pattern_attrlikes', None), '_withitems': ('_withitems', 'items'),
              '_type_params': ('_type_params', 'type_params')}


def _last_len(t):
    """(characters, bytes) of the last line of t"""
    l = t.rsplit('\n', 1)[-1]
    return len(l), len(l.encode())


# comment texts with code-like content: separators, delimiters, quotes, backslashes, hashes
CODE_COMMENTS = ['# 2) second, optional', '# x, y', '# ]', '# "', "# '", '# \\', '# a) # b, (c', '# ),(', '# [,', '# é, (ü', '# }:', '#,', '# (',
                 '# """', '# f(x, y):', '# c é']


def _sep(rng, text, sep=',', trailing=False):
    """a separator layout to append to `text`"""
    ch, by = _last_len(text)
    pads = [0, 1, max(by - 1, 0), by, max(ch - 1, 0), ch, rng.randint(0, 8), ch + 2]
    c = rng.random()
    tail = '' if trailing else rng.choice([' ', '', '\n', '\n  ', '  # ü\n', ' '])
    if c < 0.2:
        return sep + (tail or ('' if trailing else ' '))
    if c < 0.3:
        return ' ' + sep + tail
    if c < 0.75:
        return '\n' + ' ' * rng.choice(pads) + sep + tail            # separator on its own following line
    if c < 0.85:
        return '  ' + rng.choice(CODE_COMMENTS) + '\n' + ' ' * rng.choice(pads) + sep + tail
    if c < 0.90:
        # whole comment line(s) with code-like content between the element and its separator
        return '\n' + ''.join(' ' * rng.randint(0, 4) + rng.choice(CODE_COMMENTS) + '\n' for _ in range(rng.randint(1, 2))) \
            + ' ' * rng.choice(pads) + sep + tail
    if c < 0.95:
        return '\n\n' + ' ' * rng.choice(pads) + sep + (tail if not trailing else rng.choice(['', '\n', '  # é']))
    return sep + '\n' + ' ' * rng.randint(0, 6) if not trailing else sep + rng.choice(['\n', '  # é', ' '])


def _join(rng, elems, sep=',', trailing=None):
    t = ''
    for i, e in enumerate(elems):
        if i and t.endswith('\n'):
            t += ' ' * rng.choice([0, 0, 1, 4])
        t += e
        if i < len(elems) - 1:
            t += _sep(rng, t, sep)
    if trailing is None:
        trailing = rng.random() < 0.6
    if trailing:
        t += _sep(rng, t, sep, trailing=True)
    return t


def _tok_extent(T):
    """((line, bytecol) of the first significant token, (line, bytecol) end of the last one) in T's own coordinates"""
    lines = ('(\n' + T + '\n)').split('\n')
    try:
        toks = [t for t in tokenize.generate_tokens(io.StringIO('(\n' + T + '\n)').readline) if t.type not in SKIP_TOK]
    except Exception:
        return None
    if len(toks) < 3:
        return None
    a, b = toks[1], toks[-2]
    return ((a.start[0] - 1, len(lines[a.start[0] - 1][:a.start[1]].encode())),
            (b.end[0] - 1, len(lines[b.end[0] - 1][:b.end[1]].encode())))


def _program_elems(P, rng, n):
    """self-contained single-element expression texts from a program"""
    if P is None:
        return []
    infstr = _under_fstring(P.tree)
    cands = [x for x in ast.walk(P.tree) if isinstance(x, ast.expr) and _all_load(x) and id(x) not in infstr
             and not isinstance(x, (ast.Starred, ast.Slice, ast.Tuple, ast.Yield, ast.YieldFrom, ast.NamedExpr, ast.GeneratorExp))]
    rng.shuffle(cands)
    out = []
    for x in cands[:4 * n]:
        s, e = P.grow(*span(x), maxlevels=1)[-1] if rng.random() < 0.3 else span(x)
        t = P.text(s, e)
        if len(t) > 60 or t.count('\n') > 2 or '\\\n' in t or not balanced(t):
            continue
        m = _p('[' + t + '\n, 0]', 'eval')
        if m is None or not isinstance(m.body, ast.List) or len(m.body.elts) != 2:
            continue
        out.append(t)
        if len(out) >= n:
            break
    return out


def phrase_texts(P, rng, n):
    """[(family, text)]"""
    out = []
    pel = _program_elems(P, rng, 6)
    for _ in range(n):
        fam = rng.choice(['tuple', 'tuple', 'tuple', 'tuple-star', 'slices', 'slice', 'args', 'patterns', 'patterns', 'attrlikes', 'withitems',
                          'type_params', 'arguments', 'lambda'])
        rich = rng.random() < 0.6          # non-ASCII text in every element (hence on every line)

        def ex():
            if rich or not pel:
                a = rng.choice(MB_ATOMS)
                if pel and rng.random() < 0.4:
                    a = a + ' + ' + rng.choice(pel) if rng.random() < 0.5 else rng.choice(pel) + ' + ' + a
                return a
            return rng.choice(pel)

        if fam == 'tuple':
            k = rng.randint(1, 4)
            out.append((fam, _join(rng, [ex() for _ in range(k)], trailing=True if k == 1 else None)))
        elif fam == 'tuple-star':
            k = rng.randint(1, 3)
            el = [ex() for _ in range(k)]
            i = rng.randrange(k)
            el[i] = '*' + rng.choice(['a', 'é', '"ü"', 'not a', 'a or "é"', '(é)', 'x.y', 'a[0]'])
            out.append((fam, _join(rng, el, trailing=None if k > 1 else rng.random() < 0.85)))
        elif fam == 'slices':
            k = rng.randint(1, 3)
            el = [rng.choice([ex(), ex() + ':' + ex(), ':', '::' + ex(), ex() + ':', '"é":ü:ñ']) for _ in range(k)]
            out.append((fam, _join(rng, el, trailing=None if k > 1 else rng.random() < 0.5)))
        elif fam == 'slice':
            parts = [rng.choice(['', ex()]) for _ in range(rng.choice([2, 3]))]
            out.append((fam, _join(rng, parts, sep=':', trailing=False)))
        elif fam == 'args':
            k = rng.randint(1, 4)
            el = [ex() if rng.random() < 0.7 else '*' + rng.choice(['a', 'é', 'not a']) for _ in range(k)]
            el += [rng.choice(KW_ATOMS) for _ in range(rng.randint(0, 2))]
            out.append((fam, _join(rng, el)))
        elif fam == 'patterns':
            k = rng.randint(1, 4)
            el = [rng.choice(PAT_ATOMS) for _ in range(k)]
            if rng.random() < 0.35:
                el[rng.randrange(k)] = rng.choice(PAT_STARS)
            out.append((fam, _join(rng, el, trailing=True if k == 1 and rng.random() < 0.8 else None)))
        elif fam == 'attrlikes':
            el = [rng.choice(PAT_ATOMS) for _ in range(rng.randint(0, 3))] + [f'k{i}={rng.choice(PAT_ATOMS)}' for i in range(rng.randint(0, 2))]
            if el:
                out.append((fam, _join(rng, el)))
        elif fam == 'withitems':
            out.append((fam, _join(rng, [rng.choice(WITH_ATOMS) for _ in range(rng.choice([1, 1, 2, 3]))])))
        elif fam == 'type_params':
            out.append((fam, _join(rng, rng.sample(TP_ATOMS, rng.choice([1, 1, 2, 3])))))
        elif fam in ('arguments', 'lambda'):
            lst = rng.choice(ARG_LISTS if fam == 'arguments' else LAM_LISTS)
            keep = [a for a in lst if rng.random() < 0.75] or lst[:1]
            out.append((fam, _join(rng, keep)))
    return out


# modes on which the transliteration check runs (no CPython gate needed: pfst against itself on the ASCII twin of the text)
META_MODES = {
    'tuple': ['expr', 'Tuple', 'expr_all', 'expr_slice', 'Tuple_elt', '_arglike', '_arglikes', 'expr_arglike', 'all'],
    'tuple-star': ['expr', 'Tuple', 'expr_all', 'expr_slice', 'Tuple_elt', '_arglike', '_arglikes', 'expr_arglike', 'all'],
    'slices': ['Tuple', 'expr_all', 'expr_slice', 'Tuple_elt', 'all'],
    'slice': ['expr_slice', 'expr_all', 'Tuple_elt', 'all'],
    'args': ['_arglikes', '_arglike', 'keyword', 'expr_arglike', 'all'],
    'patterns': ['pattern', 'all'],
    'attrlikes': ['_pattern_attrlikes', 'all'],
    'withitems': ['_withitems', 'withitem', 'all'],
    'type_params': ['_type_params', 'type_param', 'all'],
    'arguments': ['arguments', 'arg', 'all'],
    'lambda': ['arguments_lambda', 'all'],
}


def ascii_twin(T):
    """the same text with every non-ASCII character replaced by 'x' (they only occur in names, strings and comments here):
    same tokens, same character geometry, different byte geometry"""
    return ''.join(c if ord(c) < 128 else 'x' for c in T)


def char_shape(node, text):
    """preorder [(class, lineno, CHARACTER col, end_lineno, end CHARACTER col)] of a parse result"""
    lines = [l.encode() for l in text.split('\n')]
    out = []

    def b2c(ln, b):
        if not (1 <= ln <= len(lines)) or b < 0:
            return ('?', ln, b)
        return len(lines[ln - 1][:b].decode(errors='replace'))

    def go(n):
        if getattr(n, 'end_lineno', None) is not None and hasattr(n, 'lineno'):
            out.append((type(n).__name__, n.lineno, b2c(n.lineno, n.col_offset), n.end_lineno, b2c(n.end_lineno, n.end_col_offset)))
        else:
            out.append((type(n).__name__,))
        for c in ast.iter_child_nodes(n):
            go(c)

    go(node)
    return out


FAMILY_MODES = {
    'tuple': ['expr', 'Tuple', 'expr_all', 'expr_slice', 'Tuple_elt', '_arglikes'],
    'tuple-star': ['expr', 'Tuple', 'expr_all', 'expr_slice', 'Tuple_elt', '_arglikes'],
    'slices': ['Tuple', 'expr_all', 'expr_slice', 'Tuple_elt'],
    'slice': ['expr_slice', 'expr_all', 'Tuple_elt', 'Slice'],
    'args': ['_arglikes'],
    'patterns': ['pattern'],
    'attrlikes': ['_pattern_attrlikes'],
    'withitems': ['_withitems'],
    'type_params': ['_type_params'],
    'arguments': ['arguments'],
    'lambda': ['arguments_lambda'],
}


def phrase_frags(family, T):
    """Frag per applicable mode whose genuine construct accepts T (CPython), expected nodes in template coordinates"""
    out = []
    if not balanced(T) or '\r' in T:
        return out
    for mode in FAMILY_MODES[family]:
        gmode = 'expr_slice' if mode == 'Slice' else mode
        g = gate(gmode, T, 'must')
        if g is None:
            continue
        l0, c0 = ORIGIN[mode]
        nodes = g
        if mode == 'Slice' and not isinstance(g[0], ast.Slice):
            continue
        if mode == 'expr':
            # the parenthesized template gives an undelimited tuple the location of the parentheses: take the positions
            # from the subscript embedding (CPython's own location of the undelimited tuple), same structure required
            s = g_slice(T)
            if s is None:
                continue
            sn = s[0].elts[0] if _lone_star_tuple(s[0]) else s[0]
            if dump(sn, False) != dump(g[0], False):
                continue
            nodes = [sn]
        if mode == 'pattern' and isinstance(g[0], ast.MatchSequence) and g[0].lineno == 2:
            # open sequence pattern: elements from the parenthesized template, extent = first .. last significant token
            ext = _tok_extent(T)
            if ext is None:
                continue
            n2 = copy.copy(g[0])
            n2.lineno, n2.col_offset = ext[0][0] + 2, ext[0][1]
            n2.end_lineno, n2.end_col_offset = ext[1][0] + 2, ext[1][1]
            nodes = [n2]
            if '#' not in T:        # cross-check the extent rule with CPython on the continuation-joined genuine construct
                c = _case('match _:\n case \\\n' + T.replace('\n', '\\\n') + ': pass')
                if c is not None and (c.pattern.lineno, c.pattern.col_offset, c.pattern.end_lineno, c.pattern.end_col_offset) != \
                        (n2.lineno, n2.col_offset, n2.end_lineno, n2.end_col_offset):
                    out.append(('oracle-disagree', mode, T))
                    continue
        if mode in ('expr', 'Tuple', 'expr_all', 'expr_slice', 'Tuple_elt') and isinstance(nodes[0], ast.Tuple) and '#' not in T:
            # cross-check: the continuation-joined text as an expression statement has the same geometry
            if all(not isinstance(x, (ast.Slice,)) for x in nodes[0].elts):
                m = _p(T.replace('\n', '\\\n'))
                if m is not None and len(m.body) == 1 and isinstance(m.body[0], ast.Expr) and isinstance(m.body[0].value, ast.Tuple):
                    v = m.body[0].value
                    if (v.lineno + 1, v.col_offset, v.end_lineno + 1, v.end_col_offset) != \
                            (nodes[0].lineno, nodes[0].col_offset, nodes[0].end_lineno, nodes[0].end_col_offset):
                        out.append(('oracle-disagree', mode, T))
                        continue
        out.append(Frag(mode, 'phrase:' + family, T, l0, c0, nodes, CONTAINERS.get(mode)))
    return out


# ---------------------------------------------------------------------------------------------------------------------
# deterministic product: representative single elements of every single-element mode x every layout prefix/suffix
# (lead comment, continuation first line, blank line, leading blanks, trailing comment ...), judged by the gates

SINGLE_ATOMS = {
    'withitem': ['a', 'f("é") as b', '(lock := get_lock())', '(yield)', '(yield from g())', '(a, b) as c', '(é := 1) as ü', '(a) as b', 'a as (b, c)'],
    'type_param': ['T', 'U: "é"', '*Ts', '**P', 'V: (int, "ü")'],
    'keyword': ['k=v', '**d', 'é="ü"', 'k=(yield)', 'k=(x := 1)'],
    'arg': ['a', 'b: "é"', 'c: list[int]'],
    '_arglike': ['a', '*a', '*not a', 'k=v', '**d', '"é"', '(x for x in y)', 'x := 1', '*a or "é"'],
    'expr_arglike': ['a', '*a', '*not a', '"é" + b', '(yield)', 'x := 1', '(x for x in y)'],
    'expr': ['a', '*a', '"é" + b', '(yield)', 'yield', 'yield from é', 'lambda: é', 'a if b else "ü"', 'x := 1', 'a,', 'not a', '(a)', '[é for é in ü]',
             'await é', 'f"{é}"', '"é" "ü"', '...', '-1'],
    'expr_slice': ['a', 'a:b', ':', '"é":ü', '*a', 'a, b:c', '::é', 'x := 1'],
    'expr_all': ['a', 'a:b', '*a', '*not a', 'a, b:c', '*a,', '"é"', 'yield'],
    'Tuple_elt': ['a', 'a:b', '*a', '*not a', '"é"', 'a, b'],
    'Tuple': ['a,', 'a, "é"', 'a:b, c', '*not a,', '(a, b)', '()'],
    'pattern': ['1', '"é"', 'x', '*_', 'C(a, b=1)', '1 | 2', '"é" as y', '{"k": v}', 'a, b', '[a, *b]', '(x)', 'None', '-1', 'a.b', 'a,'],
    'comprehension': ['for a in b', 'async for é in ü if c', 'for a, b in c if d if e', 'for a in lambda: b'],
    'alias': ['a', 'a.b as c', 'é as ü', '*'],
    'Import_name': ['a', 'a.b as c', 'é as ü'],
    'ImportFrom_name': ['a', 'a as b', '*', 'é'],
    'arguments': ['a, b=1', '*a, **k', 'a: "é", /, b', '', 'a, *, b: int = "ü"'],
    'arguments_lambda': ['a, b=1', '*a, **k', 'é, /, ü', ''],
    'ExceptHandler': ['except E:\n    x = """a\nb""" + f(c,\n        d)', 'except (A, """é\nü""".x(\n  1)) as e:\n    pass', 'except: pass', 'except E as é: pass', 'except (A, B):\n    pass', 'except* E: pass'],
    'match_case': ['case 1:\n    log("""multi\nline %s""" % (a,\n        b))', 'case ["""a\nb""", (c,\n d)]: pass', 'case """é\nü""" "x" | (1\n  ): pass',
                   'case x:\n    y = f"""a\n{x}\nü""" + g(\n  z)\n    return', 'case 1: pass', 'case "é" as y if y:\n    pass', 'case [a, *b]: pass'],
    'stmt': ['if a:\n    x = """a\nb""" % (c,\n      d)', 'x = \'\'\'é\nü\'\'\' + (y,\n z)', 'def f():\n    """doc\n  é"""; return (1,\n 2)', 'a = 1', 'if a:\n    pass', '@d\ndef f(): pass', 'é = "ü"', 'x: int = 1', 'import a'],
    'operator': ['+', '**', '//', '@', '>>'], 'unaryop': ['not', '~', '-'], 'cmpop': ['is not', 'not in', '<=', 'is', 'in'], 'boolop': ['and', 'or'],
    '_arglikes': ['a, *b, k=v, **d', '"é", ü="ñ"', ''], '_withitems': ['a as b, (c := 1)', 'f("é") as é, g', '(yield)', ''],
    '_type_params': ['T, *Ts, **P', 'U: "é"', ''], '_decorator_list': ['@a', '@é("ü")\n@b', ''], '_Assign_targets': ['a =', 'é = ü.x = a[0] =', ''],
    '_comprehensions': ['for a in b for c in d', 'for é in ü if a', ''], '_comprehension_ifs': ['if a', 'if "é" if b', ''],
    '_aliases': ['a, b.c as d', 'é as ü', '*', ''], '_Import_names': ['a, b.c as d', ''], '_ImportFrom_names': ['a, b as c', '*', ''],
    '_pattern_attrlikes': ['a, "é", k=1', 'k=v', ''], '_ExceptHandlers': ['except A: pass\nexcept: pass', 'except A:\n    x = """é\nü""" + (y,\n  z)\nexcept: pass', ''], '_match_cases': ['case 1: pass\ncase _: pass', 'case """a\nb""" | (1\n ): pass\ncase _:\n    x = """é\nü""" + (y,\n  z)', ''],
}
SINGLE_ORIGIN = {'pattern': (3, 0), '_pattern_attrlikes': (3, 0), 'alias': None, 'Import_name': (1, 7), 'ImportFrom_name': (1, 14), 'ExceptHandler': (2, 0),
                 '_ExceptHandlers': (2, 0), 'match_case': (2, 1), '_match_cases': (2, 1), 'stmt': (1, 0), '_decorator_list': (1, 0), '_Assign_targets': (1, 4),
                 '_aliases': None, '_Import_names': (1, 7), '_ImportFrom_names': (1, 14), 'operator': (1, 0), 'unaryop': (1, 0), 'cmpop': (1, 0), 'boolop': (1, 0)}
SINGLE_CONTAINER = {'_arglikes': ('_arglikes', 'arglikes'), '_withitems': ('_withitems', 'items'), '_type_params': ('_type_params', 'type_params'),
                    '_decorator_list': ('_decorator_list', 'decorator_list'), '_Assign_targets': ('_Assign_targets', 'targets'),
                    '_comprehensions': ('_comprehensions', 'generators'), '_comprehension_ifs': ('_comprehension_ifs', 'ifs'),
                    '_aliases': ('_aliases', 'names'), '_Import_names': ('_aliases', 'names'), '_ImportFrom_names': ('_aliases', 'names'),
                    '_pattern_attrlikes': ('_pattern_attrlikes', None), '_ExceptHandlers': ('_ExceptHandlers', 'handlers'),
                    '_match_cases': ('_match_cases', 'cases')}


def single_frag(mode, T):
    """Frag for the atom T in `mode` (expected nodes = the must-gate's nodes in template coordinates) or None"""
    g = gate(mode, T, 'must')
    if g is None:
        return None
    org = SINGLE_ORIGIN.get(mode, (2, 0))
    if org is None:                       # alias / _aliases: which template accepted it
        org = (1, 7) if (g_import_names(T) is not None) else (1, 14)
    l0, c0 = org
    cont = SINGLE_CONTAINER.get(mode)
    if mode in ('operator', 'unaryop', 'cmpop', 'boolop'):
        return Frag(mode, 'atom', T, 1, 0, g, None, opcls=type(g[0]))
    nodes = g
    if cont is None:
        if len(g) != 1:
            return None
        if mode in ('expr', 'Tuple', 'expr_all', 'Tuple_elt') and isinstance(g[0], ast.Tuple) and g[0].lineno == 1:
            s = g_slice(T)          # undelimited tuple: location from the subscript embedding
            if s is None or dump(s[0], False) != dump(g[0], False):
                return None
            nodes = s
        if mode == 'pattern' and isinstance(g[0], ast.MatchSequence) and g[0].lineno == 2:
            ext = _tok_extent(T)
            if ext is None:
                return None
            n2 = copy.copy(g[0])
            n2.lineno, n2.col_offset = ext[0][0] + 2, ext[0][1]
            n2.end_lineno, n2.end_col_offset = ext[1][0] + 2, ext[1][1]
            nodes = [n2]
    fr = Frag(mode, 'atom', T, l0, c0, nodes, cont)
    if mode in ('match_case', '_match_cases'):
        fr.dedent = 1
        fr.nodedent = frozenset(i + 1 for i in (string_lines(T) or ()))     # template line = line of T + 1
    return fr
