#!/usr/bin/env python3
"""c03_mutrun.py <operator> <file> [per_file] [seed]   check-first variant of harness/mutants.py for C03 (same operators, same
site keys, same result file seeded/mutants/C03_<operator>.json): for each site the mutant copy is first given to `./check C03`
(quick); only mutants the check does NOT report are then run through the pinned suite (to tell survivors of the suite from
mutants the suite kills).  Records of mutants caught by the check carry suite = 'not-run (caught by C03 first)'.
Made because the suite takes many minutes per mutant on a loaded machine while the check takes well under a minute."""
import json, os, random, re, shutil, subprocess, sys, tempfile
from pathlib import Path

ROOT = Path(__file__).resolve().parent.parent
op, fname = sys.argv[1], sys.argv[2]
per_file = int(sys.argv[3]) if len(sys.argv) > 3 else 0
seed = int(sys.argv[4]) if len(sys.argv) > 4 else 3
only = os.environ.get('MUT_LINES')           # optional: comma separated line numbers
out_path = ROOT / 'seeded' / 'mutants' / f'C03_{op}.json'
out_path.parent.mkdir(parents=True, exist_ok=True)


def sites(text):
    out = []
    if op == 'swapidx':
        for m in re.finditer(r'\[(-1|0)\](?!\s*=[^=])', text):
            out.append((m.start(), m.end(), '[0]' if m.group(1) == '-1' else '[-1]'))
    elif op == 'notnone':
        for m in re.finditer(r'\bif ([\w\.]+) is not None:', text):
            out.append((m.start(), m.end(), f'if {m.group(1)}:'))
        for m in re.finditer(r'\bif ([\w\.]+) is None:', text):
            out.append((m.start(), m.end(), f'if not {m.group(1)}:'))
    elif op == 'boolflip':
        for m in re.finditer(r'(?<=[(, ])(True|False)(?=[,)])', text):
            out.append((m.start(), m.end(), 'False' if m.group(1) == 'True' else 'True'))
    elif op == 'plusone':
        for m in re.finditer(r'(?<=[\w\)\]]) ([+-]) 1\b(?!\d)', text):
            out.append((m.start(), m.end(), ''))
    elif op == 'offby':
        for m in re.finditer(r'(?<![\w\.])(end_col|col|end_ln|ln|idx|start|stop) ([<>])=? ', text):
            s = m.group(0)
            new = s.replace(m.group(2) + '= ', m.group(2) + ' ') if '= ' in s[len(m.group(1)) + 1:] else s.replace(m.group(2) + ' ', m.group(2) + '= ')
            out.append((m.start(), m.end(), new))
    elif op == 'dropcall':
        for m in re.finditer(r'^([ \t]+)((?:self|parent|root|fst_|self\.root|parenta\.f|ast\.f|[a-z_]+)\.(?:_touch|_touchall|_offset|_set_end_pos|_set_start_pos|_fix_\w+|_maybe_\w+|_unmake_fst_tree|_make_fst_tree|_reparse_docstr_Constants)\([^\n]*\))[ \t]*(#[^\n]*)?$', text, re.M):
            if m.group(2).count('(') == m.group(2).count(')'):
                out.append((m.start(2), m.end(2), 'pass'))
    return out


def load():
    return json.loads(out_path.read_text()) if out_path.exists() else {}


f = Path('/repo/src/fst') / fname
text = f.read_text()
ss = sites(text)
if only:
    want = {int(x) for x in only.split(',')}
    ss = [s for s in ss if text.count('\n', 0, s[0]) + 1 in want]
elif per_file and len(ss) > per_file:
    ss = sorted(random.Random(seed).sample(ss, per_file))
for (a, b, new) in ss:
    line = text.count('\n', 0, a) + 1
    key = f'{f.name}:{line}:{a}'
    old = load().get(key)
    if os.environ.get('MUT_ONLY_MISSED'):
        if not old or old.get('checks', {}).get('C03') != 'HELD':
            continue
    elif old:
        continue
    S = Path(tempfile.mkdtemp(prefix='c03mut-', dir='/var/tmp'))
    try:
        shutil.copytree('/repo/src', S / 'src')
        (S / 'src' / 'fst' / f.name).write_text(text[:a] + new + text[b:])
        rec = {'file': f.name, 'line': line, 'old': text[a:b][:120], 'new': new[:120], 'src_line': text.split('\n')[line - 1].strip()[:160]}
        c = subprocess.run(['/venv/bin/python', '-m', 'py_compile', str(S / 'src' / 'fst' / f.name)], capture_output=True)
        if c.returncode:
            rec['suite'] = 'does-not-compile'
        else:
            (S / 'evidence').mkdir(exist_ok=True)
            env = dict(os.environ, PFST_REPO=str(S), VERIF_EVIDENCE_DIR=str(S / 'evidence'))
            p = subprocess.run([str(ROOT / 'check'), 'C03'], capture_output=True, text=True, env=env, cwd=ROOT)
            lines = [l for l in p.stdout.splitlines() if l.startswith('VIOLATION')]
            verdict = 'HELD' if p.returncode == 0 else ('no-input' if lines and lines[-1].endswith('no-failing-input-found') else 'caught' if lines else f'exit{p.returncode}')
            rec['checks'] = {'C03': verdict}
            if verdict in ('caught', 'no-input') and not (old and old.get('suite') == 'passes'):
                rec['suite'] = 'not-run (caught by C03 first)'
            elif old and old.get('suite') == 'passes':
                rec['suite'] = 'passes'
            else:
                shutil.copytree('/repo/tests', S / 'tests')
                for extra in ('pyproject.toml', 'setup.cfg', 'pytest.ini', 'conftest.py', 'tox.ini'):
                    if Path('/repo', extra).exists():
                        shutil.copy(Path('/repo', extra), S / extra)
                t = subprocess.run(['/venv/bin/python', '-m', 'pytest', '-q', '-x', '-p', 'no:cacheprovider', '--timeout=900',
                                    '--deselect', 'tests/test_one.py::TestFSTPut::test_get_format_spec', '--deselect', 'tests/test_one.py::TestFSTPut::test_get_one_special',
                                    '--deselect', 'tests/doctests/test_misc_non_expr_compatible_coerce.txt'],
                                   cwd=S, env=dict(os.environ, PYTHONPATH=str(S / 'src')), capture_output=True, text=True)
                tail = (t.stdout.strip().splitlines() or ['?'])[-1]
                rec['suite'] = 'passes' if t.returncode == 0 else 'killed: ' + tail[:100]
        res = load()
        res[key] = rec
        out_path.write_text(json.dumps(res, indent=1, sort_keys=True))
        print(key, rec.get('suite'), rec.get('checks'), rec['src_line'][:90], flush=True)
    finally:
        shutil.rmtree(S, ignore_errors=True)
