import argparse
import os
import sys
from pathlib import Path

sys.path.insert(0, str(Path(__file__).resolve().parent))
sys.setrecursionlimit(10000)

import warnings  # noqa: E402
warnings.filterwarnings('ignore')

import framework  # noqa: E402


def main():
    ap = argparse.ArgumentParser()
    ap.add_argument('pid')
    ap.add_argument('--tier', default=os.environ.get('VERIF_TIER', 'quick'), choices=['quick', 'thorough'])
    ap.add_argument('--seed', type=int, default=int(os.environ.get('VERIF_SEED', '0') or 0))
    ap.add_argument('--replay')
    a = ap.parse_args()
    try:
        rc = framework.run_check(a.pid, a.tier, a.seed, a.replay)
    except Exception:
        import traceback
        traceback.print_exc()
        rc = 2
    sys.exit(rc)


main()
