"""C04 correspondence generators: `_put_src` splices, trivia blocks, trivia option values.  Real functions are called
here (module-level functions so that `framework.pmap` can fork them); the Lean model is run by the caller."""

from __future__ import annotations

import itertools
import random

# ---------------------------------------------------------------------------------------------------------------------
# _put_src

PUT_ALPHA = ['', 'a', 'bé', 'cde', ' 日# ']
PUT_SHAPES = [None, [''], ['X'], ['', ''], ['X', 'Yü'], ['', 'Q'], ['X', '', 'Zz'], ['p', 'q', '', 's'], ['😀', ''], ['é']]

_ROOT = None


def _root():
    global _ROOT
    if _ROOT is None:
        from fst import FST
        _ROOT = FST('x = 1', 'exec')
    return _ROOT


def real_put_src(lines, put, ln, col, eln, ecol):
    """Call the real `_put_src` (default `tail=...`, no offsetting) on a real FST root whose line list is `lines`."""
    from fst.astutil import bistr
    from fst.fst_core import _params_offset
    root = _root()
    root._lines[:] = [bistr(l) for l in lines]
    pl = [''] if not put else put
    po = _params_offset(root._lines, pl, ln, col, eln, ecol)
    ret = root._put_src(None if put is None else list(put), ln, col, eln, ecol)
    out = [str(l) for l in root._lines]
    bad = [type(l).__name__ for l in root._lines if type(l).__name__ != 'bistr']
    return {'lines': out, 'po': [po[0], po[1], po[2], po[3]]}, ret, bad


def put_src_small(arg):
    """(tuple of lines) -> [(case, impl)] every valid span x every put shape"""
    L = arg
    n = len(L)
    out = []
    for put in PUT_SHAPES:
        for ln in range(n):
            for eln in range(ln, n):
                for col in range(len(L[ln]) + 1):
                    for ecol in range(len(L[eln]) + 1):
                        if (ln, col) > (eln, ecol):
                            continue
                        case = {'f': 'C04.put_src', 'lines': list(L), 'put': put, 'a': [ln, col, eln, ecol]}
                        try:
                            impl, ret, bad = real_put_src(L, put, ln, col, eln, ecol)
                            if ret is not None or bad:
                                impl = {'exc': f'returned {ret!r} / non-bistr lines {bad}'}
                        except Exception as e:
                            impl = {'exc': type(e).__name__ + ': ' + str(e)[:80]}
                        out.append((case, impl))
    return out


def put_src_small_inputs(quick):
    res = []
    for n in (1, 2, 3):
        alpha = PUT_ALPHA if (n < 3 or not quick) else PUT_ALPHA[:3]
        for L in itertools.product(alpha, repeat=n):
            res.append(L)
    if not quick:
        for L in itertools.product(PUT_ALPHA[:3], repeat=4):
            res.append(L)
    return res


def put_src_file(arg):
    """(source text, seed, n) -> [(case, impl)] random spans on a real file, puts made of pieces of the file"""
    src, seed, n = arg
    rng = random.Random(seed)
    lines = src.split('\n')
    if len(lines) > 400:
        s = rng.randrange(len(lines) - 400)
        lines = lines[s:s + 400]
    out = []
    for _ in range(n):
        ln = rng.randrange(len(lines))
        eln = min(len(lines) - 1, ln + rng.choice([0, 0, 0, 1, 1, 2, 5, 30]))
        col = rng.randint(0, len(lines[ln]))
        ecol = rng.randint(0, len(lines[eln]))
        if (ln, col) > (eln, ecol):
            col, ecol = ecol, col
        k = rng.choice([0, 1, 1, 1, 2, 2, 3, 6])
        if k == 0:
            put = rng.choice([None, ['']])
        else:
            put = []
            for _ in range(k):
                l = rng.choice(lines)
                a = rng.randint(0, len(l))
                put.append(l[a:rng.randint(a, len(l))] + rng.choice(['', '', 'é', ' # ü']))
        case = {'f': 'C04.put_src', 'lines': lines, 'put': put, 'a': [ln, col, eln, ecol]}
        try:
            impl, ret, bad = real_put_src(lines, put, ln, col, eln, ecol)
            if ret is not None or bad:
                impl = {'exc': f'returned {ret!r} / non-bistr lines {bad}'}
        except Exception as e:
            impl = {'exc': type(e).__name__ + ': ' + str(e)[:80]}
        # independent spec of the splice on the flat text (plain Python)
        flat = '\n'.join(lines)
        o1 = sum(len(x) + 1 for x in lines[:ln]) + col
        o2 = sum(len(x) + 1 for x in lines[:eln]) + ecol
        spec = flat[:o1] + '\n'.join(put or ['']) + flat[o2:]
        ok = 'lines' in impl and '\n'.join(impl['lines']) == spec
        out.append((case, impl, ok))
    return out


# ---------------------------------------------------------------------------------------------------------------------
# trivia blocks

KINDS4 = ['', '# c', '\\', 'y = 2']                      # blank / comment / continuation / code
KINDS_RICH = ['', '   ', '# c', '    # i', '\\', '  \\', 'y = 2', 'y = 2  # t', 'z = \\', '#', '\t#tab', ' \\ ', '\x0c',
              'é = 1 # ü', '\xa0', '    ', '# \\', 'a; b', '\x0c# ff']

LEAD_ELEMS = [('x', 0), ('  x', 2), ('a; x', 3), ('\tx', 1), ('', 0)]          # (element line, col)
TRAIL_ELEMS = [('x', 1), ('x  # c', 1), ('x ;', 1), ('x \\', 1), ('x   ', 1), ('x # c', 3), ('xé\x0c # c', 2), ('x y', 1)]

SPACES = [False, True, 0, 1, 2, 3, 7]


def _lead_comments(n):
    return ['none', 'block', 'all'] + list(range(-1, n + 1))


def _trail_comments(n):
    return ['none', 'block', 'all', 'line'] + list(range(-1, n + 1))


def lead_queries(lines, full, rng=None, k=60):
    """all (or sampled) queries for a block whose LAST line is the element line"""
    n = len(lines)
    ln = n - 1
    qs = []
    cols = sorted({0, len(lines[ln]) - len(lines[ln].lstrip()), len(lines[ln])})
    for col in cols:
        for bln in range(0, ln + 1):
            bcols = sorted({0, len(lines[bln]), 1}) if bln < ln else sorted({0, min(1, col), col})
            for bcol in bcols:
                if bln == ln and bcol > col:
                    continue
                for c in _lead_comments(n):
                    for s in SPACES:
                        qs.append([bln, bcol, ln, col, c, s])
    if not full and rng is not None and len(qs) > k:
        qs = rng.sample(qs, k)
    return qs


def trail_queries(lines, full, rng=None, k=60):
    """queries for a block whose FIRST line is the element line (element ends at TRAIL col given by caller)"""
    n = len(lines)
    qs = []
    for ecol in sorted({1, min(2, len(lines[0])), min(3, len(lines[0]))}):
        if ecol > len(lines[0]):
            continue
        for beln in range(0, n):
            if beln == 0:
                becols = sorted({ecol, len(lines[0]), min(len(lines[0]), ecol + 2), len(lines[0]) + 3})
            else:
                becols = sorted({0, len(lines[beln]), 1, len(lines[beln]) + 2})
            for becol in becols:
                if beln == 0 and becol < ecol:
                    continue
                for c in _trail_comments(n):
                    for s in SPACES:
                        qs.append([beln, becol, 0, ecol, c, s])
    if not full and rng is not None and len(qs) > k:
        qs = rng.sample(qs, k)
    return qs


def _canon(r):
    a, b, c = r
    return [list(a), None if b is None else list(b), c]


def run_lead(arg):
    lines, qs = arg
    from fst.fst_trivia import leading_trivia
    out = []
    for q in qs:
        try:
            out.append(_canon(leading_trivia(list(lines), *q)))
        except Exception as e:
            out.append({'exc': type(e).__name__})
    return out


def run_trail(arg):
    lines, qs = arg
    from fst.fst_trivia import trailing_trivia
    out = []
    for q in qs:
        try:
            out.append(_canon(trailing_trivia(list(lines), *q)))
        except Exception as e:
            out.append({'exc': type(e).__name__})
    return out


def trivia_blocks(quick, rng):
    """[(lines, is_exhaustive_block)] bodies (without the element line)"""
    blocks = []
    maxn = 4 if quick else 6
    for n in range(0, maxn + 1):
        for b in itertools.product(KINDS4, repeat=n):
            blocks.append((list(b), True))
    nrand = 500 if quick else 6000
    for _ in range(nrand):
        n = rng.randint(1, 7)
        blocks.append(([rng.choice(KINDS_RICH if rng.random() < 0.7 else KINDS4) for _ in range(n)], False))
    return blocks


# ---------------------------------------------------------------------------------------------------------------------
# trivia option values

T_PREFIX = ['', 'all', 'block', 'none', 'line', 'foo', 'al']
T_SUFFIX = ['', '+', '-', '+0', '+3', '-2', '+12', '-007', '+x', '++', '-+', '1', '+1-', '-1+2', ' ']


def trivia_values():
    atoms = [True, False, 0, 1, 5, -2] + [p + s for p in T_PREFIX for s in T_SUFFIX]
    vals = [('v', a) for a in atoms]
    vals.append(('t', []))
    vals.extend(('t', [a]) for a in atoms)
    small = [True, False, 3, -1, '', 'all', 'block+', 'none-2', 'line', 'line+1', '+', '-3', 'foo', 'all+x']
    vals.extend(('t', [a, b]) for a in small for b in small)
    vals.extend(('t', [a, b, c]) for a in small[:3] for b in small[:3] for c in small[:2])
    return vals


def run_trivia_value(arg):
    kind, v, neg = arg
    from fst.fst_trivia import get_trivia_params
    from fst.fst_options import _check_opt_trivia
    val = tuple(v) if kind == 't' else v
    ok = _check_opt_trivia('trivia', val) is None
    try:
        r = get_trivia_params(val, neg)
        params = [tag(x) for x in r]
    except (ValueError, AssertionError):
        params = None
    out = {'ok': ok, 'params': params}
    if params is not None:
        out['legal'] = (params[0][0] == 'i' or params[0] in ('s:none', 's:all', 's:block')) and \
                       (params[3][0] == 'i' or params[3] in ('s:none', 's:all', 's:block', 's:line'))
    return out


def tag(x):
    """bool / int / str kept apart (Python's `0 == False`)"""
    if isinstance(x, bool):
        return 'b:' + str(x)
    if isinstance(x, int):
        return 'i:' + str(x)
    return 's:' + str(x)


# ---------------------------------------------------------------------------------------------------------------------
# placement of a freshly parsed fragment (fst_put_one._make_exprlike_fst): real replace of an unparenthesized expression by
# a call; the positions of the new node and its children vs the model (parse of the fragment at the origin, placed)

PLACE_CODES = ['nf(p1, p2)', 'ñf("é", p2)', 'nf(p1,\n   p2)', 'nf("日本"\n, ü=p2)']


def place_cases(arg):
    """(src, seed, per) -> [(case, impl, multibyte_before)]"""
    import ast
    import c04_oracle as co
    from fst import FST
    src, seed, per = arg
    rng = random.Random(seed)
    if rng.random() < 0.7:
        src = co.add_multibyte_prefix(src, rng)
    try:
        tree = ast.parse(src)
        tg = co.expr_targets(tree)
    except Exception:
        return []
    lines = src.split('\n')
    rng.shuffle(tg)
    tg.sort(key=lambda t: lines[t[3].lineno - 1].encode()[:t[3].col_offset].isascii())
    out = []
    stmt_of = {}
    for st in ast.walk(tree):
        if isinstance(st, ast.stmt):
            for n in ast.walk(st):
                stmt_of.setdefault(id(n), st) if not isinstance(n, ast.stmt) or n is st else None
    for path, pkind, fld, c in tg[:per * 3]:
        if len(out) >= per:
            break
        s, e = co._span(lines, c)
        # plain targets only: no own parentheses around the element (then the put span is the ast span)
        before = lines[s[0]][:s[1]].rstrip()
        after = lines[e[0]][e[1]:].lstrip()
        if before.endswith('(') and after.startswith(')'):
            continue
        code = rng.choice(PLACE_CODES)
        cl = code.split('\n')
        # continuation lines of the fragment are indented with the block indentation of the enclosing statement
        st = None
        for cand in ast.walk(tree):
            if isinstance(cand, ast.stmt) and (cand.lineno, cand.col_offset) <= (c.lineno, c.col_offset) and \
                    (cand.end_lineno, cand.end_col_offset) >= (c.end_lineno, c.end_col_offset):
                if st is None or (cand.lineno, cand.col_offset) >= (st.lineno, st.col_offset):
                    st = cand
        if st is None:
            continue
        l0 = lines[st.lineno - 1]
        indent = l0[:len(l0) - len(l0.lstrip())]
        put = [cl[0]] + [indent + x for x in cl[1:]]
        frag = ast.parse(code, mode='eval').body
        fnodes = [n for n in ast.walk(frag) if hasattr(n, 'end_col_offset')]
        ib = len(indent.encode())
        pts = []
        for n in fnodes:
            pts.append([n.lineno - 1, n.col_offset + (ib if n.lineno > 1 else 0)])
            pts.append([n.end_lineno - 1, n.end_col_offset + (ib if n.end_lineno > 1 else 0)])
        case = {'f': 'C04.place', 'lines': lines, 'put': put, 'a': [s[0], s[1], e[0], e[1]], 'pts': pts}
        try:
            root = FST(src, 'exec')
            f = root
            for name, i in path:
                f = getattr(f.a, name).f if i is None else getattr(f.a, name)[i].f
            f.replace(code, raw=False)
            f = root
            for name, i in path:
                f = getattr(f.a, name).f if i is None else getattr(f.a, name)[i].f
            rnodes = [n for n in ast.walk(f.a) if hasattr(n, 'end_col_offset')]
            if [type(n).__name__ for n in rnodes] != [type(n).__name__ for n in fnodes]:
                continue
            placed = []
            for n in rnodes:
                placed.append([n.lineno - 1, n.col_offset])
                placed.append([n.end_lineno - 1, n.end_col_offset])
            impl = {'lines': [str(l) for l in root._lines], 'placed': placed}
        except Exception:
            continue
        out.append((case, impl, not lines[s[0]][:s[1]].isascii()))
    return out
