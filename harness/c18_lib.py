"""C18 helpers: AST <-> generic labelled tree translation, template translation (slot discovery written here, not taken
from pfst), match tables from the real matcher, case generation, the real subn runner and the pure-AST reference.

Generic tree: [label, [kids]].  A node label is `Class(prim=repr, ...)` (ctx kept as a primitive); every AST-valued field becomes a
pseudo node `.field` (single) or `#field` (list) whose kids are the field's nodes in order (`~None` for None elements).
"""

from __future__ import annotations

import ast
import copy
import json
import random
import re
import signal

SLOT_RE = re.compile(r'__FS([TSO])_(\w*)$')
STR_LISTS = {('Global', 'names'), ('Nonlocal', 'names'), ('MatchClass', 'kwd_attrs')}
# field order = syntax order of the field blocks where it differs from _fields
ORDER = {
    'FunctionDef': ['decorator_list', 'name', 'type_params', 'args', 'returns', 'body', 'type_comment'],
    'AsyncFunctionDef': ['decorator_list', 'name', 'type_params', 'args', 'returns', 'body', 'type_comment'],
    'ClassDef': ['decorator_list', 'name', 'type_params', 'bases', 'keywords', 'body'],
    'IfExp': ['body', 'test', 'orelse'],
}
EVAL_G = {'__builtins__': {}, 'Ellipsis': Ellipsis, 'inf': float('inf'), 'nan': float('nan'), 'dict': dict}
STMT_LIST_FIELDS = {'body', 'orelse', 'finalbody'}
REFUSALS = ('ValueError', 'NodeError', 'NotImplementedError', 'MatchError', 'ParseError', 'SyntaxError')


def fields_of(n):
    cls = n.__class__.__name__
    return [f for f in ORDER.get(cls, n._fields) if f in n._fields]


VIRTUAL = {'Call': ('args', 'keywords', '_args'), 'ClassDef': ('bases', 'keywords', '_bases')}


def _pos(x):
    v = x.value if isinstance(x, ast.keyword) and not hasattr(x, 'lineno') else x
    return (v.lineno, v.col_offset)


def arglikes(n):
    """[(kind, idx, node)] of a Call / ClassDef in source order (kind 0 = args/bases, 1 = keywords): pfst's virtual
    field `_args` / `_bases`, computed here from CPython positions"""
    a, k, _ = VIRTUAL[n.__class__.__name__]
    items = [(0, i, x) for i, x in enumerate(getattr(n, a))] + [(1, i, x) for i, x in enumerate(getattr(n, k))]
    items.sort(key=lambda t: _pos(t[2]))
    return items


def gen_fields(n, virt):
    """[(field label, is_list, [nodes])] in model order; with `virt` the args/keywords of a Call (bases/keywords of a
    ClassDef) are ONE list field in source order, as pfst slices them"""
    cls = n.__class__.__name__
    out = []
    vf = VIRTUAL.get(cls) if virt else None
    for name in fields_of(n):
        if name in ('ctx', 'type_comment'):
            continue
        v = getattr(n, name, None)
        if vf and name == vf[0]:
            out.append(('#' + vf[2], True, [x for _, _, x in arglikes(n)]))
        elif vf and name == vf[1]:
            continue
        elif isinstance(v, ast.AST):
            out.append(('.' + name, False, [v]))
        elif isinstance(v, list) and (cls, name) not in STR_LISTS:
            out.append(('#' + name, True, list(v)))
    return out


def node_label(n):
    cls = n.__class__.__name__
    prims = []
    for name in fields_of(n):
        if name == 'type_comment':
            continue
        v = getattr(n, name, None)
        if name == 'ctx':
            prims.append(f'ctx={v.__class__.__name__!r}')
        elif isinstance(v, ast.AST) or (isinstance(v, list) and (cls, name) not in STR_LISTS):
            continue
        else:
            prims.append(f'{name}={v!r}')
    return f'{cls}({", ".join(prims)})'


def to_gen(n, virt=False):
    if n is None:
        return ['~None', []]
    return [node_label(n), [[lbl, [to_gen(x, virt) for x in xs]] for lbl, _, xs in gen_fields(n, virt)]]


def from_gen(g):
    lbl, kids = g
    if lbl == '~None':
        return None
    m = re.match(r'(\w+)\((.*)\)$', lbl, re.S)
    cls = getattr(ast, m.group(1))
    kw = eval('dict(' + m.group(2) + ')', EVAL_G)
    for flbl, fkids in kids:
        if flbl[0] == '.':
            if len(fkids) != 1:
                raise ValueError('single field with %d nodes' % len(fkids))
            kw[flbl[1:]] = from_gen(fkids[0])
        elif flbl in ('#_args', '#_bases'):
            xs = [from_gen(k) for k in fkids]
            a, k_, _ = VIRTUAL[m.group(1)]
            kw[a] = [x for x in xs if not isinstance(x, ast.keyword)]
            kw[k_] = [x for x in xs if isinstance(x, ast.keyword)]
        else:
            kw[flbl[1:]] = [from_gen(k) for k in fkids]
    if 'ctx' in kw:
        kw['ctx'] = getattr(ast, kw['ctx'])()
    return cls(**kw)


def strip_ctx(g):
    """generic tree with the expr_context dropped from every label"""
    return [re.sub(r"(, )?ctx='\w+'", '', g[0]).replace('(, ', '('), [strip_ctx(k) for k in g[1]]]


def gen_key(g):
    return json.dumps(g, separators=(',', ':'))


def is_field_label(lbl):
    return lbl[0] in '.#~'


def is_stmt_label(lbl):
    m = re.match(r'(\w+)\(', lbl)
    c = getattr(ast, m.group(1), None) if m else None
    return isinstance(c, type) and issubclass(c, ast.stmt)


def order_safe(tree, plain=False):
    """model walk order (field blocks, virtual fields merged; plain: ast._fields order) == pfst syntax order for every
    node of the tree"""
    from fst.astutil import syntax_ordered_children
    for n in ast.walk(tree):
        mine = []
        if plain:
            for name in n._fields:
                if name == 'ctx':
                    continue
                v = getattr(n, name, None)
                if isinstance(v, ast.AST):
                    mine.append(v)
                elif isinstance(v, list):
                    mine.extend(x for x in v if isinstance(x, ast.AST))
        else:
            for _, _, xs in gen_fields(n, True):
                mine.extend(x for x in xs if isinstance(x, ast.AST))
        theirs = [c for c in syntax_ordered_children(n) if c is not None and not isinstance(c, ast.expr_context)]
        if len(mine) != len(theirs) or any(a is not b for a, b in zip(mine, theirs)):
            return False
    return True


class Intern:
    def __init__(self):
        self.ids = {}
        self.names = []

    def __call__(self, s):
        i = self.ids.get(s)
        if i is None:
            i = self.ids[s] = len(self.names)
            self.names.append(s)
        return i

    def tree(self, g):
        return [self(g[0]), [self.tree(k) for k in g[1]]]

    def untree(self, t):
        return [self.names[t[0]], [self.untree(k) for k in t[1]]]


# ---------------------------------------------------------------------------------------------------------------------
# templates

OVR = {'T': None, 'S': False, 'O': True}
UNMODELLED_SLOT_PARENTS = (ast.BoolOp, ast.Compare, ast.withitem, ast.arguments, ast.MatchClass, ast.Dict, ast.keyword,
                           ast.JoinedStr, ast.FormattedValue)


class Unmodelled(Exception):
    pass


def tmpl_gen(a, tags, in_list=False, parent=None):
    """template AST -> model template term; `tags` interns tag names"""
    if isinstance(a, ast.Expr) and isinstance(a.value, ast.Name) and (m := SLOT_RE.match(a.value.id)) and in_list:
        return ['ss', tags(m.group(2)) if m.group(2) else None, OVR[m.group(1)], 'Expr()', '.value']
    if isinstance(a, ast.Name) and (m := SLOT_RE.match(a.id)):
        if isinstance(parent, UNMODELLED_SLOT_PARENTS):
            raise Unmodelled('slot parent ' + parent.__class__.__name__)
        return ['s', tags(m.group(2)) if m.group(2) else None, in_list, OVR[m.group(1)]]
    if a is None:
        return ['n', '~None', []]
    for name in fields_of(a):
        v = getattr(a, name, None)
        if name in ('ctx', 'type_comment'):
            continue
        if isinstance(v, str) and SLOT_RE.match(v) or isinstance(a, ast.Constant) and isinstance(v, (str, bytes)) and \
                re.search(rb'__FS[TSO]_' if isinstance(v, bytes) else r'__FS[TSO]_', v):
            raise Unmodelled('identifier/string slot')
    kids = []
    for lbl, is_list, xs in gen_fields(a, True):
        kids.append(['n', lbl, [tmpl_gen(x, tags, is_list, a) for x in xs]])
    return ['n', node_label(a), kids]


def tmpl_root(a, tags):
    if isinstance(a, ast.Module):
        return ['module', [tmpl_gen(s, tags, True, a) for s in a.body]]
    return ['single', tmpl_gen(a, tags, False, None)]


def intern_tmpl(tm, I):
    if tm[0] == 'n':
        return ['n', I(tm[1]), [intern_tmpl(k, I) for k in tm[2]]]
    if tm[0] == 'ss':
        return ['ss', tm[1], tm[2], I(tm[3]), I(tm[4])]
    return tm


# ---------------------------------------------------------------------------------------------------------------------
# match results of the real matcher -> model environments

def _view_elems(v):
    base = v.base.a
    vf = VIRTUAL.get(base.__class__.__name__)
    if vf and v.field == vf[2]:
        return [x for _, _, x in arglikes(base)][v.start:v.stop]
    if not hasattr(base, v.field):
        raise Unmodelled('virtual view')
    return getattr(base, v.field)[v.start:v.stop]


def _is_stmts(elems, base, field):
    if elems:
        return isinstance(elems[0], ast.stmt)
    return field in STMT_LIST_FIELDS and isinstance(base, (ast.stmt, ast.mod, ast.ExceptHandler, ast.match_case))


def _virtual_ok(parent):
    """parents whose virtual slice field is modelled (Call._args, ClassDef._bases by source order) or that have none"""
    return not isinstance(parent, (ast.Compare, ast.Dict, ast.MatchMapping, ast.arguments))


def env_of(m, tags):
    """FSTMatch -> [[tag, cap], ...] with generic trees; raises Unmodelled for captures outside the modelled set.
    Quantifier elements are given by their REAL field and index (kind, pfield.idx) plus the layout of the virtual field
    in source order (from CPython positions); the index mapping itself is the model's."""
    from fst import FST
    from fst.view import FSTView
    from fst.match import FSTMatch
    env = []
    for tag, v in m.tags.items():
        if isinstance(v, FST):
            env.append([tags(tag), ['one', to_gen(v.a, True), v is m.matched]])
        elif isinstance(v, FSTView):
            if not _virtual_ok(v.base.a):
                raise Unmodelled('virtual view')
            el = _view_elems(v)
            if any(not isinstance(x, ast.AST) for x in el):
                raise Unmodelled('view of non-nodes')
            env.append([tags(tag), ['view', [to_gen(x, True) for x in el], _is_stmts(el, v.base.a, v.field)]])
        elif isinstance(v, list):
            items, field, order, stmts, parent = [], [], [], False, None

            def leaf(x):
                nonlocal field, order, stmts, parent
                if not isinstance(x, FST):
                    raise Unmodelled('quantifier element ' + x.__class__.__name__)
                pf = x.pfield
                if pf.idx is None or not _virtual_ok(x.parent.a):
                    raise Unmodelled('quantifier over virtual field')
                pa = x.parent.a
                vf = VIRTUAL.get(pa.__class__.__name__)
                virt = vf is not None and pf.name in vf[:2]
                if parent is None:
                    parent = pa
                    if virt:
                        al = arglikes(pa)
                        field = [to_gen(e, True) for _, _, e in al]
                        order = [[k, i] for k, i, _ in al]
                    else:
                        fl = getattr(pa, pf.name)
                        field = [to_gen(e, True) for e in fl]
                        order = [[0, i] for i in range(len(fl))]
                    stmts = isinstance(x.a, ast.stmt)
                return [1 if virt and pf.name == vf[1] else 0, pf.idx]

            for q in v:
                if not isinstance(q, FSTMatch):
                    raise Unmodelled('quantifier item')
                if isinstance(q.matched, list):
                    items.append(['m', [leaf(x) for x in q.matched]])
                else:
                    k, i = leaf(q.matched)
                    items.append(['o', k, i])
            env.append([tags(tag), ['qv', field, order, items, stmts]])
        elif v is None:
            continue
        else:
            raise Unmodelled('static tag')
    return env


def intern_env(env, I):
    out = []
    for tag, cap in env:
        if cap[0] == 'one':
            out.append([tag, ['one', I.tree(cap[1]), cap[2]]])
        elif cap[0] == 'view':
            out.append([tag, ['view', [I.tree(t) for t in cap[1]], cap[2]]])
        elif cap[0] == 'qv':
            out.append([tag, ['qv', [I.tree(t) for t in cap[1]], cap[2], cap[3], cap[4]]])
        else:
            out.append([tag, ['q', [I.tree(t) for t in cap[1]], cap[2], cap[3]]])
    return out


def make_pattern(spec):
    import fst.match as fm
    ns = {k: v for k, v in vars(ast).items() if isinstance(v, type) and issubclass(v, ast.AST)}
    ns.update({k: getattr(fm, k) for k in dir(fm) if k.startswith('M')})
    ns.update({'Load': ast.Load, 'Store': ast.Store, 'Del': ast.Del, 'Name': ast.Name, 'Attribute': ast.Attribute})
    return eval(spec, ns)


def fst_of_ast(a):
    """FST node for a detached AST node, keeping its own expression context (a bare FST(node) normalises to Load)"""
    from fst import FST
    ctx = getattr(a, 'ctx', None)
    if isinstance(ctx, ast.Store):
        w = ast.Assign([a], ast.Constant(0))
    elif isinstance(ctx, ast.Del):
        w = ast.Delete([a])
    else:
        ast.fix_missing_locations(a)
        return FST(a)
    ast.fix_missing_locations(w)
    return FST(w).a.targets[0].f


def fst_of_gen(g):
    return fst_of_ast(from_gen(g))


class Timeout(BaseException):
    pass


def _alarm(signum, frame):
    raise Timeout()


def with_timeout(seconds, fn, *args):
    """run fn(*args) under a SIGALRM timeout; nests (an enclosing timeout keeps running)"""
    import time
    old = signal.signal(signal.SIGALRM, _alarm)
    t0 = time.time()
    prev = signal.alarm(seconds)
    try:
        return fn(*args)
    finally:
        signal.alarm(0)
        signal.signal(signal.SIGALRM, old)
        if prev:
            signal.alarm(max(1, int(prev - (time.time() - t0))))


# ---------------------------------------------------------------------------------------------------------------------
# case generation

# pattern families: (shape, category, spec, {tag: kind})  kinds: E expr node, ES expr slice, S stmt node, SS stmt slice
PATTERNS = [
    ('node', 'expr', 'MName(ctx=Load)', {}),
    ('node', 'expr', 'MCall', {}),
    ('node', 'expr', 'MOR(MName(ctx=Load), MAttribute(ctx=Load))', {}),
    ('node', 'expr', 'MBinOp', {}),
    ('tags', 'expr', 'MBinOp(left=M(l=...), right=M(r=...))', {'l': 'E', 'r': 'E'}),
    ('tags', 'expr', 'MAttribute(value=M(v=...), ctx=Load)', {'v': 'E'}),
    ('tags', 'expr', 'MSubscript(value=M(v=...), slice=M(s=...), ctx=Load)', {'v': 'E', 's': 'E'}),
    ('tags', 'expr', 'MUnaryOp(operand=M(o=...))', {'o': 'E'}),
    ('tags', 'expr', 'MIfExp(test=M(t=...), body=M(b=...), orelse=M(e=...))', {'t': 'E', 'b': 'E', 'e': 'E'}),
    ('tags', 'expr', 'MCall(func=M(f=...))', {'f': 'E'}),
    ('view', 'expr', 'MCall(func=M(f=...), args=M(a=...))', {'f': 'E', 'a': 'ES'}),
    ('view', 'expr', 'MList(elts=M(e=...), ctx=Load)', {'e': 'ES'}),
    ('view', 'expr', 'MTuple(elts=M(e=...), ctx=Load)', {'e': 'ES'}),
    ('qslice', 'expr', 'MCall(args=[M(x=...), MQSTAR(r=...)])', {'x': 'E', 'r': 'ES'}),
    ('qslice', 'expr', 'MCall(args=[MQSTAR(i=...), M(z=...)])', {'i': 'ES', 'z': 'E'}),
    ('qslice', 'expr', 'MList(elts=[M(a=...), MQSTAR(m=...), M(z=...)], ctx=Load)', {'a': 'E', 'm': 'ES', 'z': 'E'}),
    ('qslice', 'expr', 'MList(elts=[MQPLUS(h=...), M(z=...)], ctx=Load)', {'h': 'ES', 'z': 'E'}),
    ('qslice', 'expr', 'MCall(func=M(f=MName), args=[..., MQSTAR(m=...), ...])', {'f': 'N', 'm': 'ES'}),
    ('multi', 'expr', 'MCall(func=M(f=MName), args=[M(x=MName), MQSTAR(r=...)])', {'f': 'N', 'x': 'N', 'r': 'ES'}),
    ('multi', 'expr', 'MBinOp(left=M(l=MName), right=M(r=...))', {'l': 'N', 'r': 'E'}),
    ('multi', 'stmt', 'MExpr(value=MCall(func=M(f=MName), args=M(a=...)))', {'f': 'N', 'a': 'ES'}),
    ('qmulti', 'expr', 'MList(elts=[MQPLUS(g=[M(p=...), M(q=...)]), MQSTAR(rest=...)], ctx=Load)',
     {'g': 'ES', 'rest': 'ES'}),
    ('qmulti', 'expr', 'MCall(args=[M(x=...), MQSTAR(g=[MName, ...]), MQSTAR(rest=...)])',
     {'x': 'E', 'g': 'ES', 'rest': 'ES'}),
    ('multi', 'expr', 'M(w=MCall(func=M(f=MName)))', {'w': 'E', 'f': 'N'}),
    ('multi', 'expr', 'MCall(func=M(f=...), args=[M(x=MCall(args=M(ia=...))), MQSTAR(r=...)])',
     {'f': 'E', 'x': 'E', 'ia': 'ES', 'r': 'ES'}),
    ('multi', 'expr', 'MBinOp(left=M(l=MBinOp(left=M(ll=...), right=M(lr=...))), right=M(r=...))',
     {'l': 'E', 'll': 'E', 'lr': 'E', 'r': 'E'}),
    # virtual fields: quantifier captures over Call._args / ClassDef._bases (kinds: A one arglike, AS arglike slice)
    ('qslice', 'expr', 'MCall(_args=[M(first=...), MQSTAR(rest=...)])', {'first': 'A', 'rest': 'AS'}),
    ('qslice', 'expr', 'MCall(func=M(f=MName), _args=[MQSTAR(init=...), M(last=...)])', {'f': 'E', 'init': 'AS', 'last': 'A'}),
    ('qslice', 'expr', 'MCall(_args=[..., MQSTAR(mid=...), ...])', {'mid': 'AS'}),
    ('qslice', 'expr', 'MCall(_args=[M(first=...), MQSTAR.NG(skip=...), MQPLUS(tail=...)])', {'first': 'A', 'skip': 'AS', 'tail': 'AS'}),
    ('qmulti', 'expr', 'MCall(_args=[M(first=...), MQPLUS(g=[..., ...]), MQSTAR(rest=...)])', {'first': 'A', 'g': 'AS', 'rest': 'AS'}),
    ('qslice', 'expr', 'MCall(keywords=[MQSTAR(kws=...)])', {'kws': 'AS'}),
    ('view', 'expr', 'MCall(func=M(f=...), _args=M(al=...))', {'f': 'E', 'al': 'AS'}),
    ('qslice', 'stmt', 'MClassDef(_bases=[M(first=...), MQSTAR(rest=...)])', {'first': 'A', 'rest': 'AS'}),
    ('qslice', 'stmt', 'MClassDef(_bases=[MQSTAR(init=...), M(last=...)])', {'init': 'AS', 'last': 'A'}),
    ('node', 'stmt', 'MIf', {}),
    ('node', 'stmt', 'MExpr', {}),
    ('node', 'stmt', 'MAssign', {}),
    ('tags', 'stmt', 'MExpr(value=M(v=...))', {'v': 'E'}),
    ('tags', 'stmt', 'MAssign(value=M(v=...))', {'v': 'E'}),
    ('tags', 'stmt', 'MReturn(value=M(v=...))', {'v': 'E'}),
    ('view', 'stmt', 'MIf(test=M(t=...), body=M(b=...), orelse=M(e=...))', {'t': 'E', 'b': 'SS', 'e': 'SS'}),
    ('view', 'stmt', 'MWhile(test=M(t=...), body=M(b=...))', {'t': 'E', 'b': 'SS'}),
    ('view', 'stmt', 'MFor(iter=M(i=...), body=M(b=...))', {'i': 'E', 'b': 'SS'}),
    ('view', 'stmt', 'MFunctionDef(body=M(b=...))', {'b': 'SS'}),
    ('qslice', 'stmt', 'MIf(test=M(t=...), body=[M(first=...), MQSTAR(rest=...)])', {'t': 'E', 'first': 'S', 'rest': 'SS'}),
    ('qslice', 'stmt', 'MIf(body=[MQSTAR(init=...), M(last=...)])', {'init': 'SS', 'last': 'S'}),
    ('qslice', 'stmt', 'MFunctionDef(body=[M(first=...), MQPLUS(rest=...)])', {'first': 'S', 'rest': 'SS'}),
    ('qmulti', 'stmt', 'MIf(body=[MQPLUS(g=[M(p=...), M(q=...)]), MQSTAR(rest=...)])', {'g': 'SS', 'rest': 'SS'}),
    ('multi', 'stmt', 'M(w=MIf(test=M(t=...), body=[M(i=MIf(test=M(it=...), body=M(ib=...))), MQSTAR(ob=...)]))',
     {'w': 'S', 't': 'E', 'i': 'S', 'it': 'E', 'ib': 'SS', 'ob': 'SS'}),
    ('multi', 'stmt', 'MExpr(value=M(c=MCall(func=M(f=...), args=M(a=...))))', {'c': 'E', 'f': 'E', 'a': 'ES'}),
]

# templates: (placement, category, format, needs) ; placeholders: {E} {E2} expr node, {ES} expr slice, {S} stmt node,
# {SS} stmt slice, {W} whole match, {ANY} statement-slot content (S, SS or E), {Z} a tag the pattern never sets
TEMPLATES = [
    ('root', 'expr', '{E}'),
    ('root-whole', 'expr', '{W}'),
    ('call-arg', 'expr', 'log({E})'),
    ('call-arg', 'expr', 'g(0, {E}, k=1)'),
    ('call-arg-whole', 'expr', 'log({W})'),
    ('call-arg-slice', 'expr', 'g(0, {ES}, 1)'),
    ('call-arg-slice', 'expr', 'g({ES})'),
    ('elt', 'expr', '[{E}, 0]'),
    ('elt', 'expr', '(0, {E})'),
    ('elt-slice', 'expr', '[{ES}, 0]'),
    ('elt-slice', 'expr', '(0, {ES}, 1)'),
    ('elt-slice-dup', 'expr', '[{ES}, {E}, {ES}]'),
    ('elt-whole', 'expr', '[{W}, {E}]'),
    ('operand', 'expr', '{E} + 1'),
    ('operand', 'expr', '-{E}'),
    ('operand', 'expr', '0 if {E} else 1'),
    ('value', 'expr', '{E}.attr'),
    ('value', 'expr', '{E}[0]'),
    ('value', 'expr', 'w[{E}]'),
    ('two', 'expr', 'f({E}, {E2})'),
    ('two', 'expr', '{E2} - {E}'),
    ('two', 'expr', '[{E2}, {ES}, {E}]'),
    ('missing-list', 'expr', 'g({Z}, {E})'),
    ('missing-single', 'expr', '{Z} + 1'),
    ('const', 'expr', 'k(0)'),
    ('stmt-slot', 'stmt', 'while 1:\n    pre()\n    {ANY}'),
    ('stmt-slot', 'stmt', 'if 1:\n    {ANY}\n    post()'),
    ('stmt-slot-two', 'stmt', 'if c:\n    {ANY}\nelse:\n    {ANY2}\n    t()'),
    ('module', 'stmt', 'pre()\n{ANY}'),
    ('module', 'stmt', '{ANY}\npost()'),
    ('module-whole', 'stmt', 'pre()\n{W}'),
    ('root', 'stmt', '{SX}'),
    ('root-whole', 'stmt', '{W}'),
    ('expr-in-stmt', 'stmt', 'x = {E}'),
    ('expr-in-stmt', 'stmt', 'if {E}:\n    pass'),
    ('expr-in-stmt', 'stmt', 'call({E}, {E2})'),
    ('stmt-and-expr', 'stmt', 'while {E}:\n    {ANY}\n    z = 1'),
    ('stmt-whole', 'stmt', 'if 1:\n    {W}'),
    ('missing-list', 'stmt', 'if 1:\n    {Z}\n    post()'),
    ('const', 'stmt', 'done = 1'),
    # overrides against the default slice/one decision (documented: __FSO_ puts a slice as one element, __FSS_ splices a node)
    ('override', 'expr', 'g(0, {oES}, 1)'),
    ('override', 'expr', '[{oES}, {E}]'),
    ('override', 'expr', 'g({sEq}, 0)'),
    ('override', 'expr', '[{sEq}, 0]'),
    ('override', 'expr', '({sEq}, {oES})'),
    ('override', 'expr', '{ES1} + 1'),
    ('override', 'expr', 'w[{ES1}]'),
    ('override', 'stmt', 'r = g({sEq}, {oES})'),
    # identifier slots filled from a captured Name
    ('ident', 'expr', 'o.{iN}'),
    ('ident', 'expr', 'g({E}, {iN}=1)'),
    ('ident', 'expr', 'lambda {iN}: {E}'),
    ('ident', 'expr', '{E}.{iN}({iN}={E2})'),
    ('ident', 'stmt', 'def {iN}(p, {iN}=1):\n    return {E}'),
    ('ident', 'stmt', 'import m as {iN}\nglobal {iN}'),
    ('ident', 'stmt', 'class {iN}:\n    v = {E}'),
    ('call-arglike', 'expr', 'g({A}, {AS})'),
    ('call-arglike', 'expr', 'o.m(0, {AS}, z=1)'),
    ('call-arglike', 'expr', 'g({AS})'),
    ('call-arglike', 'expr', 'g({A})'),
    ('call-arglike', 'expr', 'h(g({AS}), {A})'),
    ('call-arglike', 'stmt', 'r = g({A}, {AS})'),
    ('class-bases', 'stmt', 'class K({A}, {AS}):\n    pass'),
    ('class-bases', 'stmt', 'class K({AS}):\n    x = 1'),
    # slots inside string / bytes constants (judged by the reference sweep on the re-parsed result; not in the model)
    ('str-one', 'expr', 'log({E}, "{sE}")'),
    ('str-line-mixed', 'expr', 'p("{sE} ## ", {E}, "{sE2} <-- x", {E2})'),
    ('str-same-const', 'expr', 'p("{sE} ## {sE2} ## {sE}")'),
    ('str-same-const', 'expr', 'p("{sE2} ## {sE}", "{sE} <-- {sE2}", {E})'),
    ('str-whole', 'expr', 'log({W}, "{sW} ## {sW}")'),
    ('str-bytes', 'expr', 'p(b"{sE} ## {sE2}", {E}, b"<-- {sE}")'),
    ('str-multibyte', 'expr', 'p("\u00e9\u2192 {sE} \u2190\u00f1 {sE2} \u65e5", "{sE} \u2192 {sE}")'),
    ('str-multiline', 'expr', 'p("""{sE} ##\n  {sE2} ## {sE}""", "{sE2} ## {sE}")'),
    ('str-missing', 'expr', 'p("{sZ} ## {sE} ## {sZ}", "{sE}")'),
    ('str-in-stmt', 'stmt', 'y = p("{sE} ## {sE2}", {E}, "<-- {sE}")'),
    ('str-in-stmt', 'stmt', 'if 1:\n    note("{sE} ## ", "{sE2} ## {sE}")\n    {ANY}'),
]


def slot(tag, letter='T'):
    return f'__FS{letter}_{tag}'


def make_template(rng, fmt, tagkinds, cat):
    """fill the placeholders of a template format with tags of the pattern; None if the pattern has no suitable tag"""
    by = {}
    for t, k in tagkinds.items():
        by.setdefault(k, []).append(t)
    whole_kind = 'E' if cat == 'expr' else 'S'
    by.setdefault(whole_kind, []).append('')       # the whole match is a node of the pattern's category

    def pick(kinds, letter_ok=True):
        c = [(t, k) for k in kinds for t in by.get(k, [])]
        if not c:
            return None
        t, k = rng.choice(c)
        letter = 'T'
        if letter_ok and rng.random() < 0.25:
            letter = 'S' if k in ('ES', 'SS', 'AS') else 'O'      # overrides that agree with the default decision
        return slot(t, letter)

    out = fmt
    for ph, kinds, letter in (('{oES}', ['ES'], 'O'), ('{sEq}', ['E', 'N'], 'S'), ('{ES1}', ['ES'], 'T'), ('{iN}', ['N'], 'T')):
        while ph in out:
            c = [t for k in kinds for t in by.get(k, []) if t or (cat == 'expr' and ph == '{sEq}')]
            if not c:
                return None
            out = out.replace(ph, slot(rng.choice(c), letter), 1)
    for ph in ('{sE2}', '{sE}'):
        while ph in out:
            c = [t for t in by.get('E', []) + by.get('N', []) if t or cat == 'expr']     # the whole match only if it is an expression
            if not c:
                return None
            out = out.replace(ph, slot(rng.choice(c)), 1)
    out = out.replace('{sW}', slot('')).replace('{sZ}', slot('zz'))
    for ph, kinds in (('{AS}', ['AS', 'ES']), ('{A}', ['A', 'E', 'N']), ('{E2}', ['E', 'N']), ('{E}', ['E', 'N']), ('{ES}', ['ES']), ('{SX}', ['S', 'SS']), ('{SS}', ['SS']),
                      ('{S}', ['S']), ('{ANY2}', ['S', 'SS', 'E', 'N']), ('{ANY}', ['S', 'SS', 'E', 'N'])):
        while ph in out:
            if cat == 'expr' and ph in ('{E}', '{E2}') and not tagkinds and ph == '{E2}':
                s = slot('')
            else:
                s = pick(kinds)
            if s is None:
                return None
            out = out.replace(ph, s, 1)
    out = out.replace('{W}', slot('', rng.choice('TTTO')))
    out = out.replace('{Z}', slot('zz'))
    return out


EXPR_ATOMS = ['a', 'b', 'c', 'x', 'y', 'n', '1', '2', '"s"', 'None', 'a', 'b', 'x', 'longer_name', '\u00e9', '\u00f1u']


class PGen:
    """small programs rich in calls, lists, operators, nested ifs"""

    def __init__(self, rng):
        self.r = rng

    def expr(self, d=0):
        r = self.r
        if d >= 3 or r.random() < 0.3:
            return r.choice(EXPR_ATOMS)
        k = r.randrange(11)
        e = lambda: self.expr(d + 1)
        if k <= 2:
            return f'{r.choice(["f", "g", "h", "o.m", "f(1)"])}({self.arglist(e)})'
        if k == 3:
            return f'[{", ".join(e() for _ in range(r.randint(0, 4)))}]'
        if k == 4:
            n = r.randint(1, 3)
            return '(' + ', '.join(e() for _ in range(n)) + (',' if n == 1 else '') + ')'
        if k == 5:
            return f'({e()} {r.choice(["+", "-", "*"])} {e()})'
        if k == 6:
            return f'{r.choice(["a", "b", "o", "f(x)"])}.{r.choice(["p", "q"])}'
        if k == 7:
            return f'{r.choice(["a", "b", "o.p"])}[{e()}]'
        if k == 8:
            return f'(-{e()})'
        if k == 9:
            return f'({e()} if {e()} else {e()})'
        return r.choice(EXPR_ATOMS)

    def arglist(self, e):
        """positional, *starred and keyword arguments in every legal interleaving (`f(a, k=1, *b, d=2, *e, **c)`)"""
        r = self.r
        args = [e() for _ in range(r.randint(0, 3))]
        c = r.random()
        if c < 0.55:
            return ', '.join(args)
        if c < 0.7:
            return ', '.join(args + [f'k={e()}'])
        seen_kw = False
        names = iter(['k', 'j', 'i', 'm'])
        for _ in range(r.randint(1, 4)):
            t = r.choice(['star', 'kw', 'kw', 'star', 'pos'])
            if t == 'pos' and not seen_kw:
                args.append(e())
            elif t == 'star':
                args.append('*' + r.choice(['a', 'b', 'xs', 'f(x)']))
            else:
                args.append(f'{next(names)}={e()}')
                seen_kw = True
        if r.random() < 0.3:
            args.append('**' + r.choice(['kw', 'd']))
            if r.random() < 0.3:
                args.append(f'z={e()}')
        return ', '.join(args)

    def block(self, d, ind, fn=False):
        return '\n'.join(self.stmt(d + 1, ind, fn) for _ in range(self.r.choice([1, 1, 2, 3])))

    def stmt(self, d=0, ind='', fn=False):
        r = self.r
        k = r.randrange(10) if d < 2 else r.randrange(4)
        e = self.expr
        if k == 9:
            return f'{ind}class C{r.randint(0, 9)}({self.arglist(lambda: r.choice(["B", "m.A", "g(1)", "T"]))}):\n{self.block(d, ind + "    ", False)}'
        if k == 0:
            return f'{ind}{e()}'
        if k == 1:
            return f'{ind}{r.choice(["x", "y", "o.z"])} = {e()}'
        if k == 2:
            return f'{ind}{e(1)}' + r.choice(['', '  # note', ''])
        if k == 3:
            return f'{ind}return {e()}' if fn else f'{ind}{r.choice(["v", "w"])} = {e(1)}'
        if k in (4, 5):
            s = f'{ind}if {e(1)}:\n{self.block(d, ind + "    ", fn)}'
            if r.random() < 0.4:
                s += f'\n{ind}else:\n{self.block(d, ind + "    ", fn)}'
            return s
        if k == 6:
            return f'{ind}while {e(2)}:\n{self.block(d, ind + "    ", fn)}'
        if k == 7:
            return f'{ind}for i in {e(2)}:\n{self.block(d, ind + "    ", fn)}'
        return f'{ind}def fn(p, q=1):\n{self.block(d, ind + "    ", True)}'

    def program(self):
        return '\n'.join(self.stmt(0) for _ in range(self.r.choice([1, 1, 2, 2, 3])))


def gen_program(rng):
    g = PGen(rng)
    for _ in range(20):
        src = g.program()
        try:
            ast.parse(src)
            return src
        except SyntaxError:
            continue
    return 'f(a, b)'


def classes_in(src):
    return {n.__class__.__name__ for n in ast.walk(ast.parse(src))}


PAT_ROOT_CLASS = re.compile(r'M(?:OR\()?M?\(?w?=?M?([A-Z][A-Za-z]+)')


def pattern_applies(spec, classes):
    names = re.findall(r'M([A-Z][a-z][A-Za-z]*)', spec)
    return bool(names) and names[0] in classes


def settings(rng, full=False):
    c = rng.random()
    nested = rng.random() < 0.45
    on = 'leave' if rng.random() < 0.3 else 'enter'
    count = rng.choice([0, 0, 0, 1, 2, 3])
    loop = False
    if rng.random() < 0.25:
        loop = rng.choice([1, 2, 2, 3, True])
    return {'nested': nested, 'on': on, 'count': count, 'loop': loop}


def setting_name(s):
    return (f'{s["on"]},{"nested" if s["nested"] else "flat"},{"count" if s["count"] else "all"},'
            f'{"loop" if s["loop"] is not False else "once"}' + (',ctx' if s.get('ctx') else ''))


def gen_jobs(rng, n, string_slots=True):
    jobs = []
    tries = 0
    while len(jobs) < n and tries < n * 30:
        tries += 1
        src = gen_program(rng)
        cls = classes_in(src)
        pats = [p for p in PATTERNS if pattern_applies(p[2], cls)]
        if not pats:
            continue
        shape, cat, spec, tagkinds = rng.choice(pats)
        cands = [t for t in TEMPLATES if t[1] == cat and (string_slots or not (t[0].startswith('str-') or t[0] in ('override', 'ident')))]
        placement, _, fmt = rng.choice(cands)
        tm = make_template(rng, fmt, tagkinds, cat)
        if tm is None:
            continue
        jobs.append({'src': src, 'shape': shape, 'cat': cat, 'pat': spec, 'placement': placement, 'tmpl': tm,
                     'set': settings(rng)})
    return jobs


def _d(src, shape, cat, pat, placement, tmpl, **st):
    s = {'nested': False, 'on': 'enter', 'count': 0, 'loop': False}
    s.update(st)
    return {'src': src, 'shape': shape, 'cat': cat, 'pat': pat, 'placement': placement, 'tmpl': tmpl, 'set': s}


_WITH = 'with a:\n    with b:\n        with c:\n            with d:\n                with e:\n                    pass\n'
_IFS = 'if a:\n    if b:\n        x\n    y\nz\n'
_IFPAT = 'MIf(test=M(t=...), body=M(b=...))'
_WPAT = ('MWith(items=M(oi=...), body=[MWith(items=M(ii=...), body=M(ib=...)), MQSTAR(ob=...)])')
# directed cases (documentation examples and the witnesses of the findings); run in every sweep and correspondence
DIRECTED = [
    _d('a + b.c\n', 'node', 'expr', 'MName(ctx=Load)', 'call-arg-whole', 'log(__FST_)'),
    _d('a + b.c\n', 'node', 'expr', 'MOR(MName(ctx=Load), MAttribute(ctx=Load))', 'call-arg-whole', 'log(__FST_)', nested=True),
    _d('i = j.k = a + b[c]\n', 'node', 'expr', 'MName(ctx=Load)', 'call-arg-whole', 'log(__FST_)', nested=True),
    _d('x = [a, b, c, d, e]\n', 'qslice', 'expr', 'MList(elts=[..., MQSTAR(m=...), ...], ctx=Load)', 'elt-slice', '{x, __FST_m, y}'),
    _d('x = [a, b, c]\n', 'view', 'expr', 'MList(elts=M(e=...), ctx=Load)', 'elt-slice', '[x, __FST_e, y]'),
    _d('x = [a, b, c]\n', 'multi', 'expr', 'M(t=MList(ctx=Load))', 'elt', '[x, __FST_t, y]'),
    _d('f(g(a), b)\nk(1)\n', 'node', 'expr', 'MCall', 'root-whole', '__FST_', nested=True),
    _d('f(g(a), b)\nk(1)\n', 'node', 'expr', 'MCall', 'root-whole', '__FST_'),
    _d('f(g(a), b)\n', 'qslice', 'expr', 'MCall(args=[MQSTAR(x=...)])', 'call-arg-slice', 'h(0, __FST_x, 1)', nested=True),
    _d('f(g(a), b)\n', 'qslice', 'expr', 'MCall(args=[MQSTAR(x=...)])', 'call-arg-slice', 'h(0, __FST_x, 1)', on='leave'),
    _d('f(g(a), b)\n', 'qslice', 'expr', 'MCall(args=[MQSTAR(x=...)])', 'call-arg-slice', 'h(0, __FST_x, 1)', count=1, nested=True),
    _d(_IFS, 'view', 'stmt', _IFPAT, 'stmt-slot', 'while __FST_t:\n    __FST_b', nested=True),
    _d(_IFS, 'view', 'stmt', _IFPAT, 'stmt-slot', 'while __FST_t:\n    __FST_b', nested=True, count=1),
    _d(_IFS, 'view', 'stmt', _IFPAT, 'module', 'pre(__FST_t)\n__FST_b'),
    _d(_IFS, 'view', 'stmt', _IFPAT, 'module', 'pre(__FST_t)\n__FST_b', on='leave'),
    _d(_IFS, 'view', 'stmt', _IFPAT, 'module', 'pre(__FST_t)\n__FST_b', nested=True),        # C18-F1 witness
    _d('v = [[b], a]\n', 'node', 'expr', 'MList(ctx=Load)', 'override', '(__FSS_, 0)', nested=True),     # C18-F5 witness
    _d('v = [[b], a]\n', 'node', 'expr', 'MList(ctx=Load)', 'override', 'g(__FSS_, 0)', nested=True),
    _d(_IFS, 'view', 'stmt', _IFPAT, 'root', '__FST_b', loop=True),
    _d('x = a\n', 'node', 'expr', 'MName(ctx=Load)', 'str-whole', 'log(__FST_, "__FST_")'),
    _d('print(rec.name, idx)\nlog(rec.name, idx)\nprint(total, rec.items[idx])  # trailing\n', 'tags', 'expr',
       'MCall(func=MName("print"), args=[M(a=...), M(b=...)])', 'str-line-mixed',
       'print("__FST_a =", __FST_a, "__FST_b =", __FST_b)'),
    _d('short = [a, b]\nlong_ = [c, d, e, f, g]  # five\nother = [h, i, j, k, l]\n', 'qslice', 'expr',
       'MList(elts=[M(a=...), M(b=...), MQSTAR(tail=...)], ctx=Load)', 'chain-list', '[__FST_a + __FST_b, __FST_tail]', loop=3),
    _d('short = [a, b]\nlong_ = [c, d, e, f, g]  # five\nother = [h, i, j, k, l]\n', 'qslice', 'expr',
       'MList(elts=[M(a=...), M(b=...), MQSTAR(tail=...)], ctx=Load)', 'chain-list', '[__FST_a + __FST_b, __FST_tail]', loop=2, on='leave'),
    _d(_IFS, 'node', 'stmt', 'MIf', 'root-whole', '__FST_', nested=True),
    _d('if a:\n    a_true()\nelse:\n    a_false()\n    fail()\n', 'view', 'stmt',
       'MIf(test=M(t=...), body=M(b=...), orelse=M(e=...))', 'stmt-slot-two',
       'if not __FST_t:\n    __FST_e\nelse:\n    __FST_b'),
    _d(_WITH, 'multi', 'stmt', _WPAT, 'stmt-slot', 'with __FST_oi, __FST_ii:\n    __FST_ib\n    __FST_ob', nested=True),
    _d(_WITH, 'multi', 'stmt', _WPAT, 'stmt-slot', 'with __FST_oi, __FST_ii:\n    __FST_ib\n    __FST_ob', nested=True, count=1),
    _d(_WITH, 'multi', 'stmt', _WPAT, 'stmt-slot', 'with __FST_oi, __FST_ii:\n    __FST_ib\n    __FST_ob', loop=True),
    _d(_WITH, 'multi', 'stmt', _WPAT, 'stmt-slot', 'with __FST_oi, __FST_ii:\n    __FST_ib\n    __FST_ob', on='leave'),
    _d(_WITH, 'multi', 'stmt', _WPAT, 'stmt-slot', 'with __FST_oi, __FST_ii:\n    __FST_ib\n    __FST_ob', nested=True, loop=2),
]


# ---------------------------------------------------------------------------------------------------------------------
# loop chains: pattern/template pairs whose rewrite still matches a bounded number of times (the chain length depends on
# the matched node), over programs with several match locations of different chain lengths

CHAINS = [
    # (shape, cat, pattern, template, construct generator name)
    ('qslice', 'expr', 'MList(elts=[M(a=...), M(b=...), MQSTAR(tail=...)], ctx=Load)', '[__FST_a + __FST_b, __FST_tail]', 'list'),
    ('qslice', 'expr', 'MCall(func=M(f=MName), args=[M(x=...), MQSTAR(r=...)])', '__FST_f(__FST_r)', 'call'),
    ('qslice', 'expr', 'MTuple(elts=[M(a=...), MQPLUS(r=...)], ctx=Load)', '(__FST_r,)', 'tuple'),
    ('multi', 'expr', 'MAttribute(value=M(v=MAttribute(value=M(vv=...))), ctx=Load)', '__FST_vv.z', 'attr'),
    ('multi', 'expr', 'MBinOp(left=M(l=MBinOp(left=M(ll=...), right=M(lr=...))), right=M(r=...))',
     '__FST_ll + (__FST_lr - __FST_r)', 'binop'),
    ('qslice', 'stmt', 'MIf(test=M(t=...), body=[M(first=...), MQPLUS(rest=...)])', 'if __FST_t:\n    __FST_rest', 'if'),
    ('qslice', 'stmt', 'MWhile(test=M(t=...), body=[MQPLUS(init=...), M(last=...)])', 'while __FST_t:\n    __FST_init', 'while'),
]


def _chain_construct(rng, kind, n):
    at = lambda: rng.choice(['a', 'b', 'c', 'd', 'e', 'k', '1', '2'])
    if kind == 'list':
        return '[' + ', '.join(at() for _ in range(n)) + ']'
    if kind == 'call':
        return rng.choice(['f', 'g', 'h']) + '(' + ', '.join(at() for _ in range(n)) + ')'
    if kind == 'tuple':
        return '(' + ', '.join(at() for _ in range(n)) + (',' if n == 1 else '') + ')'
    if kind == 'attr':
        return 'o' + ''.join('.' + rng.choice('pqrs') for _ in range(n))
    if kind == 'binop':
        e = at()
        for _ in range(n):
            e = f'({e} * {at()})'
        return e
    raise KeyError(kind)


def chain_program(rng, kind):
    """several match locations with different chain lengths (some stop at once, some never match)"""
    k = rng.randint(2, 5)
    lens = [rng.choice([0, 1, 2, 2, 3, 4, 5, 6]) for _ in range(k)]
    lines = []
    if kind in ('if', 'while'):
        for n in lens:
            body = [rng.choice(['a', 'b()', 'x = 1', 'y', 'pass']) for _ in range(max(n, 1))]
            head = ('if ' if kind == 'if' else 'while ') + rng.choice(['a', 'b', 'c']) + ':'
            lines.append(head + '\n' + '\n'.join('    ' + b for b in body))
            if rng.random() < 0.3:
                lines.append(rng.choice(['z = 0', 'k()']))
        return '\n'.join(lines)
    for i, n in enumerate(lens):
        c = _chain_construct(rng, kind, n)
        form = rng.randrange(4)
        if form == 0:
            lines.append(f'v{i} = {c}')
        elif form == 1:
            lines.append(f'use({c}, 0)' if kind != 'call' else f'w = [{c}, 0]')
        elif form == 2:
            lines.append(f'if t{i}:\n    v = {c}')
        else:
            lines.append(f'{c}  # c{i}' if kind not in ('tuple',) else f'r = {c}')
    return '\n'.join(lines)


def gen_chain_jobs(rng, n, allow_nested=True):
    jobs = []
    for _ in range(n):
        shape, cat, pat, tmpl, kind = rng.choice(CHAINS)
        src = chain_program(rng, kind)
        try:
            ast.parse(src)
        except SyntaxError:
            continue
        st = {'nested': allow_nested and rng.random() < 0.2, 'on': 'leave' if rng.random() < 0.25 else 'enter',
              'count': rng.choice([0, 0, 0, 2]), 'loop': rng.choice([1, 2, 2, 3, 3, 4, 6, True])}
        jobs.append({'src': src, 'shape': shape, 'cat': cat, 'pat': pat, 'placement': 'chain-' + kind, 'tmpl': tmpl,
                     'set': st})
    return jobs


# ---------------------------------------------------------------------------------------------------------------------
# virtual fields: calls / class definitions whose positional, starred and keyword arguments interleave in every legal way,
# quantifier captures whose first / last element is of each kind

def _arglike_list(rng, atoms):
    at = lambda: rng.choice(atoms)
    args = [at() for _ in range(rng.randint(0, 2))]
    seen_kw = False
    names = iter(['k', 'j', 'i', 'm', 'n2'])
    for _ in range(rng.randint(0, 4)):
        t = rng.choice(['star', 'kw', 'kw', 'star', 'pos'])
        if t == 'pos' and not seen_kw:
            args.append(at())
        elif t == 'star':
            args.append('*' + rng.choice(['xs', 'ys', 'f(x)']))
        else:
            args.append(f'{next(names)}={at()}')
            seen_kw = True
    if rng.random() < 0.3:
        args.append('**' + rng.choice(['kw', 'd']))
        if rng.random() < 0.3:
            args.append(f'z={at()}')
    return ', '.join(args)


def arglike_program(rng, cls):
    lines = []
    for i in range(rng.randint(2, 4)):
        if cls:
            lines.append(f'class C{i}({_arglike_list(rng, ["B", "m.A", "T"])}):\n    v = {i}')
        else:
            call = f'{rng.choice(["log", "f", "o.m"])}({_arglike_list(rng, ["a", "b", "fmt", "1", "g(x)"])})'
            form = rng.randrange(4)
            lines.append([call + '  # c', f'r{i} = wrap({call}, keep=1, *u)', f'if t:\n    {call}', f'v{i} = [{call}, 0]'][form])
    return '\n'.join(lines)


def gen_arglike_jobs(rng, n):
    pats = [p for p in PATTERNS if '_args' in p[2] or '_bases' in p[2] or 'keywords=[' in p[2] or p[2].startswith('MCall(args=[')]
    jobs = []
    while len(jobs) < n:
        shape, cat, spec, tagkinds = rng.choice(pats)
        cls = 'ClassDef' in spec
        src = arglike_program(rng, cls)
        try:
            ast.parse(src)
        except SyntaxError:
            continue
        cands = [t for t in TEMPLATES if t[1] == cat and (t[0] in ('call-arglike', 'class-bases') or rng.random() < 0.1)
                 and not t[0].startswith('str-')]
        placement, _, fmt = rng.choice(cands)
        tm = make_template(rng, fmt, tagkinds, cat)
        if tm is None:
            continue
        st = settings(rng)
        if rng.random() < 0.5:
            st['loop'] = False
        jobs.append({'src': src, 'shape': shape, 'cat': cat, 'pat': spec, 'placement': placement, 'tmpl': tm, 'set': st})
    return jobs


# ---------------------------------------------------------------------------------------------------------------------
# expr_context: the same names in Load / Store / Del positions, patterns whose ctx INSTANCE discriminates only with ctx=True

CTX_PATTERNS = [
    ('node', 'expr', 'Name("{n}", Load())', {}), ('node', 'expr', 'Name("{n}", Store())', {}),
    ('node', 'expr', 'Name("{n}", Del())', {}), ('node', 'expr', 'MName(ctx=Load())', {}),
    ('node', 'expr', 'MName("{n}", ctx=Store())', {}), ('tags', 'expr', 'MAttribute(value=M(v=...), ctx=Load())', {'v': 'E'}),
    ('tags', 'expr', 'MSubscript(value=M(v=...), ctx=Store())', {'v': 'E'}),
]
CTX_TEMPLATES = [('value', 'o.r'), ('value', 'w[0]'), ('value', '{W}.q'), ('value', 'w[{W}]'), ('root-whole', '{W}')]


def ctx_program(rng):
    names = ['a', 'b', 'x', 'total']
    n = lambda: rng.choice(names)
    forms = ['{n} = {m}', '{n} += {m}', 'r = [{n}, {n} + 1]', 'del {n}', '({n}, other) = pair', 'print({n}, o.{n})',
             'for {n} in {m}:\n    use({n})', '{n}.p = {m}.p', '{n}[0] = {m}[1]', 'del {n}.p, {m}[0]', 'with c as {n}:\n    {m}']
    return '\n'.join(rng.choice(forms).format(n=n(), m=n()) for _ in range(rng.randint(3, 7)))


def gen_ctx_jobs(rng, n):
    jobs = []
    while len(jobs) < n:
        shape, cat, spec, tagkinds = rng.choice(CTX_PATTERNS)
        spec = spec.replace('{n}', rng.choice(['a', 'b', 'x', 'total']))
        placement, fmt = rng.choice(CTX_TEMPLATES)
        tm = make_template(rng, fmt, tagkinds, cat)
        if tm is None:
            continue
        st = {'nested': rng.random() < 0.3, 'on': 'leave' if rng.random() < 0.25 else 'enter',
              'count': rng.choice([0, 0, 0, 2]), 'loop': False, 'ctx': rng.random() < 0.7}
        jobs.append({'src': ctx_program(rng), 'shape': shape, 'cat': cat, 'pat': spec, 'placement': 'ctx-' + placement,
                     'tmpl': tm, 'set': st})
    return jobs


# ---------------------------------------------------------------------------------------------------------------------
# overrides: captured nodes that ARE sequences (so that a forced slice `__FSS_` has elements to splice) and slices put as
# one element (`__FSO_`), into virtual (call arguments, class bases) and ordinary (list / tuple elements) list slots

def override_program(rng):
    at = lambda: rng.choice(['a', 'b', 'c', '1', 'g(x)'])
    seq = lambda: rng.choice(['[{}]', '({},)', '{{{}}}', '[{}, {}]', '({}, {})', '[{}, {}, {}]', '{}']).format(at(), at(), at())
    lines = []
    for i in range(rng.randint(1, 3)):
        call = f'{rng.choice(["f", "h"])}({seq()}, {", ".join(seq() for _ in range(rng.randint(0, 2)))})'.replace(', )', ')')
        lines.append(rng.choice([call, f'v{i} = {call}', f'w = [{call}, {seq()}]']))
    return '\n'.join(lines)


OVERRIDE_PATTERNS = [
    ('qslice', 'expr', 'MCall(args=[M(x=...), MQSTAR(r=...)])', {'x': 'E', 'r': 'ES'}),
    ('multi', 'expr', 'MCall(func=M(f=MName), args=[M(x=...), MQSTAR(r=...)])', {'f': 'N', 'x': 'E', 'r': 'ES'}),
    ('node', 'expr', 'MList(ctx=Load)', {}), ('node', 'expr', 'MTuple(ctx=Load)', {}),
    ('multi', 'expr', 'M(w=MList(ctx=Load))', {'w': 'E'}),
    ('view', 'expr', 'MList(elts=M(e=...), ctx=Load)', {'e': 'ES'}),
]
OVERRIDE_TEMPLATES = ['g({sEq}, 0)', 'g(0, {sEq})', '[{sEq}, 0]', '(0, {sEq})', 'g(0, {oES}, 1)', '[{oES}, 0]', '({sEq}, {oES})',
                      'o.m({sEq}, k=1)', '{ES1} + 1', 'w[{ES1}]', 'g({E}, {sEq})', '{sEq} + 1']


def gen_override_jobs(rng, n):
    jobs = []
    tries = 0
    while len(jobs) < n and tries < n * 20:
        tries += 1
        shape, cat, spec, tagkinds = rng.choice(OVERRIDE_PATTERNS)
        tm = make_template(rng, rng.choice(OVERRIDE_TEMPLATES), tagkinds, cat)
        if tm is None:
            continue
        st = {'nested': rng.random() < 0.3, 'on': 'leave' if rng.random() < 0.2 else 'enter', 'count': rng.choice([0, 0, 1]),
              'loop': False}
        jobs.append({'src': override_program(rng), 'shape': shape, 'cat': cat, 'pat': spec, 'placement': 'override',
                     'tmpl': tm, 'set': st})
    return jobs


# ---------------------------------------------------------------------------------------------------------------------
# identifier lists: slots at EVERY index of every list of identifiers, mixed with fixed entries before / after / between

_IDL_SRC = 'f(a, b)\nr = g(c, d)\nif t:\n    h(e, k)  # tail\n'
_IDL_PAT = 'MCall(func=M(f=MName), args=[M(x=MName), M(y=MName)])'
_IDL_SPAT = 'MExpr(value=MCall(func=M(f=MName), args=[M(x=MName), M(y=MName)]))'
_MC_SRC = ('match ev:\n    case Click(pos=(x, y)):\n        pass\n    case Key(code=27) | Key(code=13):\n        pass\n'
           '    case Scroll(dx=0, dy=d):\n        pass\n    case Wrapped(inner=Click(pos=p)):\n        pass\n')
_MC_PAT = 'MMatchClass(cls=M(c=...), patterns=[], kwd_attrs=[M(k=...)], kwd_patterns=[M(p=...)])'


def _mix(rng, fixed, slots):
    """fixed entries and slot entries in a random order (every relative position comes up)"""
    items = rng.sample(fixed, rng.randint(0, len(fixed))) + slots
    rng.shuffle(items)
    return items


def gen_identlist_jobs(rng, n):
    jobs = []
    for _ in range(n):
        k = rng.randrange(8)
        st = {'nested': False, 'on': rng.choice(['enter', 'enter', 'leave']), 'count': 0, 'loop': False}
        job = {'src': _IDL_SRC, 'shape': 'multi', 'cat': 'expr', 'pat': _IDL_PAT, 'placement': 'ident-list', 'set': st}
        if k == 0:      # MatchClass keyword attribute names
            items = _mix(rng, ["kind='ui'", 'a=1', 'b=2'], ['__FST_k=__FST_p'])
            job.update(src=_MC_SRC, pat=_MC_PAT, cat='pattern', tmpl_mode='pattern', tmpl=f'__FST_c({", ".join(items)})')
            st['nested'] = rng.random() < 0.5
        elif k == 1:    # keyword names of a call
            items = _mix(rng, ['a=1', 'b=2', 'c=3'], rng.sample(['__FST_x=__FST_y', '__FST_y=0', '__FST_f=1'], rng.randint(1, 3)))
            job.update(tmpl=f'call({", ".join(items)})')
        elif k == 2:    # global / nonlocal names
            items = _mix(rng, ['p', 'q', 'r'], rng.sample(['__FST_x', '__FST_y', '__FST_f'], rng.randint(1, 3)))
            job.update(pat=_IDL_SPAT, cat='stmt', tmpl=f'{rng.choice(["global", "nonlocal"])} {", ".join(items)}')
        elif k == 3:    # import aliases
            items = _mix(rng, ['m1 as p', 'm2', 'm3 as q'], rng.sample(['n1 as __FST_x', '__FST_y', '__FST_f as __FST_x' if rng.random() < 0.5 else 'n2 as __FST_f'], rng.randint(1, 2)))
            job.update(pat=_IDL_SPAT, cat='stmt', tmpl=rng.choice(['import ', 'from mod import ']) + ', '.join(items))
        elif k == 4:    # lambda / def arguments
            items = _mix(rng, ['p', 'q'], rng.sample(['__FST_x', '__FST_y'], rng.randint(1, 2)))
            job.update(tmpl=f'lambda {", ".join(items)}: 0')
        elif k == 5:
            items = _mix(rng, ['p', 'q'], rng.sample(['__FST_x', '__FST_y'], rng.randint(1, 2)))
            job.update(pat=_IDL_SPAT, cat='stmt', tmpl=f'def __FST_f({", ".join(items)}, *, z, __FST_{"y" if "__FST_y" not in items else "f"}=1):\n    pass')
        elif k == 6:    # class keywords
            items = _mix(rng, ['a=1', 'b=2'], rng.sample(['__FST_x=__FST_y', '__FST_y=0'], rng.randint(1, 2)))
            job.update(pat=_IDL_SPAT, cat='stmt', tmpl=f'class __FST_f(B, {", ".join(items)}):\n    pass')
        else:           # attribute chain
            job.update(tmpl=rng.choice(['o.__FST_x.__FST_y', '__FST_f.p.__FST_x', 'o.__FST_y(__FST_x=__FST_f)']))
        jobs.append(job)
    return jobs
