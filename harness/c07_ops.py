"""C07 helpers: a recorder around `_make_fst_and_dedent` (harness-side wrapper, nothing in /repo is touched), the
operations copy / get_slice / cut / delete on twins of one program, and the oracles (CPython `ast`, `tokenize`) that
share no code with pfst."""

from __future__ import annotations

import ast
import collections
import io
import re
import tokenize

import util

REFUSALS = ('ValueError', 'NodeError', 'NotImplementedError', 'ParseError', 'SyntaxError', 'IndentationError')


# ---------------------------------------------------------------------------------------------------------------------
# recorder

class Recorder:
    """Wraps FST._make_fst_and_dedent and FST._get_indentable_lns while active; every call of the former becomes one
    correspondence case (inputs before the call, outputs after)."""

    def __init__(self):
        self.recs = []
        self._lns = None

    def __enter__(self):
        from fst import FST
        self.FST = FST
        self.orig_make = FST._make_fst_and_dedent
        self.orig_lns = FST._get_indentable_lns
        rec = self

        def lns_wrap(self, skip=0, **kw):
            r = rec.orig_lns(self, skip, **kw)
            if rec._lns is not None:
                rec._lns.append((skip, len(self.root._lines), sorted(r), self.parent is None))
            return r

        def make_wrap(self, indent, ast_, copy_loc, prefix=None, suffix=None, put_loc=None, put_lines=None, *,
                      docstr=True, docstr_strict_exclude=None):
            root = self.root
            r = {'lines': [str(l) for l in root._lines],
                 'indent': indent if isinstance(indent, str) else indent._get_block_indent(),
                 'loc': list(copy_loc), 'docstr': docstr}
            pfx, sfx = prefix, suffix
            if sfx and isinstance(pfx, str):
                sfx = sfx.split('\n')
            if pfx and isinstance(pfx, str):
                pfx = pfx.split('\n')
            if isinstance(sfx, str) and sfx:
                r['weird'] = 'suffix is a str while prefix is not'
            r['pfx'] = [str(x) for x in pfx] if pfx else None
            r['sfx'] = [str(x) for x in sfx] if sfx and not isinstance(sfx, str) else None
            if any(isinstance(n, ast.Compare) and any(isinstance(c, ast.stmt) for c in util.soc(n)) for n in ast.walk(ast_)):
                r['weird'] = 'Compare with statement placeholders as operands (temporary state of the _all slice handler)'
            r['tree'], ids = ser_tree_pruned(ast_, ())
            sub_ids = set(id(n) for n in ast.walk(ast_))
            if put_loc:
                r['put_loc'] = list(put_loc)
                r['put'] = ([str(x) for x in put_lines] if isinstance(put_lines, list) else
                            put_lines.split('\n') if isinstance(put_lines, str) and put_lines else None)
                r['src_tree'], src_ids = ser_tree_pruned(root.a, sub_ids)
                r['shared'] = any(id(n) in sub_ids for n in ast.walk(root.a))
            rec._lns = []
            try:
                ret = rec.orig_make(self, indent, ast_, copy_loc, prefix, suffix, put_loc, put_lines, docstr=docstr,
                                    docstr_strict_exclude=docstr_strict_exclude)
            except Exception as e:
                r['exc'] = type(e).__name__
                rec._lns = None
                rec.recs.append(r)
                raise
            lns_calls, rec._lns = rec._lns, None
            fst_ = ret[0]
            r['lns_calls'] = lns_calls
            r['out'] = {'lines': [str(l) for l in fst_._lines], 'pos': positions_pruned(ast_, ()),
                        'src_lines': [str(l) for l in root._lines]}
            if put_loc:
                r['out']['src_pos'] = positions_pruned(root.a, sub_ids)
            r['kind'] = ast_.__class__.__name__
            r['doc_lns'] = sorted(doc_str_lns(ast_))
            rec.recs.append(r)
            return ret

        FST._make_fst_and_dedent = make_wrap
        FST._get_indentable_lns = lns_wrap
        return self

    def __exit__(self, *a):
        self.FST._make_fst_and_dedent = self.orig_make
        self.FST._get_indentable_lns = self.orig_lns
        return False


def doc_str_lns(a):
    """0-based continuation lines of multi-line *str* constants that stand alone as an expression statement: the only
    string lines the `docstr` option may ever declare indentable (bytes, f-strings, strings inside other expressions
    never are)."""
    out = set()
    for n in ast.walk(a):
        if isinstance(n, ast.Expr):
            v = n.value
            if isinstance(v, ast.Constant) and isinstance(v.value, str) and getattr(v, 'end_lineno', None) is not None:
                out.update(range(v.lineno, v.end_lineno))
    return out


NOPOS = (ast.operator, ast.cmpop, ast.boolop, ast.unaryop, ast.expr_context)


def _pos(n):
    """position of an AST node; operator / context nodes never carry one in an FST tree (temporary attributes a slice
    handler may have put on them are dropped when the FST is made)"""
    if isinstance(n, NOPOS) or getattr(n, 'end_col_offset', None) is None:
        return None
    return [n.lineno, n.col_offset, n.end_lineno, n.end_col_offset]


def ser_tree_pruned(a, skip_ids):
    counter = [0]
    ids = {}

    def go(n):
        i = counter[0]
        counter[0] += 1
        ids[id(n)] = i
        pos = _pos(n)
        decos = getattr(n, 'decorator_list', None)
        deco = decos[0].lineno if decos and id(decos[0]) not in skip_ids else None
        return [i, pos, deco, [go(c) for c in util.soc(n) if id(c) not in skip_ids]]

    return go(a), ids


def positions_pruned(a, skip_ids):
    out = []

    def go(n):
        i = len(out)
        out.append([i, _pos(n)])
        for c in util.soc(n):
            if id(c) not in skip_ids:
                go(c)

    go(a)
    return out


def str_continuation_lns(lines):
    """0-based numbers of the lines that start inside a string token (CPython tokenize, the text wrapped in parentheses so
    that indentation does not matter). Returns (all_string_lines, None) or (None, error)."""
    src = '(' + '\n'.join(lines) + '\n)'
    out = set()
    try:
        start = None
        depth = 0
        for t in tokenize.generate_tokens(io.StringIO(src).readline):
            name = tokenize.tok_name[t.type]
            if t.type == tokenize.STRING:
                out.update(range(t.start[0], t.end[0]))       # 1-based start line .. end line - 1  == 0-based cont. lines
            elif name in ('FSTRING_START', 'TSTRING_START'):
                if depth == 0:
                    start = t.start[0]
                depth += 1
            elif name in ('FSTRING_END', 'TSTRING_END'):
                depth -= 1
                if depth == 0:
                    out.update(range(start, t.end[0]))
    except (tokenize.TokenError, SyntaxError, IndentationError) as e:
        return None, str(e)
    return out, None


def rec_to_case(r):
    """-> (lean case, impl out, problem|None).  `str_lns` (the lines of the new root that are not indentable) is taken
    from the recorded `_get_indentable_lns` answer and validated against tokenize."""
    n_new = len(r['out']['lines'])
    pe = len(r['pfx']) - 1 if r['pfx'] else 0
    skip = (1 if r['loc'][1] else 0) + pe
    problem = None
    str_lns = []
    if r['indent']:
        calls = [c for c in r['lns_calls'] if c[3]]
        if len(calls) != 1:
            problem = f'_get_indentable_lns called {len(calls)} times on the new root (expected once)'
        else:
            cskip, n, lns, _ = calls[0]
            if cskip != skip or n != n_new:
                problem = f'_get_indentable_lns(skip={cskip}) on {n} lines; model expects skip={skip} on {n_new} lines'
            lns = set(lns)
            if not lns <= set(range(skip, n_new)):
                problem = f'indentable lines {sorted(lns)} not within range({skip}, {n_new})'
            str_lns = sorted(set(range(skip, n_new)) - lns)
            cont, err = str_continuation_lns(r['out']['lines'])
            if cont is not None:
                if not set(str_lns) <= cont:
                    problem = (f'lines {sorted(set(str_lns) - cont)} excluded from dedent although they do not start '
                               f'inside a string token')
                elif r['docstr'] is False and set(range(skip, n_new)) & cont != set(str_lns):
                    problem = (f'lines {sorted((set(range(skip, n_new)) & cont) - set(str_lns))} start inside a string '
                               f'token but were treated as indentable (docstr=False)')
                else:
                    must = (set(range(skip, n_new)) & cont) - set(r.get('doc_lns', ()))
                    if not must <= set(str_lns):
                        problem = (f'lines {sorted(must - set(str_lns))} start inside a string/bytes/f-string token that is '
                                   f'not a str expression statement but were treated as indentable (docstr={r["docstr"]!r})')
    elif r['lns_calls']:
        problem = 'dedent attempted with empty indent'
    if 'put_loc' in r and (min(r['put_loc']) < 0 or min(r['loc']) < 0):
        return None, None, 'negative-coordinates'
    case = {'f': 'C07.extract', 'lines': r['lines'], 'tree': r['tree'], 'indent': r['indent'], 'loc': r['loc'],
            'pfx': r['pfx'], 'sfx': r['sfx'], 'str_lns': str_lns}
    impl = {'lines': r['out']['lines'], 'pos': r['out']['pos'], 'src_lines': r['out']['src_lines']}
    if 'put_loc' in r:
        case['put_loc'] = r['put_loc']
        case['put'] = r['put']
        case['src_tree'] = r['src_tree']
        impl['src_pos'] = r['out']['src_pos']
    return case, impl, problem


# ---------------------------------------------------------------------------------------------------------------------
# oracles

COUNTED = {tokenize.NAME, tokenize.NUMBER, tokenize.STRING, tokenize.COMMENT}
import keyword
# keywords are structure the move itself may add or drop (elif/else/if, as, finally, pass, in ...); `set` appears when an
# emptied set is normalised to `set()`.  Value keywords stay counted.
MOVE_WORDS = (set(keyword.kwlist) - {'True', 'False', 'None'}) | {'set'}


def token_bag(src):
    """multiset of (type name, text) of names, numbers, strings (+ f-string middles) and comments; None if tokenize
    cannot read `src`."""
    bag = collections.Counter()
    try:
        for t in tokenize.generate_tokens(io.StringIO(src).readline):
            name = tokenize.tok_name[t.type]
            if t.type in COUNTED or name in ('FSTRING_MIDDLE', 'TSTRING_MIDDLE'):
                s = t.string
                if t.type == tokenize.NAME and s in MOVE_WORDS:
                    continue
                if t.type == tokenize.STRING or name.endswith('_MIDDLE'):
                    s = re.sub(r'\n[ \t]*', '\n', s)            # documented docstring re-indentation
                if t.type == tokenize.COMMENT:
                    s = s.rstrip()
                bag[(name, s)] += 1
    except (tokenize.TokenError, SyntaxError, IndentationError):
        return None
    return bag


def token_bag_fragment(src):
    """`src` may be a fragment whose indentation tokenize rejects on its own: retry inside parentheses."""
    b = token_bag(src)
    if b is None:
        b = token_bag('(' + src + '\n)')
    return b


_CTX = re.compile(r'ctx=(Store|Del)\(\)')


def norm_dump(a, docstr):
    """ast.dump without attributes; ctx normalised to Load (documented for standalone expressions); when the `docstr`
    option allows re-indentation, Expr string constants are compared modulo leading blanks of continuation lines."""
    if docstr is not False:
        a = _DocNorm().visit(util_copy(a))
    return _CTX.sub('ctx=Load()', ast.dump(a))


def util_copy(a):
    import copy
    return copy.deepcopy(_strip_f(a))


def _strip_f(a):
    """deepcopy-safe clone without the `.f` back links"""
    if isinstance(a, list):
        return [_strip_f(x) for x in a]
    if not isinstance(a, ast.AST):
        return a
    new = a.__class__()
    for f in a._fields:
        if hasattr(a, f):
            setattr(new, f, _strip_f(getattr(a, f)))
    return new


def doc_norm(v):
    """value of a genuine docstring candidate modulo the documented re-indentation: blanks at the start of a physical line
    are not compared. A physical line may start after a backslash-newline inside the literal, which leaves no newline in
    the value, so all blank runs are dropped."""
    return re.sub(r'[ \t]+', '', v)


class _DocNorm(ast.NodeTransformer):
    def visit_Expr(self, node):
        v = node.value
        if isinstance(v, ast.Constant) and isinstance(v.value, str):
            v.value = doc_norm(v.value)
        return node


EMBED = {
    'arguments': ('def f(', '): pass', lambda m: m.body[0].args),
    'arg': ('def f(', '): pass', lambda m: (m.body[0].args.args + [m.body[0].args.vararg, m.body[0].args.kwarg])[0]
            if m.body[0].args.args else m.body[0].args.vararg or m.body[0].args.kwarg),
    'keyword': ('f(', ')', lambda m: m.body[0].value.keywords[0]),
    'alias': ('from m import (', ')', lambda m: m.body[0].names[0]),
    'withitem': ('with (', '): pass', lambda m: m.body[0].items[0]),
    'comprehension': ('[_ ', ']', lambda m: m.body[0].value.generators[0]),
    'Slice': ('a[', ']', lambda m: m.body[0].value.slice),
    'Starred': ('[', ']', lambda m: m.body[0].value.elts[0]),
    'ExceptHandler': ('try: pass\n', '', lambda m: m.body[0].handlers[0]),
    'match_case': ('match x:\n', '', lambda m: m.body[0].cases[0]),
}
PATTERNS = ('MatchValue', 'MatchSingleton', 'MatchSequence', 'MatchMapping', 'MatchClass', 'MatchStar', 'MatchAs', 'MatchOr')


def cpython_parse_fragment(src, kind):
    """Parse `src` with CPython as a node of class `kind`. -> (ast node | None, how)  how in
    {'exec','eval','embed','unsupported','error:<msg>'}.  'exec'/'eval' keep positions comparable."""
    try:
        if kind == 'Module':
            return ast.parse(src), 'exec'
        if kind in STMTS:
            m = ast.parse(src)
            if len(m.body) != 1:
                return None, f'error:parses to {len(m.body)} statements'
            return m.body[0], 'exec'
        if kind == 'Tuple' and _has_slice_elt(src):
            return ast.parse('a[' + src + '\n]').body[0].value.slice, 'embed'
        if kind in EXPRS and kind != 'Starred' and kind != 'Slice':
            try:
                return ast.parse(src, mode='eval').body, 'eval'
            except SyntaxError:
                if kind == 'NamedExpr':     # pars_walrus=False (default): a bare walrus at root level is documented
                    return ast.parse('(' + src + '\n)', mode='eval').body, 'embed'
                m = ast.parse(src)      # `a, *b` is a star_expressions statement, not an eval-mode expression
                if len(m.body) == 1 and isinstance(m.body[0], ast.Expr):
                    return m.body[0].value, 'exec'
                raise
        if kind in EMBED:
            pre, post, pick = EMBED[kind]
            body = src
            if kind == 'match_case':
                ls = src.split('\n')
                cont, _ = str_continuation_lns(ls)
                body = '\n'.join(l if cont and i in cont else ' ' + l for i, l in enumerate(ls))
                m = ast.parse(pre + body + post)
                return pick(m), 'embed'
            if kind == 'alias':
                if src.strip() == '*':
                    return ast.parse('from m import *').body[0].names[0], 'embed'
                try:
                    return pick(ast.parse(pre + body + post)), 'embed'
                except SyntaxError:
                    return ast.parse('import ' + body).body[0].names[0], 'embed'
            if kind == 'withitem':
                try:
                    return pick(ast.parse(pre + body + ',' + post)), 'embed'
                except SyntaxError:
                    return ast.parse('with ' + body + ': pass').body[0].items[0], 'embed'
            m = ast.parse(pre + body + post)
            return pick(m), 'embed'
        if kind == 'MatchStar':
            m = ast.parse('match x:\n case [' + src + '\n ]: pass')
            return m.body[0].cases[0].pattern.patterns[0], 'embed'
        if kind in PATTERNS:
            m = ast.parse('match x:\n case (' + src + '\n ): pass')
            p = m.body[0].cases[0].pattern
            return p, 'embed'
        return None, 'unsupported'
    except SyntaxError as e:
        return None, 'error:' + str(e)[:80]


def _has_slice_elt(src):
    try:
        v = ast.parse('a[' + src + '\n]').body[0].value.slice
    except SyntaxError:
        return False
    return isinstance(v, ast.Tuple) and any(isinstance(e, ast.Slice) for e in v.elts)


STMTS = {c.__name__ for c in ast.stmt.__subclasses__()}
EXPRS = {c.__name__ for c in ast.expr.__subclasses__()}


# ---------------------------------------------------------------------------------------------------------------------
# operations

def list_fields(a):
    """[(field, n)] for the real list-of-AST fields with at least one element"""
    out = []
    for f in a._fields:
        v = getattr(a, f, None)
        if isinstance(v, list) and v and all(isinstance(x, ast.AST) or x is None for x in v):
            out.append((f, len(v)))
        elif isinstance(a, (ast.Global, ast.Nonlocal)) and isinstance(v, list) and v:
            out.append((f, len(v)))         # list of identifiers, returned as a Tuple of Names under promote=True
    return out


def result_elems(res_a, parent_a, field):
    """The element list of a returned slice container, or None when the shape is not one we understand."""
    if isinstance(res_a, ast.Dict) and isinstance(parent_a, ast.Dict):
        return 'dict'
    rk = res_a.__class__.__name__
    if not (res_a.__class__ is parent_a.__class__ or rk.startswith('_') or rk == 'Module'
            or (rk == 'Tuple' and not isinstance(parent_a, (ast.BoolOp, ast.Compare, ast.MatchOr)))):
        return None         # e.g. a one-element BoolOp / MatchOr slice normalised to the element itself
    v = getattr(res_a, field, None)
    if isinstance(v, list):
        return v
    cands = [f for f in res_a._fields if isinstance(getattr(res_a, f, None), list)]
    if len(cands) == 1:
        return getattr(res_a, cands[0])
    return None


WRAPS = {'_aliases': ('from m import (', '\n)'), '_withitems': ('with (', '\n): pass'), 'default': ('(', '\n)')}


def parses_when_wrapped(src, kind, ref_dump):
    """True if `src` is not parsable alone only because it spans lines without being enclosed: wrapped in parentheses
    CPython parses it to the structure `ref_dump`."""
    try:
        if kind == '_aliases':
            m = ast.parse(WRAPS[kind][0] + src + WRAPS[kind][1])
            return True
        if kind in EXPRS:
            n = ast.parse('(' + src + '\n)', mode='eval').body
            return ast.dump(n) == ref_dump
    except SyntaxError:
        return False
    return False


def root_pos_only(a, b):
    """dump_pos(a) != dump_pos(b) but they agree once the root's own position attributes are ignored"""
    def strip(x):
        kids = ''.join(ast.dump(c, include_attributes=True) if isinstance(c, ast.AST) else repr(c)
                       for f in x._fields for c in (getattr(x, f) if isinstance(getattr(x, f, None), list) else [getattr(x, f, None)]))
        return x.__class__.__name__ + kids

    return strip(a) == strip(b)


def literal_bag(a, docstr):
    """multiset of the str / bytes constant values of a tree; genuine docstring candidates (str constants standing alone
    as an expression statement) modulo the documented re-indentation when `docstr` allows it"""
    doc = set()
    if docstr is not False:
        for n in ast.walk(a):
            if isinstance(n, ast.Expr) and isinstance(n.value, ast.Constant) and isinstance(n.value.value, str):
                doc.add(id(n.value))
    bag = collections.Counter()
    for n in ast.walk(a):
        if isinstance(n, ast.Constant) and isinstance(n.value, (str, bytes)):
            v = n.value
            if id(n) in doc:
                v = doc_norm(v)
            bag[(type(v).__name__, v)] += 1
    return bag
