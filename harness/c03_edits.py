"""C03 sweep: direct evaluation of the property on the real code.

Oracle (shares no code with pfst): a witness program is *rendered* from a plain Python list of element sources; an edit
request is (raw start, raw stop, new element sources); the expected element list is computed with Python's own
`slice(a, b).indices(n)` and list concatenation, rendered to source again and parsed by CPython.  The whole-tree
`ast.dump` (no attributes) of pfst's tree after the edit must equal the dump of that parse: this checks at once that the
field is old[:start] + new + old[stop:] and that every other part of the tree is unchanged.  Every equivalent entry
point and several layouts of target and code are run on twin copies; all must give that same structure.
"""

from __future__ import annotations

import ast
import random

import corpus

# operations documented as not implemented (README "TODO"): exempt when they raise NotImplementedError
DOCUMENTED_NOT_IMPLEMENTED = {('JoinedStr', 'values'), ('TemplateStr', 'values'), ('FormattedValue', 'conversion'),
                              ('FormattedValue', 'format_spec'), ('Interpolation', 'str'), ('Interpolation', 'conversion'),
                              ('Interpolation', 'format_spec')}


class Fam:
    """One (kind, field) witness family."""

    def __init__(self, kind, field, render, find, pool, code=None, single=None, minlen=0, maxlen=5, default=False,
                 blank_ops=False, tag='', pick=None):
        self.kind, self.field = kind, field
        self.render = render        # list[str] -> program source
        self.find = find            # ast tree -> target node (same path on pfst's tree)
        self.pool = pool
        self.code = code or (lambda el: ', '.join(el))          # list[str] (len >= 1) -> code for a slice put (one=False)
        self.single = single        # str -> code for a single element put (one=True), None = form not used
        self.minlen, self.maxlen = minlen, maxlen
        self.default = default      # field is the default field of the kind (node[...] forms)
        self.blank_ops = blank_ops
        self.tag = tag
        self.pick = pick            # (rng, n) -> (old elements, candidates for new elements); default: shuffle of the pool

    @property
    def name(self):
        return f'{self.kind}.{self.field}'


def _body(header, indent='    ', pre='', post='', empty=None):
    def render(el):
        if not el and empty is not None:
            return empty
        return pre + header + '\n' + '\n'.join(indent + e for e in el) + post
    return render


def _fmt(t, join=', ', empty=None):
    def render(el):
        if not el and empty is not None:
            return empty
        return t.replace('{X}', join.join(el))
    return render


STMTS = ['a = 1', 'b()', 'é = "ñ"', 'pass', 'c += 2', 'del d', 'e: int = 3', 'import f', 'assert g', 'h = i = 4', 'global_ = 5']
EXPRS = ['a', 'é', 'c.d', 'e[0]', 'f()', '1', "'ß日'", '(g, h)', '[i]', 'j + k', '-m', 'n if o else p', 'b']
NAMES = ['a', 'é', 'c', '日本', 'e', 'ñu', 'g', 'b']
TGTS = ['a', 'é', 'c.d', 'e[0]', '(g, h)', '[i]', 'j', 'b']
PATS = ['a', '1', "'s'", 'None', '[b, c]', '{1: d}', 'E()', 'f.g', '_']
ORPATS = ['1', "'s'", 'None', '[b, c]', 'E()', 'f.g', '2', '-3']
B0 = lambda t: t.body[0]
BV = lambda t: t.body[0].value


_MIX = {'P': ['a', 'b', 'c.d', 'e()'], 'S': ['*s', '*t', '*u'], 'K': ['k=1', 'j=2', 'm=n', 'q=()', 'last=3'], 'D': ['**d', '**e']}
_MIX_ALL = [x for v in _MIX.values() for x in v]


def _mixed_join(el):
    """arguments over several lines: a `*starred` that follows a keyword starts a new, slightly indented line (so it sits
    on a LATER line at a SMALLER column than the keyword before it); some keywords start a new line too"""
    out = ''
    seen_kw = False
    for i, e in enumerate(el):
        star = e.startswith('*') and not e.startswith('**')
        if i:
            out += ',\n  ' if (star and seen_kw) or (e.startswith('last')) else ', '
        out += e
        seen_kw = seen_kw or ('=' in e and not e.startswith('*')) or e.startswith('**')
    return out


def _mixed_pick(rng, n):
    """n arguments in an order Python accepts: plain positionals, then keywords mixed with *starred, then keywords mixed
    with **double-starred; plus candidates for new elements of every kind"""
    P, S, K, D = (v[:] for v in (_MIX['P'], _MIX['S'], _MIX['K'], _MIX['D']))
    for v in (P, S, K, D):
        rng.shuffle(v)
    old = []
    np_ = rng.randint(0, min(2, n))
    old += [P.pop() for _ in range(np_)]
    while len(old) < n:
        phase2 = len(old) - np_ >= rng.randint(1, 3)
        kinds = [k for k in (('K', 'D') if phase2 or any(x.startswith('**') for x in old) else ('K', 'S', 'S'))
                 if {'K': K, 'S': S, 'D': D}[k]]
        if not kinds:
            break
        old.append({'K': K, 'S': S, 'D': D}[rng.choice(kinds)].pop())
    rest = P + S + K + D
    rng.shuffle(rest)
    return old, rest


def sl(el):
    return '\n'.join(el)


def tup(el):
    return ', '.join(el) + (',' if len(el) == 1 else '')


def _rest_pick(rng, n):
    """MatchMapping items whose last one is the `**rest` item (it is element len-1 of `_all`)"""
    p = ['1: a', "'k': b", '2: [c]', 'd.e: _', '3: f']
    rng.shuffle(p)
    n = max(1, min(n, len(p)))
    return p[:n - 1] + ['**r'], p[n - 1:]


def families():
    F = []
    add = F.append
    # ---- statement bodies -------------------------------------------------------------------------------------------
    add(Fam('Module', 'body', lambda el: '\n'.join(el), lambda t: t, STMTS, sl, str, 1, default=True))
    blocks = [
        ('FunctionDef', 'def f():', B0), ('AsyncFunctionDef', 'async def f():', B0), ('ClassDef', 'class C:', B0),
        ('For', 'for i in x:', B0), ('AsyncFor', 'async for i in x:', lambda t: t.body[0].body[0]),
        ('While', 'while x:', B0), ('If', 'if x:', B0), ('With', 'with x:', B0),
        ('AsyncWith', 'async with x:', lambda t: t.body[0].body[0]), ('Try', 'try:', B0), ('TryStar', 'try:', B0),
    ]
    for kind, hdr, find in blocks:
        pre, ind = '', '    '
        post = ''
        if kind in ('AsyncFor', 'AsyncWith'):
            pre, ind = 'async def w():\n    ', '        '
        if kind == 'Try':
            post = '\nexcept E:\n    pass'
        if kind == 'TryStar':
            post = '\nexcept* E:\n    pass'
        add(Fam(kind, 'body', _body(hdr, ind, pre, post), find, STMTS, sl, str, 1, default=True))
        add(Fam(kind, '_body', _body(hdr, ind, pre, post), find, STMTS, sl, str, 1))
    # `_body` with a docstring (the docstring is outside the virtual field)
    for kind, hdr in (('FunctionDef', 'def f():'), ('ClassDef', 'class C:'), ('AsyncFunctionDef', 'async def f():')):
        add(Fam(kind, '_body', (lambda h: lambda el: h + '\n    """doc"""' + ''.join('\n    ' + e for e in el))(hdr), B0, STMTS, sl,
                str, 0, tag='docstr'))
    add(Fam('Module', '_body', lambda el: '"""doc"""' + ''.join('\n' + e for e in el), lambda t: t, STMTS, sl, str, 0, tag='docstr'))
    add(Fam('Module', '_body', lambda el: '\n'.join(el), lambda t: t, STMTS, sl, str, 1))
    for kind, hdr in (('For', 'for i in x:'), ('While', 'while x:'), ('If', 'if x:')):
        add(Fam(kind, 'orelse', (lambda h: lambda el: h + '\n    pass' + ('\nelse:' + ''.join('\n    ' + e for e in el) if el else ''))(hdr),
                B0, STMTS, sl, str, 0))
    add(Fam('AsyncFor', 'orelse', lambda el: 'async def w():\n    async for i in x:\n        pass'
            + ('\n    else:' + ''.join('\n        ' + e for e in el) if el else ''), lambda t: t.body[0].body[0], STMTS, sl, str, 0))
    for kind, ex in (('Try', 'except'), ('TryStar', 'except*')):
        add(Fam(kind, 'orelse', (lambda ex: lambda el: f'try:\n    pass\n{ex} E:\n    pass'
                                 + ('\nelse:' + ''.join('\n    ' + e for e in el) if el else ''))(ex), B0, STMTS, sl, str, 0))
        add(Fam(kind, 'finalbody', (lambda ex: lambda el: f'try:\n    pass\n{ex} E:\n    pass'
                                    + ('\nfinally:' + ''.join('\n    ' + e for e in el) if el else ''))(ex), B0, STMTS, sl, str, 0))
        hs = [f'{ex} A:\n    pass', f'{ex} B as b:\n    x = 1', f'{ex} (C, D):\n    pass', f'{ex} E.F:\n    y']
        add(Fam(kind, 'handlers', lambda el: 'try:\n    pass\n' + ''.join(h + '\n' for h in el) + 'finally:\n    pass',
                B0, hs, sl, str, 0 if kind == 'Try' else 1))
    add(Fam('ExceptHandler', 'body', _body('try:\n    pass\nexcept E:'), lambda t: t.body[0].handlers[0], STMTS, sl, str, 1, default=True))
    add(Fam('ExceptHandler', '_body', _body('try:\n    pass\nexcept E:'), lambda t: t.body[0].handlers[0], STMTS, sl, str, 1))
    add(Fam('match_case', 'body', _body('match x:\n    case 1:', '        '), lambda t: t.body[0].cases[0], STMTS, sl, str, 1, default=True))
    add(Fam('match_case', '_body', _body('match x:\n    case 1:', '        '), lambda t: t.body[0].cases[0], STMTS, sl, str, 1))
    cs = ['case 1:\n    pass', 'case [a]:\n    x = 1', 'case {"k": v}:\n    pass', 'case C(p) if g:\n    y', 'case _:\n    pass']
    add(Fam('Match', 'cases', lambda el: 'match x:\n' + '\n'.join('    ' + c.replace('\n', '\n    ') for c in el), B0, cs[:4], sl, str, 1,
            default=True))
    # ---- expression sequences ---------------------------------------------------------------------------------------
    add(Fam('Tuple', 'elts', lambda el: 'x = (' + tup(el) + ')', BV, EXPRS, tup, str, 0, default=True))
    add(Fam('List', 'elts', _fmt('x = [{X}]'), BV, EXPRS, tup, str, 0, default=True))
    add(Fam('Set', 'elts', lambda el: 'x = {' + ', '.join(el) + '}', BV, EXPRS, tup, str, 1, default=True))
    add(Fam('Delete', 'targets', _fmt('del {X}'), B0, TGTS, tup, str, 1, default=True))
    add(Fam('Assign', 'targets', lambda el: ''.join(e + ' = ' for e in el) + 'v', B0, TGTS, lambda el: ''.join(e + ' = ' for e in el), str, 1))
    add(Fam('BoolOp', 'values', _fmt('x = {X}', ' and '), BV, ['a', 'b', 'c.d', 'e()', 'not f', 'g < h', '1'], lambda el: ' and '.join(el), str, 2,
            default=True))
    add(Fam('Call', 'args', _fmt('f({X})'), BV, ['a', 'b', '*c', 'd.e', '1', 'g()'], tup, str, 0))
    add(Fam('Call', 'keywords', _fmt('f({X})'), BV, ['a=1', 'b=c', '**d', 'e=f()', 'g=(1, 2)'], None, str, 0))
    add(Fam('Call', '_args', _fmt('f({X})'), BV, ['a', 'b', '*c', 'd.e', '1'], tup, str, 0, default=True, tag='pos'))
    add(Fam('Call', '_args', _fmt('f({X})'), BV, ['a=1', 'b=c', '**d', 'e=f()'], None, str, 0, tag='kw',
            default=True))
    add(Fam('Call', '_args', lambda el: 'f(' + _mixed_join(el) + ')', BV, _MIX_ALL, None, str, 0, default=True, tag='mixed', pick=_mixed_pick))
    add(Fam('ClassDef', '_bases', lambda el: 'class C' + ('(' + _mixed_join(el) + ')' if el else '') + ': pass', B0, _MIX_ALL, None, str, 0,
            tag='mixed', pick=_mixed_pick))
    add(Fam('ClassDef', 'bases', lambda el: 'class C' + ('(' + ', '.join(el) + ')' if el else '') + ': pass', B0, ['A', 'B.C', '*d', 'E[F]'], tup, str, 0))
    add(Fam('ClassDef', 'keywords', lambda el: 'class C' + ('(' + ', '.join(el) + ')' if el else '') + ': pass', B0,
            ['metaclass=M', 'a=1', '**k', 'b=c'], None, str, 0))
    add(Fam('ClassDef', '_bases', lambda el: 'class C' + ('(' + ', '.join(el) + ')' if el else '') + ': pass', B0, ['A', 'B.C', '*d', 'E[F]'], tup, str, 0, tag='pos'))
    add(Fam('ClassDef', '_bases', lambda el: 'class C' + ('(' + ', '.join(el) + ')' if el else '') + ': pass', B0, ['metaclass=M', 'a=1', '**k'], None, str, 0, tag='kw'))
    for kind, hdr in (('FunctionDef', 'def f(): pass'), ('AsyncFunctionDef', 'async def f(): pass'), ('ClassDef', 'class C: pass')):
        add(Fam(kind, 'decorator_list', (lambda h: lambda el: ''.join('@' + e + '\n' for e in el) + h)(hdr), B0,
                ['a', 'b.c', 'd()', 'e(1)', 'f[g]'], lambda el: '\n'.join('@' + e for e in el), str, 0))
    comp = lambda t: t.body[0].value.generators[0]
    add(Fam('comprehension', 'ifs', lambda el: 'x = [i for i in j' + ''.join(' if ' + e for e in el) + ']', comp,
            ['a', 'b.c', 'd()', 'e < f', 'not g'], lambda el: ' '.join('if ' + e for e in el), str, 0))
    gens = ['for a in b', 'for c in d if e', 'async for f in g', 'for h, i in j']
    for kind, o, c in (('ListComp', '[', ']'), ('SetComp', '{', '}'), ('GeneratorExp', '(', ')'), ('DictComp', '{k: ', '}')):
        add(Fam(kind, 'generators', (lambda o, c: lambda el: 'async def w():\n    x = ' + o + 'v ' + ' '.join(el) + c)(o, c),
                lambda t: t.body[0].body[0].value, gens, lambda el: ' '.join(el), str, 1))
    add(Fam('Global', 'names', lambda el: 'def f():\n    global ' + ', '.join(el), lambda t: t.body[0].body[0], NAMES, tup, str, 1, default=True))
    add(Fam('Nonlocal', 'names', lambda el: 'def f():\n    nonlocal ' + ', '.join(el), lambda t: t.body[0].body[0], NAMES, tup, str, 1, default=True))
    tps = ['T', 'U: int', '*Ts', '**P', 'V: (int, str)']
    brk = lambda el: '[' + ', '.join(el) + ']' if el else ''
    add(Fam('FunctionDef', 'type_params', lambda el: 'def f' + brk(el) + '(): pass', B0, tps, None, str, 0))
    add(Fam('AsyncFunctionDef', 'type_params', lambda el: 'async def f' + brk(el) + '(): pass', B0, tps, None, str, 0))
    add(Fam('ClassDef', 'type_params', lambda el: 'class C' + brk(el) + ': pass', B0, tps, None, str, 0))
    add(Fam('TypeAlias', 'type_params', lambda el: 'type A' + brk(el) + ' = int', B0, tps, None, str, 0))
    add(Fam('Import', 'names', _fmt('import {X}'), B0, ['a', 'b as c', 'd.e', 'f.g as h', 'i'], None, str, 1, default=True))
    add(Fam('ImportFrom', 'names', _fmt('from m import {X}'), B0, ['a', 'b as c', 'd', 'e as f'], None, str, 1, default=True))
    wis = ['(p, q)', 'a', 'b as c', '(r)', 'd() as e', 'f.g', 'h as (i, j)']        # `(p, q)` / `(r)` alone must not become two items / lose meaning
    # a sole parenthesized item without `as` needs its own grouping parentheses to stay ONE item (`with (p, q):` is two items)
    wj = lambda el: '(' + el[0] + ')' if len(el) == 1 and el[0].startswith('(') and ' as ' not in el[0] else ', '.join(el)
    add(Fam('With', 'items', lambda el: 'with ' + wj(el) + ': pass', B0, wis, None, str, 1))
    add(Fam('AsyncWith', 'items', lambda el: 'async def w():\n    async with ' + wj(el) + ': pass', lambda t: t.body[0].body[0], wis, None, str, 1))
    pat = lambda t: t.body[0].cases[0].pattern
    add(Fam('MatchSequence', 'patterns', _fmt('match x:\n    case [{X}]: pass'), pat, PATS, tup, str, 0, default=True))
    add(Fam('MatchOr', 'patterns', _fmt('match x:\n    case {X}: pass', ' | '), pat, ORPATS, lambda el: ' | '.join(el), str, 2, default=True))
    add(Fam('MatchClass', 'patterns', _fmt('match x:\n    case C({X}): pass'), pat, PATS, tup, str, 0))
    add(Fam('MatchClass', '_attrs', _fmt('match x:\n    case C({X}): pass'), pat, PATS, tup, None, 0, default=True, tag='pos'))
    add(Fam('MatchClass', '_attrs', _fmt('match x:\n    case C({X}): pass'), pat, ['a=b', 'c=1', 'd=[e]', 'f=_'], None, None, 0, tag='kw'))
    # ---- virtual combined fields -------------------------------------------------------------------------------------
    add(Fam('Dict', '_all', lambda el: 'x = {' + ', '.join(el) + '}', BV, ['a: b', '**c', '1: d', "'k': e()", 'f.g: h', '**i.j'],
            lambda el: '{' + ', '.join(el) + '}', lambda e: '{' + e + '}', 0, default=True))
    add(Fam('MatchMapping', '_all', lambda el: 'match x:\n    case {' + ', '.join(el) + '}: pass', pat,
            ['1: a', "'k': b", '2: [c]', 'd.e: _', '3: f'], lambda el: '{' + ', '.join(el) + '}', lambda e: '{' + e + '}', 0, default=True))
    add(Fam('MatchMapping', '_all', lambda el: 'match x:\n    case {' + ', '.join(el) + '}: pass', pat,
            ['1: a', "'k': b", '2: [c]', 'd.e: _', '3: f', '**r'], lambda el: '{' + ', '.join(el) + '}', lambda e: '{' + e + '}', 1, tag='rest',
            pick=_rest_pick))
    add(Fam('Compare', '_all', None, BV, ['a', 'b', 'c.d', 'e()', '1', 'f[g]'], None, str, 2, default=True, blank_ops=True))
    argf = lambda t: t.body[0].args
    add(Fam('arguments', '_all', _fmt('def f({X}): pass'), argf, ['a', 'b', 'c: int', 'd', 'e'], None, None, 0, default=True, tag='plain'))
    add(Fam('arguments', '_all', _fmt('def f({X}): pass'), argf, ['a=1', 'b=2', 'c: int = 3', 'd=()'], None, None, 0, tag='defaults'))
    add(Fam('arguments', '_all', lambda el: 'def f(*' + ''.join(', ' + e for e in el) + '): pass' if el else 'def f(): pass', argf,
            ['a', 'b=2', 'c: int', 'd=()'], lambda el: '*, ' + ', '.join(el), None, 0, tag='kwonly'))
    add(Fam('arguments', '_all', _fmt('x = lambda {X}: 0', empty='x = lambda: 0'), lambda t: t.body[0].value.args, ['a', 'b', 'c', 'd'], None, None, 0,
            tag='lambda'))
    return F


# Compare: rendered with fixed operators between the operands; ops are blanked before comparing
def _render_compare(el):
    ops = ['<', '==', 'is', '>=', 'in', '!=']
    return 'x = ' + el[0] + ''.join(f' {ops[i % len(ops)]} {e}' for i, e in enumerate(el[1:]))


OPTIONALS = [
    # kind, field, render(opt_src|None), find, pool
    ('FunctionDef', 'returns', lambda o: 'def f()' + (f' -> {o}' if o else '') + ': pass', B0, ['int', 'a.b', 'list[int]']),
    ('AsyncFunctionDef', 'returns', lambda o: 'async def f()' + (f' -> {o}' if o else '') + ': pass', B0, ['int', 'a.b']),
    ('Return', 'value', lambda o: 'def f():\n    return' + (f' {o}' if o else ''), lambda t: t.body[0].body[0], ['a', 'b + 1', '(c, d)']),
    ('AnnAssign', 'value', lambda o: 'x: int' + (f' = {o}' if o else ''), B0, ['a', 'b()', '1']),
    ('Raise', 'cause', lambda o: 'raise E' + (f' from {o}' if o else ''), B0, ['a', 'b()']),
    ('Assert', 'msg', lambda o: 'assert t' + (f', {o}' if o else ''), B0, ["'m'", 'a', 'b()']),
    ('Yield', 'value', lambda o: 'def f():\n    x = yield' + (f' {o}' if o else ''), lambda t: t.body[0].body[0].value, ['a', 'b + 1']),
    ('Slice', 'lower', lambda o: f'x[{o or ""}:u]', lambda t: t.body[0].value.slice, ['a', 'b()', '1']),
    ('Slice', 'upper', lambda o: f'x[l:{o or ""}]', lambda t: t.body[0].value.slice, ['a', 'b()', '1']),
    ('Slice', 'step', lambda o: 'x[l:u' + (f':{o}' if o else '') + ']', lambda t: t.body[0].value.slice, ['a', '2']),
    ('ExceptHandler', 'type', lambda o: 'try:\n    pass\nexcept' + (f' {o}' if o else '') + ':\n    pass', lambda t: t.body[0].handlers[0], ['E', 'a.B', '(C, D)']),
    ('arguments', 'vararg', lambda o: 'def f(a' + (f', *{o}' if o else '') + '): pass', lambda t: t.body[0].args, ['v', 'w: int']),
    ('arguments', 'kwarg', lambda o: 'def f(a' + (f', **{o}' if o else '') + '): pass', lambda t: t.body[0].args, ['k', 'w: int']),
    ('arg', 'annotation', lambda o: 'def f(a' + (f': {o}' if o else '') + '): pass', lambda t: t.body[0].args.args[0], ['int', 'b.c', 'list[d]']),
    ('withitem', 'optional_vars', lambda o: 'with a' + (f' as {o}' if o else '') + ': pass', lambda t: t.body[0].items[0], ['b', 'c.d', '(e, f)']),
    ('match_case', 'guard', lambda o: 'match x:\n    case 1' + (f' if {o}' if o else '') + ': pass', lambda t: t.body[0].cases[0], ['a', 'b > 1']),
    ('MatchAs', 'pattern', lambda o: 'match x:\n    case ' + (f'{o} as n' if o else 'n') + ': pass', lambda t: t.body[0].cases[0].pattern, ['1', '[a]', 'C()']),
    ('TypeVar', 'bound', lambda o: 'def f[T' + (f': {o}' if o else '') + '](): pass', lambda t: t.body[0].type_params[0], ['int', '(a, b)']),
]


# ---- the oracle ------------------------------------------------------------------------------------------------------

def _dump(tree, fam=None):
    if fam is not None and fam.blank_ops:
        node = fam.find(tree)
        saved = node.ops
        node.ops = []
        try:
            return ast.dump(tree)
        finally:
            node.ops = saved
    return ast.dump(tree)


def _py_bounds(n, a, b):
    """Python's own reading of the raw bounds ('end' start = n, 'end' stop = omitted)"""
    s, e, _ = slice(n if a == 'end' else a, None if b == 'end' else b).indices(n)
    return s, e


def _raw_for(rng, n, pos, allow_end):
    """a raw index argument that Python reads as position `pos` in a list of length n (for slice bounds)"""
    c = [pos]
    if pos < n:
        c.append(pos - n)            # negative form
    if pos == n:
        c += [n + 1, n + 3] + (['end'] if allow_end else [])
    if pos == 0:
        c += [-n - 1, -n - 4]
    return rng.choice(c)


def _layouts(src, rng, k=2):
    out = [src]
    for _ in range(k):
        m = corpus.mutate_layout(src, rng, 0.3)
        if m != src:
            out.append(m)
    return out


def _fst(src):
    from fst import FST
    return FST(src, 'exec')


def _pyslice(a, b, n):
    return slice(n if a == 'end' else a, None if b == 'end' else b)


def _lines(code):
    return code.split('\n')


def _ast_code(fam, new):
    """the new elements as a pure `ast` slice container (built by CPython only), for the families where one exists"""
    try:
        if fam.code is sl and fam.field in ('body', '_body', 'orelse', 'finalbody'):
            return ast.parse('\n'.join(new))
        if fam.code is tup and fam.kind in ('Tuple', 'List', 'Set'):
            return ast.parse('(' + tup(new) + ')', mode='eval').body
        if fam.name == 'Dict._all':
            return ast.parse('{' + ', '.join(new) + '}', mode='eval').body
    except SyntaxError:
        return None
    return None


class _Skip(Exception):
    pass


def _elem(view, i):
    x = view[i]
    if not hasattr(x, 'replace') or isinstance(x, str):
        raise _Skip()           # identifier elements (Global.names) are plain strings
    return x


def _entries(fam, n, a, b, s, e, new, rng, conv=None, sfx='', so=False, with_single=True, bare=False):
    """[(name, callable(node) performing the edit)] for the request (raw a, raw b) = positions (s, e), new elements.
    `conv` turns the code source into another documented form of the code argument (list of lines, AST, FST; `sfx` names
    it), `so` is the value passed for `one` in the slice forms (False or None), `bare`: the single new element is passed
    without slice syntax with one=False (one element by coercion)."""
    k = len(new)
    field = fam.field
    conv = conv or (lambda c: c)
    code = conv(new[0] if bare else fam.code(new)) if k else None
    E = []
    view = lambda nd: getattr(nd, field)
    sl = _pyslice(a, b, n)
    if k:
        E.append(('put_slice', lambda nd: nd.put_slice(code, a, b, field, one=so)))
        E.append(('put', lambda nd: nd.put(code, a, b, field, one=so)))
        E.append(('view[a:b]=', lambda nd: view(nd).__setitem__(sl, code)))
        E.append(('view[a:b].replace', lambda nd: view(nd)[sl].replace(code, one=so)))
        if fam.default:
            E.append(('node[a:b]=', lambda nd: nd.__setitem__(sl, code)))
            E.append(('put_slice(default field)', lambda nd: nd.put_slice(code, a, b, one=so)))
        if s == e:
            E.append(('insert', lambda nd: nd.insert(code, a, field, one=so)))
            E.append(('view.insert', lambda nd: view(nd).insert(code, a, one=so)))
        if s == e == n:
            E.append(('extend', lambda nd: nd.extend(code, field, one=so)))
            E.append(('view.extend', lambda nd: view(nd).extend(code, one=so)))
        if s == e == 0:
            E.append(('prextend', lambda nd: nd.prextend(code, field, one=so)))
            E.append(('view.prextend', lambda nd: view(nd).prextend(code, one=so)))
        if (s, e) == (0, n):
            E.append(('attr=', lambda nd: setattr(nd, field, code)))
        if e - s == 1 and fam.tag != 'mixed' and not fam.blank_ops and not bare:
            # FST.replace(code, one=False) on the element itself: the element is replaced by the slice
            i_ = rng.choice([s, s - n])
            E.append(('elem.replace(one=False)', lambda nd: _elem(view(nd), i_).replace(code, one=so)))
        if k == 1 and fam.single is not None and with_single and not bare:
            one = conv(fam.single(new[0]))
            E.append(('put_slice(one=True)', lambda nd: nd.put_slice(one, a, b, field, one=True)))
            E.append(('view[a:b].replace(one)', lambda nd: view(nd)[sl].replace(one)))
            if s == e:
                E.append(('insert(one)', lambda nd: nd.insert(one, a, field)))
                E.append(('view.insert(one)', lambda nd: view(nd).insert(one, a)))
            if s == e == n:
                E.append(('append', lambda nd: nd.append(one, field)))
                E.append(('view.append', lambda nd: view(nd).append(one)))
            if s == e == 0:
                E.append(('prepend', lambda nd: nd.prepend(one, field)))
                E.append(('view.prepend', lambda nd: view(nd).prepend(one)))
            if e - s == 1:
                i = rng.choice([s, s - n])
                E.append(('put(i)', lambda nd: nd.put(one, i, field)))
                E.append(('view[i]=', lambda nd: view(nd).__setitem__(i, one)))
                if fam.tag != 'mixed':      # an element's own field is args / keywords: a positional cannot be replaced by a keyword there
                    E.append(('elem.replace', lambda nd: _elem(view(nd), i).replace(one)))
                if fam.default:
                    E.append(('node[i]=', lambda nd: nd.__setitem__(i, one)))
    else:
        E.append(('put_slice(None)', lambda nd: nd.put_slice(None, a, b, field)))
        E.append(('put(None,a,b)', lambda nd: nd.put(None, a, b, field)))
        E.append(('del view[a:b]', lambda nd: view(nd).__delitem__(sl)))
        E.append(('view[a:b].remove', lambda nd: view(nd)[sl].remove()))
        E.append(('view[a:b]=None', lambda nd: view(nd).__setitem__(sl, None)))
        if fam.default:
            E.append(('del node[a:b]', lambda nd: nd.__delitem__(sl)))
        if (s, e) == (0, n):
            E.append(('del attr', lambda nd: delattr(nd, field)))
            E.append(('attr=None', lambda nd: setattr(nd, field, None)))
        if e - s == 1:
            i = rng.choice([s, s - n])
            E.append(('put(None,i)', lambda nd: nd.put(None, i, field)))
            E.append(('del view[i]', lambda nd: view(nd).__delitem__(i)))
            if not fam.blank_ops and fam.tag != 'mixed':   # a Compare operand's / interleaved argument's own field is `left` / `comparators`, which refuse deletion by themselves
                E.append(('elem.remove', lambda nd: _elem(view(nd), i).remove()))
                E.append(('elem.replace(None)', lambda nd: _elem(view(nd), i).replace(None)))
            if fam.default:
                E.append(('del node[i]', lambda nd: nd.__delitem__(i)))
    if sfx or so is None or bare:
        E = [(nm + sfx + ('(one=None)' if so is None else '') + ('(bare)' if bare else ''), fn) for nm, fn in E]
    return E


def run_family_case(arg):
    """(family index, seed, n requests) -> list of result dicts (failures and tallies)"""
    fi, seed, nreq = arg
    rng = random.Random(seed)
    fam = FAMILIES[fi]
    render = fam.render or _render_compare
    out = []
    for _ in range(nreq):
        n = rng.randint(fam.minlen, fam.maxlen)
        n = min(n, len(fam.pool) - 1)
        if n < fam.minlen:
            continue
        pool = fam.pool[:]
        rng.shuffle(pool)
        if fam.pick:
            old, more = fam.pick(rng, n)
            pool = old + more
        old = pool[:n]
        s = rng.randint(0, n)
        e = rng.randint(s, n)
        k = rng.choice([0, 1, 1, 2])
        if fam.blank_ops:           # Compare: operands are replaced one for one or deleted (operators are not part of the law)
            if rng.random() < 0.5 or s == e:
                if s == e:
                    continue
                k = 0
            else:
                k = e - s
        rest = pool[n:]
        new = [rest[i % len(rest)] for i in range(k)]
        if len(set(new)) < len(new):
            new = new[:1]
            k = 1
        want = old[:s] + new + old[e:]
        if len(want) < fam.minlen or (k == 0 and s == e and rng.random() < 0.5):
            continue        # (deleting an empty range is a no-op request: kept half of the time)
        a = _raw_for(rng, n, s, True)
        b = _raw_for(rng, n, e, True)
        if _py_bounds(n, a, b) != (s, e):
            continue
        try:
            src = render(old)
            exp_tree = ast.parse(render(want))
            ast.parse(src)
        except SyntaxError:
            continue
        exp = _dump(exp_tree, fam)
        srcs = _layouts(src, rng)
        if fam.blank_ops and k:
            entries = []
            if k == 1 and e - s == 1:
                one = new[0]
                i = rng.choice([s, s - n])
                entries = [('put(i)', lambda nd: nd.put(one, i, fam.field)), ('view[i]=', lambda nd: getattr(nd, fam.field).__setitem__(i, one)),
                           ('node[i]=', lambda nd: nd.__setitem__(i, one)),
                           ('put_slice(one=True)', lambda nd: nd.put_slice(one, a, b, fam.field, one=True))]
        else:
            entries = _entries(fam, n, a, b, s, e, new, rng)
            if k:
                # the other documented forms of the code argument: list of lines (by definition = the joined str), AST
                entries += _entries(fam, n, a, b, s, e, new, rng, conv=_lines, sfx='[lines]')
                astc = _ast_code(fam, new)
                if astc is not None and rng.random() < 0.5:
                    entries += _entries(fam, n, a, b, s, e, new, rng, conv=lambda c: astc, sfx='[AST]', with_single=False,
                                        so=rng.choice([False, None]))
                if rng.random() < 0.3:
                    entries += _entries(fam, n, a, b, s, e, new, rng, so=None, with_single=False)
                if k == 1 and fam.code is tup and not new[0].startswith('*'):
                    # one element given WITHOUT slice syntax, one=False: put as one element (also when it is itself a
                    # delimited sequence such as `[i]` or `(g, h)`), in str and in lines form, single- and multi-line
                    entries += _entries(fam, n, a, b, s, e, new, rng, bare=True)
                    entries += _entries(fam, n, a, b, s, e, new, rng, conv=_lines, sfx='[lines]', bare=True)
                    if ', ' in new[0]:
                        entries += _entries(fam, n, a, b, s, e, new, rng, conv=lambda c: _lines(c.replace(', ', ',\n ')),
                                            sfx='[multiline lines]', bare=True)
        for name, fn in entries:
            tsrc = rng.choice(srcs)
            rec = {'fam': fam.name, 'tag': fam.tag, 'op': name, 'src': tsrc, 'a': a, 'b': b, 'new': new, 'n': n, 'k': k,
                   'layout': tsrc != src, 'want': want}
            try:
                root = _fst(tsrc)
                node = fam.find(root.a).f
                fn(node)
                got = _dump(root.a, fam)
                if got != exp:
                    # which part differs: the field or the rest
                    rec['fail'] = 'structure'
                    rec['detail'] = _first_diff(got, exp)
                elif tsrc == src:
                    d = _source_check(root, exp, fam)       # plain layout: the source must say the same as the tree
                    if d:
                        rec['fail'] = 'source'
                        rec['detail'] = d
            except _Skip:
                continue
            except NotImplementedError as ex:
                if (fam.kind, fam.field) not in DOCUMENTED_NOT_IMPLEMENTED:
                    rec['fail'] = 'NotImplementedError'
                    rec['detail'] = str(ex)[:200]
            except Exception as ex:
                rec['fail'] = 'raised:' + type(ex).__name__
                rec['detail'] = str(ex)[:200]
            out.append(rec)
    return out


def _exec_entries(fam, src, exp, entries, base):
    out = []
    for name, fn in entries:
        rec = dict(base, op=name)
        try:
            root = _fst(src)
            fn(fam.find(root.a).f)
            got = _dump(root.a, fam)
            if got != exp:
                rec['fail'] = 'structure'
                rec['detail'] = _first_diff(got, exp)
            else:
                d = _source_check(root, exp, fam)
                if d:
                    rec['fail'] = 'source'
                    rec['detail'] = d
        except _Skip:
            continue
        except NotImplementedError as ex:
            if (fam.kind, fam.field) not in DOCUMENTED_NOT_IMPLEMENTED:
                rec['fail'] = 'NotImplementedError'
                rec['detail'] = str(ex)[:200]
        except Exception as ex:
            rec['fail'] = 'raised:' + type(ex).__name__
            rec['detail'] = str(ex)[:200]
        out.append(rec)
    return out


def run_form_product_case(fi):
    """Deterministic: one family x fixed requests x every documented FORM of the code argument (str, list of lines, AST,
    FST) x one in {False, None} (and True for a single element) x every entry point.  The expected result for lines is by
    definition the result for the joined str; for AST / FST slice containers it is the result for the slice source."""
    from fst import FST
    fam = FAMILIES[fi]
    if fam.blank_ops:
        return []
    rng = random.Random(fi)
    render = fam.render
    n = min(max(fam.minlen, 3), len(fam.pool) - 2)
    if fam.pick:
        old, rest = fam.pick(random.Random(7), n)
        n = len(old)
    else:
        old, rest = fam.pool[:n], fam.pool[n:]
    out = []
    reqs = [(1, 2), (0, 0), (n, n), (0, n), (1, 1), (0, 1), (0, 2), (1, n), (2, n)]
    news = [rest[:1], rest[:2]]
    if fam.code is tup and fam.kind in ('Tuple', 'List', 'Set', 'Delete'):
        news += [['[p, q]'], ['(p, q)']] + ([['{p, q}']] if fam.kind != 'Delete' else [])
    for s_, e_ in reqs:
        if s_ > n or e_ > n:
            continue
        for new in news + [[]]:
            want = old[:s_] + new + old[e_:]
            if len(want) < fam.minlen:
                continue
            try:
                src = render(old)
                exp = _dump(ast.parse(render(want)), fam)
                ast.parse(src)
            except SyntaxError:
                continue
            a, b = s_, ('end' if e_ == n else e_)
            base = {'fam': fam.name, 'tag': fam.tag, 'src': src, 'a': a, 'b': b, 'new': new, 'n': n, 'k': len(new), 'layout': False,
                    'want': want, 'product': True}
            E = []
            if not new:
                out += _exec_entries(fam, src, exp, _entries(fam, n, a, b, s_, e_, new, rng), base)
                if not fam.pick and s_ < e_:
                    # the same deletion on every rotation of the elements: each element gets to be the sole / first / last survivor
                    for r_ in range(1, n):
                        old_r = old[r_:] + old[:r_]
                        want_r = old_r[:s_] + old_r[e_:]
                        try:
                            src_r = render(old_r)
                            exp_r = _dump(ast.parse(render(want_r)), fam)
                            ast.parse(src_r)
                        except SyntaxError:
                            continue
                        out += _exec_entries(fam, src_r, exp_r, _entries(fam, n, a, b, s_, e_, new, rng), dict(base, src=src_r, want=want_r, rot=r_))
                continue
            for so in (False, None):
                E += _entries(fam, n, a, b, s_, e_, new, rng, so=so, with_single=so is False)
                E += _entries(fam, n, a, b, s_, e_, new, rng, conv=_lines, sfx='[lines]', so=so, with_single=so is False)
                astc = _ast_code(fam, new)
                if astc is not None:
                    E += _entries(fam, n, a, b, s_, e_, new, rng, conv=lambda c: astc, sfx='[AST]', so=so, with_single=False)
                    mk = lambda: FST.fromast(ast.parse(ast.unparse(astc), mode='exec' if isinstance(astc, ast.Module) else 'eval')
                                             if False else _copy_ast(astc))
                    field = fam.field
                    sl_ = _pyslice(a, b, n)
                    E += [('put_slice[FST]' + ('(one=None)' if so is None else ''), (lambda so: lambda nd: nd.put_slice(mk(), a, b, field, one=so))(so)),
                          ('view[a:b].replace[FST]' + ('(one=None)' if so is None else ''),
                           (lambda so: lambda nd: getattr(nd, field)[sl_].replace(mk(), one=so))(so))]
                    if so is False:
                        E.append(('view[a:b]=[FST]', lambda nd: getattr(nd, field).__setitem__(sl_, mk())))
            if len(new) == 1 and fam.code is tup and not new[0].startswith('*'):
                E += _entries(fam, n, a, b, s_, e_, new, rng, bare=True)
                E += _entries(fam, n, a, b, s_, e_, new, rng, conv=_lines, sfx='[lines]', bare=True)
                if ', ' in new[0]:
                    E += _entries(fam, n, a, b, s_, e_, new, rng, conv=lambda c: _lines(c.replace(', ', ',\n ')), sfx='[multiline lines]',
                                  bare=True)
            out += _exec_entries(fam, src, exp, E, base)
    return out


# ---- what counts as a docstring (the start offset of `_body`) ---------------------------------------------------------------

_DOC_FIRST = ['"""doc"""', "'d'", "b'bytes'", "f'x{y}'", "f'plain'", '1', '...', "'a' 'b'", "('p')", "u'u'", "r'r'", "rb'x'", "b'a' b'b'", 'None',
              'x', "'s'.strip()", '-1', "'a' + 'b'", "('t',)", 'é = "ñ"', 'pass']
_DOC_HOLDERS = [('Module', None, lambda t: t), ('FunctionDef', 'def f():', B0), ('AsyncFunctionDef', 'async def f():', B0), ('ClassDef', 'class C:', B0),
                ('If', 'if x:', B0), ('For', 'for i in j:', B0), ('With', 'with x:', B0)]


def run_docstr_case(arg):
    """Deterministic: every docstring holder (and some block kinds that are not) x every kind of FIRST statement that is or
    looks like a docstring (str in all prefixes / concatenated / parenthesized, bytes, f-string, number, Ellipsis, expression
    on a str, ...) x queries and edits through `_body`.  Judge of 'is a docstring': CPython's ast.get_docstring.  The list
    model: `_body` is body[1:] if there is a docstring else body."""
    hi, fi = arg
    kind, hdr, find = _DOC_HOLDERS[hi]
    first = _DOC_FIRST[fi]
    L = [first, 'a = 1', 'b()']
    render = (lambda el: '\n'.join(el)) if hdr is None else (lambda el: hdr + '\n' + '\n'.join('    ' + e for e in el))
    src = render(L)
    out = []
    try:
        tree = ast.parse(src)
    except SyntaxError:
        return out
    node0 = find(tree)
    isdoc = kind in ('Module', 'FunctionDef', 'AsyncFunctionDef', 'ClassDef') and ast.get_docstring(node0, clean=False) is not None
    off = 1 if isdoc else 0
    V = L[off:]
    m = len(V)
    elems = [ast.dump(x) for x in node0.body[off:]]

    def rec_(op, extra):
        return {'fam': f'{kind}._body', 'tag': 'docstring-kind', 'op': op, 'sigop': op, 'src': src, 'a': None, 'b': None, 'new': [first] + extra,
                'layout': False, 'docstr_args': [hi, fi]}

    def fresh():
        root = _fst(src)
        return root, find(root.a).f

    r = rec_('has_docstr/len', [])
    try:
        root, nd = fresh()
        got = (bool(nd.has_docstr), len(nd._body), [ast.dump(nd._body[i].a) for i in range(len(nd._body))])
        if got != (isdoc, m, elems):
            r['fail'] = 'docstring-offset'
            r['detail'] = (f'first statement {first!r}: CPython ast.get_docstring says docstring={isdoc}; has_docstr={got[0]}, len(_body)={got[1]} '
                           f'(list model {m}), _body shows {str(got[2])[:200]}')
    except Exception as ex:
        r['fail'], r['detail'] = 'raised:' + type(ex).__name__, str(ex)[:200]
    out.append(r)
    edits = [('_body[0]=', lambda nd: nd._body.__setitem__(0, 'zz = 1'), lambda v: ['zz = 1'] + v[1:]),
             ('_body[-1]=', lambda nd: nd._body.__setitem__(-1, 'zz = 1'), lambda v: v[:-1] + ['zz = 1']),
             (f'_body[{-m}]=', lambda nd: nd._body.__setitem__(-m, 'zz = 1'), lambda v: ['zz = 1'] + v[1:]),
             ('_body.insert(0)', lambda nd: nd._body.insert('zz = 1', 0), lambda v: ['zz = 1'] + v),
             ('_body.prepend', lambda nd: nd._body.prepend('zz = 1'), lambda v: ['zz = 1'] + v),
             ('insert(0,_body)', lambda nd: nd.insert('zz = 1', 0, '_body'), lambda v: ['zz = 1'] + v),
             ('del _body[0]', lambda nd: nd._body.__delitem__(0), lambda v: v[1:]),
             ('del _body[:-1]', lambda nd: nd._body.__delitem__(slice(None, -1)), lambda v: v[-1:]),
             ('_body[0:1]=', lambda nd: nd._body.__setitem__(slice(0, 1), 'zz = 1'), lambda v: ['zz = 1'] + v[1:]),
             ('put_slice(0,1,_body)', lambda nd: nd.put_slice('zz = 1', 0, 1, '_body'), lambda v: ['zz = 1'] + v[1:]),
             ('put_slice(0,end,_body)', lambda nd: nd.put_slice('zz = 1', 0, 'end', '_body'), lambda v: ['zz = 1']),
             ('put(0,_body)', lambda nd: nd.put('zz = 1', 0, '_body'), lambda v: ['zz = 1'] + v[1:]),
             (f'put({-m},_body)', lambda nd: nd.put('zz = 1', -m, '_body'), lambda v: ['zz = 1'] + v[1:]),
             ('put(0,_body,raw)', lambda nd: nd.put('zz = 1', 0, '_body', raw=True), lambda v: ['zz = 1'] + v[1:]),
             ('_body=', lambda nd: setattr(nd, '_body', 'zz = 1'), lambda v: ['zz = 1']),
             ('_body[0].remove', lambda nd: nd._body[0].remove(), lambda v: v[1:])]
    for name, fn, model in edits:
        want = L[:off] + model(V)
        r = rec_(name, [])
        try:
            exp = ast.dump(ast.parse(render(want)))
        except SyntaxError:
            continue
        try:
            root, nd = fresh()
            fn(nd)
            got = ast.dump(root.a)
            if got != exp:
                r['fail'] = 'structure'
                r['detail'] = f'first statement {first!r} (docstring by CPython: {isdoc}): {root.src!r} instead of {render(want)!r}'
            else:
                d = _source_check(root, exp)
                if d:
                    r['fail'], r['detail'] = 'source', d
        except Exception as ex:
            r['fail'], r['detail'] = 'raised:' + type(ex).__name__, str(ex)[:200]
        out.append(r)
    return out


def docstr_items():
    return [(h, f) for h in range(len(_DOC_HOLDERS)) for f in range(len(_DOC_FIRST))]


# ---- Compare with its operators; options given per call, by `with FST.options(...)` and by FST.set_options(...) ----------------

_CMP_OPERANDS = ['a', 'b', 'c.d', 'e()']
_CMP_OPS = ['<', '==', '>']


def _cmp_src(operands, ops):
    return 'x = ' + operands[0] + ''.join(f' {o} {v}' for o, v in zip(ops, operands[1:]))


def run_compare_product_case(arg):
    """Deterministic: `a < b == c.d > e()`: every slice delete leaving >= 2 operands and every single-operand insert, with
    op_side 'left' / 'right' (and the extra `op` for inserts) supplied through each CHANNEL - call keyword, `with
    FST.options(...)`, `FST.set_options(...)` - and every entry point that channel allows (del view[a:b], view[a:b] = None,
    ... take no keywords).  Plain-list model of operands AND operators: a deleted operand takes the operator on the requested
    side with it (the only possible side at the first / last operand), an inserted operand brings its operator on that side.
    Full dump (operators included) and source judged."""
    from fst import FST
    side, channel = arg
    out = []
    X, P = _CMP_OPERANDS, _CMP_OPS
    n = len(X)
    src = _cmp_src(X, P)

    def run(name, fn, want_src, a, b, extra, kw):
        rec = {'fam': 'Compare._all', 'tag': f'ops/{channel}', 'op': name, 'sigop': f'{name}/{channel}', 'src': src, 'a': a, 'b': b,
               'new': extra, 'layout': False, 'compare_args': [side, channel]}
        exp = ast.dump(ast.parse(want_src))
        saved = None
        try:
            root = _fst(src)
            node = root.a.body[0].value.f
            if channel == 'kwarg':
                fn(node, kw)
            elif channel == 'context':
                with FST.options(**kw):
                    fn(node, {})
            else:
                saved = FST.set_options(**kw)
                fn(node, {})
            got = ast.dump(root.a)
            if got != exp:
                rec['fail'], rec['detail'] = 'structure', f'{root.src!r} instead of {want_src!r} (op_side={side!r} given by {channel})'
            else:
                d = _source_check(root, exp)
                if d:
                    rec['fail'], rec['detail'] = 'source', d
        except _Skip:
            return
        except Exception as ex:
            rec['fail'], rec['detail'] = 'raised:' + type(ex).__name__, str(ex)[:200]
        finally:
            if saved is not None:
                FST.set_options(**saved)
        out.append(rec)

    kwless = channel != 'kwarg'
    for s_ in range(n):
        for e_ in range(s_ + 1, n + 1):
            if n - (e_ - s_) < 2:
                continue
            eff = 'right' if s_ == 0 else 'left' if e_ == n else side
            ops = P[:]
            if eff == 'left':
                del ops[s_ - 1:e_ - 1]
            else:
                del ops[s_:e_]
            want = _cmp_src(X[:s_] + X[e_:], ops)
            kw = {'op_side': side}
            sl_ = slice(s_, e_)
            run('put_slice(None)', lambda nd, k: nd.put_slice(None, s_, e_, '_all', **k), want, s_, e_, [], kw)
            run('put(None,a,b)', lambda nd, k: nd.put(None, s_, e_, '_all', **k), want, s_, e_, [], kw)
            run('view[a:b].remove', lambda nd, k: nd._all[sl_].remove(**k), want, s_, e_, [], kw)
            run('view[a:b].replace(None)', lambda nd, k: nd._all[sl_].replace(None, **k), want, s_, e_, [], kw)
            run('view[a:b].cut', lambda nd, k: nd._all[sl_].cut(**k), want, s_, e_, [], kw)
            if kwless:
                run('del view[a:b]', lambda nd, k: nd._all.__delitem__(sl_), want, s_, e_, [], kw)
                run('view[a:b]=None', lambda nd, k: nd._all.__setitem__(sl_, None), want, s_, e_, [], kw)
                run('del node[a:b]', lambda nd, k: nd.__delitem__(sl_), want, s_, e_, [], kw)
                if e_ - s_ == 1:
                    run('del view[i]', lambda nd, k: nd._all.__delitem__(s_), want, s_, e_, [], kw)
                    run('view[i]=None', lambda nd, k: nd._all.__setitem__(s_, None), want, s_, e_, [], kw)
    for i in range(n + 1):
        eff = 'right' if i == 0 else 'left' if i == n else side
        ops = P[:]
        ops.insert(i - 1 if eff == 'left' else i, '!=')
        want = _cmp_src(X[:i] + ['zz'] + X[i:], ops)
        kw = {'op_side': side, 'op': '!='}
        run('put_slice(insert)', lambda nd, k: nd.put_slice('zz', i, i, '_all', **k), want, i, i, ['zz'], kw)
        run('insert', lambda nd, k: nd.insert('zz', i, '_all', **k), want, i, i, ['zz'], kw)
        run('view.insert', lambda nd, k: nd._all.insert('zz', i, **k), want, i, i, ['zz'], kw)
        if kwless:
            run('view[i:i]=', lambda nd, k: nd._all.__setitem__(slice(i, i), 'zz'), want, i, i, ['zz'], kw)
        if i == n:
            run('append', lambda nd, k: nd.append('zz', '_all', **k), want, i, i, ['zz'], kw)
            run('view.append', lambda nd, k: nd._all.append('zz', **k), want, i, i, ['zz'], kw)
        if i == 0:
            run('prepend', lambda nd, k: nd.prepend('zz', '_all', **k), want, i, i, ['zz'], kw)
    return out


def compare_items():
    return [(side, ch) for side in ('left', 'right') for ch in ('kwarg', 'context', 'set_options')]


# ---- raw mode and the `to` option ------------------------------------------------------------------------------------------

_RAW_KEYS = [('Module.body', ''), ('FunctionDef.body', ''), ('FunctionDef._body', ''), ('FunctionDef._body', 'docstr'), ('Module._body', 'docstr'),
             ('ClassDef._body', 'docstr'), ('AsyncFunctionDef._body', 'docstr'), ('If.orelse', ''), ('List.elts', ''), ('Tuple.elts', ''), ('Set.elts', ''),
             ('Call.args', ''), ('Call._args', 'pos'), ('Delete.targets', ''), ('Dict._all', ''), ('MatchSequence.patterns', ''),
             ('arguments._all', 'plain'), ('ClassDef._bases', 'pos'), ('MatchClass.patterns', ''), ('With.items', ''), ('Import.names', '')]


def _elem_spans(fam, src):
    """(start, end) byte offsets in `src` of every element of the family's field, from CPython positions only"""
    tree = ast.parse(src)
    node = fam.find(tree)
    b = src.encode()
    starts = [0]
    for ln in b.split(b'\n'):
        starts.append(starts[-1] + len(ln) + 1)
    off = lambda l, c: starts[l - 1] + c
    sp = lambda x: (off(x.lineno, x.col_offset), off(x.end_lineno, x.end_col_offset))
    if fam.name == 'Dict._all':
        out = []
        for k, v in zip(node.keys, node.values):
            vs, ve = sp(v)
            if k is None:
                st = b.rindex(b'**', 0, vs)
            else:
                st = sp(k)[0]
            out.append((st, ve))
        return out
    if fam.field == 'items':
        return [(sp(w.context_expr)[0], sp(w.optional_vars or w.context_expr)[1]) for w in node.items]
    if fam.name == 'arguments._all':
        a = node
        return [sp(x) for x in a.posonlyargs + a.args + ([a.vararg] if a.vararg else []) + a.kwonlyargs + ([a.kwarg] if a.kwarg else [])]
    return [sp(x) for x in _velems(fam, tree)]


def run_raw_product_case(fi):
    """Deterministic: raw mode (`raw=True`) and the `to` option of single-element puts, on real and virtual fields (with and
    without docstring): every int index incl. negative and out of range x every `to` element at or after it x put / element
    replace; raw slice puts over every non-empty range in raw index forms.  Raw mode is a literal text replacement of the
    span of the addressed elements followed by a reparse, so the oracle is: Python list indexing picks the elements
    (IndexError out of range), their span comes from CPython's positions, the expected tree is ast.parse of the spliced
    text; requests whose spliced text is not valid Python are skipped."""
    fam = FAMILIES[fi]
    out = []
    n = min(max(fam.minlen, 3), len(fam.pool) - 2)
    old, rest = fam.pool[:n], fam.pool[n:]
    src = fam.render(old)
    try:
        spans = _elem_spans(fam, src)
    except SyntaxError:
        return out
    if len(spans) != n:
        return out
    field = fam.field
    bsrc = src.encode()
    stmtlike = fam.code is sl

    def elem(nd, j, whole=False):
        x = getattr(nd, field)[j]
        if isinstance(x, str) or x is None:
            raise _Skip()
        if not getattr(x, 'is_FST', False):         # multinode element (Dict pair ...): its last node (as a `to` target only)
            if fam.kind == 'Dict' and not whole:
                return nd.values[j]
            raise _Skip()
        return x

    def run(name, fn, span, text, a, b, extra):
        rec = {'fam': fam.name, 'tag': fam.tag, 'op': name, 'sigop': name, 'src': src, 'a': a, 'b': b, 'new': extra, 'layout': False, 'raw_args': fi}
        exp = None
        if span is not None:
            exp_src = (bsrc[:span[0]] + text.encode() + bsrc[span[1]:]).decode()
            try:
                exp = ast.dump(ast.parse(exp_src))
            except SyntaxError:
                return
        try:
            root = _fst(src)
            fn(fam.find(root.a).f)
            if span is None:
                rec['fail'], rec['detail'] = 'no-IndexError', f'index {a} out of range for {n} elements was accepted: {root.src[:160]!r}'
            else:
                got = ast.dump(root.a)
                if got != exp:
                    rec['fail'], rec['detail'] = 'structure', f'{root.src[:160]!r} instead of {exp_src[:160]!r}: ' + _first_diff(got, exp)
                else:
                    d = _source_check(root, exp)
                    if d:
                        rec['fail'], rec['detail'] = 'source', d
        except _Skip:
            return
        except IndexError as ex:
            if span is not None:
                rec['fail'], rec['detail'] = 'raised:IndexError', str(ex)[:160]
        except Exception as ex:
            rec['fail'], rec['detail'] = 'raised:' + type(ex).__name__, str(ex)[:200]
        out.append(rec)

    one = rest[0]
    for i in range(-n - 2, n + 2):
        ok = -n <= i < n
        i2 = i + n if i < 0 else i
        if not ok:
            run('put(raw)', lambda nd: nd.put(one, i, field, raw=True), None, one, i, None, [one])
            run('put(raw,to)', lambda nd: nd.put(one, i, field, raw=True, to=elem(nd, n - 1)), None, one, i, n - 1, [one])
            continue
        run('put(raw)', lambda nd: nd.put(one, i, field, raw=True), spans[i2], one, i, None, [one])
        run('elem.replace(raw)', lambda nd: elem(nd, i, True).replace(one, raw=True), spans[i2], one, i, None, [one])
        for j in range(i2, n):
            span = (spans[i2][0], spans[j][1])
            run('put(raw,to)', lambda nd: nd.put(one, i, field, raw=True, to=elem(nd, j)), span, one, i, j, [one])
            run('elem.replace(raw,to)', lambda nd: elem(nd, i, True).replace(one, raw=True, to=elem(nd, j)), span, one, i, j, [one])
    for s_ in range(n):
        for e_ in range(s_ + 1, n + 1):
            for nw in ((rest[:1],) if stmtlike else (rest[:1], rest[:2])):
                text = ', '.join(nw) if not stmtlike else nw[0]
                span = (spans[s_][0], spans[e_ - 1][1])
                for a, b in ((s_, e_), (s_ - n, 'end' if e_ == n else e_ - n)):
                    run('put_slice(raw)', lambda nd: nd.put_slice(text, a, b, field, raw=True), span, text, a, b, nw)
    return out


def raw_items():
    return [i for i, f in enumerate(FAMILIES) if (f.name, f.tag) in _RAW_KEYS]


# ---- refused requests must leave everything as it was ----------------------------------------------------------------------

_ARGS_SHAPES = ['a, /, b', 'a, *, k', 'a, /, b, *, k=1, **kw', '*v, k', 'a=1, /, b=2, *, k', 'a, b=1, *v, k, j=2, **kw', 'a, /', '*, k, j=2',
                'a, b', 'a, /, b=1, *v']
_ARGS_CODES = ['*w', '**kw2', 'x', 'x=1', 'x, /', '*, y', 'x, /, y, *, z', '*w, y', 'x, **kw2', '$$']
_CALL_CODES = ['x', '*x', 'x=9', '**x', 'x, y=1', '**x, *y', '$$']


def _del_last_argument(a):
    """pure `ast`: what `del arguments._all[-1]` means"""
    if a.kwarg:
        a.kwarg = None
    elif a.kwonlyargs:
        a.kwonlyargs.pop()
        a.kw_defaults.pop()
    elif a.vararg:
        a.vararg = None
    elif a.args or a.posonlyargs:
        (a.args or a.posonlyargs).pop()
        if a.defaults:
            a.defaults.pop()


def _del_last_arglike(node, ef):
    both = sorted(getattr(node, ef) + node.keywords, key=lambda x: (x.lineno, x.col_offset))
    if both:
        last = both[-1]
        (getattr(node, ef) if last in getattr(node, ef) else node.keywords).remove(last)


def _after_refusal(root, node_of, src, orig_dump, follow, follow_exp):
    """after a refused request: source and tree as before (full dump, tree == parse of source) and a following valid edit
    behaves as on a fresh tree; returns (class, detail) or None"""
    if root.src != src:
        return 'refusal-changed-source', f'source after the refused request: {root.src[:200]!r}'
    got = ast.dump(root.a)
    if got != orig_dump:
        return 'refusal-changed-tree', 'tree after the refused request differs from the parse of its (unchanged) source: ' + _first_diff(got, orig_dump)
    try:
        follow(node_of(root))
    except Exception as ex:
        return 'followup-raised:' + type(ex).__name__, f'a valid edit after the refused request raised: {str(ex)[:160]}'
    got = ast.dump(root.a)
    if got != follow_exp:
        return 'followup-structure', 'a valid edit after the refused request gave: ' + _first_diff(got, follow_exp)
    d = _source_check(root, follow_exp)
    if d:
        return 'followup-source', d
    return None


def run_refusal_case(arg):
    """Deliberately refused (or possibly refused) requests.  kind 'args': every marker shape of `arguments` (`/`, bare `*`,
    *args, kw-only with/without defaults, **kw) in def / async def / lambda x every position x new code of every argument
    kind incl. invalid orderings and garbage; kind 'call': interleaved Call / ClassDef arguments likewise; kind 'fam': every
    family with unparsable code.  If the request raises: source and full tree dump unchanged and a following valid edit
    (delete the last element / a fixed valid put) gives the expected tree and source.  If it is carried out: the tree must
    equal the parse of the new source."""
    kind, i = arg
    out = []

    def run(famname, src, node_of, field, entries, follow, follow_exp, extra):
        orig = ast.dump(ast.parse(src))
        for name, fn in entries:
            rec = {'fam': famname, 'tag': 'refusal', 'op': name, 'sigop': name.split('(')[0], 'src': src, 'new': extra, 'a': extra.get('s'), 'b': extra.get('e'),
                   'layout': False, 'refusal_args': [kind, i]}
            root = _fst(src)
            try:
                fn(node_of(root))
            except Exception as ex:
                rec['refused'] = type(ex).__name__ + ': ' + str(ex)[:60]
                r = _after_refusal(root, node_of, src, orig, follow, follow_exp)
                if r:
                    rec['fail'], rec['detail'] = r[0], f'request refused with {rec["refused"]!r}; ' + r[1]
            else:
                try:
                    t = ast.dump(ast.parse(root.src))
                    if t != ast.dump(root.a):
                        rec['fail'], rec['detail'] = 'source', f'carried out, but the tree is not the parse of the source {root.src[:120]!r}: ' + _first_diff(ast.dump(root.a), t)
                except SyntaxError as ex:
                    rec['fail'], rec['detail'] = 'source', f'carried out, but the source is not valid Python: {root.src[:160]!r} ({ex.msg})'
            out.append(rec)

    if kind == 'args':
        shape = _ARGS_SHAPES[i]
        for wrap, find in (('def f({X}): pass', lambda t: t.body[0].args), ('async def f({X}): pass', lambda t: t.body[0].args),
                           ('x = lambda {X}: 0', lambda t: t.body[0].value.args)):
            src = wrap.replace('{X}', shape)
            tree = ast.parse(src)
            a = find(tree)
            n = len(a.posonlyargs) + len(a.args) + bool(a.vararg) + len(a.kwonlyargs) + bool(a.kwarg)
            _del_last_argument(a)
            follow_exp = ast.dump(tree)
            node_of = lambda root, find=find: find(root.a).f
            follow = lambda nd: nd._all.__delitem__(-1)
            for code in _ARGS_CODES:
                for s_ in range(n + 1):
                    for e_ in (s_, s_ + 1):
                        if e_ > n:
                            continue
                        E = [('put_slice', lambda nd, c=code, s_=s_, e_=e_: nd.put_slice(c, s_, e_, '_all')),
                             ('view[a:b]=', lambda nd, c=code, s_=s_, e_=e_: nd._all.__setitem__(slice(s_, e_), c))]
                        if s_ == e_:
                            E.append(('insert', lambda nd, c=code, s_=s_: nd._all.insert(c, s_, one=False)))
                        else:
                            E.append(('view[a:b].replace', lambda nd, c=code, s_=s_, e_=e_: nd._all[s_:e_].replace(c, one=False)))
                        run('arguments._all', src, node_of, '_all', E, follow, follow_exp, {'code': code, 's': s_, 'e': e_})
    elif kind == 'call':
        old = _ARGLIKE_SHAPES[i]
        for ck, wrap, find, vf, ef in (('Call', 'f({X})', BV, '_args', 'args'), ('ClassDef', 'class C({X}): pass', B0, '_bases', 'bases')):
            for inner in (', '.join(old), _mixed_join(old)):
                src = wrap.replace('{X}', inner)
                tree = ast.parse(src)
                _del_last_arglike(find(tree), ef)
                follow_exp = ast.dump(tree)
                n = len(old)
                node_of = lambda root, find=find: find(root.a).f
                follow = lambda nd, vf=vf: getattr(nd, vf).__delitem__(-1)
                for code in _CALL_CODES:
                    for s_ in range(n + 1):
                        for e_ in (s_, s_ + 1):
                            if e_ > n:
                                continue
                            E = [('put_slice', lambda nd, c=code, s_=s_, e_=e_, vf=vf: nd.put_slice(c, s_, e_, vf)),
                                 ('view[a:b]=', lambda nd, c=code, s_=s_, e_=e_, vf=vf: getattr(nd, vf).__setitem__(slice(s_, e_), c))]
                            run(f'{ck}.{vf}', src, node_of, vf, E, follow, follow_exp, {'code': code, 's': s_, 'e': e_})
    else:
        fam = FAMILIES[i]
        if fam.blank_ops:
            return out
        n = min(max(fam.minlen, 3), len(fam.pool) - 2)
        if fam.pick:
            old, rest = fam.pick(random.Random(7), n)
            n = len(old)
        else:
            old, rest = fam.pool[:n], fam.pool[n:]
        if n < 2 or not rest:
            return out
        src = fam.render(old)
        want = old[:1] + rest[:1] + old[2:]
        try:
            follow_exp = ast.dump(ast.parse(fam.render(want)))
            ast.parse(src)
        except SyntaxError:
            return out
        field = fam.field
        good = fam.code(rest[:1])
        node_of = lambda root: fam.find(root.a).f
        follow = lambda nd: nd.put_slice(good, 1, 2, field)
        for code in ('$$', ')(', ['x = (', '1']):
            E = [('put_slice', lambda nd, c=code: nd.put_slice(c, 1, 2, field)), ('view[a:b]=', lambda nd, c=code: getattr(nd, field).__setitem__(slice(1, 2), c)),
                 ('insert', lambda nd, c=code: nd.insert(c, 1, field, one=False)), ('put(i)', lambda nd, c=code: nd.put(c, 1, field)),
                 ('extend', lambda nd, c=code: nd.extend(c, field))]
            run(fam.name, src, node_of, field, E, follow, follow_exp, {'code': code, 's': 1, 'e': 2})
    return out


def refusal_items():
    return ([('args', i) for i in range(len(_ARGS_SHAPES))] + [('call', i) for i in range(len(_ARGLIKE_SHAPES))]
            + [('fam', i) for i in range(len(FAMILIES))])


# ---- str NAME indexing of statement views --------------------------------------------------------------------------------

_NAME_CONTAINERS = [
    # key, header (None = module), find, docstring holder, fields
    ('Module', None, lambda t: t, True, ('body', '_body')),
    ('FunctionDef', 'def f():', B0, True, ('body', '_body')),
    ('ClassDef', 'class C:', B0, True, ('body', '_body')),
    ('AsyncFunctionDef', 'async def f():', B0, True, ('body', '_body')),
    ('If', 'if x:', B0, False, ('body', '_body', 'orelse')),
    ('For', 'for i in j:', B0, False, ('body', 'orelse')),
    ('Try', 'try:', B0, False, ('body', 'finalbody')),
]
_NAME_SHAPES = ['sd', 'ds', 'sdc', 'dscs', 'sdKa', 'dKsd']       # s plain stmt, d def, c class, a async def, K class with a method


def _name_elems(shape):
    el, names = [], []
    for i, k in enumerate(shape):
        if k == 'd':
            el.append(f'def n{i}(): pass')
        elif k == 'c':
            el.append(f'class n{i}: pass')
        elif k == 'a':
            el.append(f'async def n{i}(): pass')
        elif k == 'K':
            el.append(f'class n{i}:\n    def m(self): pass\n    y = {i}')
        else:
            el.append(f's{i} = {i}')
        names.append(None if k == 's' else f'n{i}')
    return el, names


def _name_render(hdr, field, doc, el):
    ind = lambda b, p: '\n'.join(p + l for l in b.split('\n'))
    stm = (['"""doc"""'] if doc else []) + el
    if hdr is None:
        return '\n'.join(stm)
    if field in ('body', '_body'):
        tail = '\nfinally:\n    pass' if hdr == 'try:' else ''
        return hdr + '\n' + '\n'.join(ind(b, '    ') for b in stm) + tail
    if field == 'orelse':
        return hdr + '\n    pass\nelse:\n' + '\n'.join(ind(b, '    ') for b in stm)
    return hdr + '\n    pass\nfinally:\n' + '\n'.join(ind(b, '    ') for b in stm)


def run_name_case(arg):
    """(container index, field, doc, shape): every window (whole view, and view[w0:w1] incl. start > 0) x every name
    (direct def/class names, the dotted name of a nested method, a missing name) x get / at / set / del by NAME.
    Oracle: plain list of statement sources; the statement addressed is the first one in the window defining that name."""
    ci, field, doc, shape = arg
    kind, hdr, find, holder, _ = _NAME_CONTAINERS[ci]
    el, names = _name_elems(shape)
    out = []
    # the list the view indexes: `body` includes the docstring statement, `_body` does not
    pre = ['"""doc"""'] if (doc and field != '_body') else []
    L = pre + el
    Lnames = [None] * len(pre) + names
    n = len(L)
    src = _name_render(hdr, field, doc, el)
    try:
        ast.parse(src)
    except SyntaxError:
        return out
    wins = [(None, None)] + [(a, b) for a in range(n + 1) for b in range(a, n + 1) if b > a]
    queries = [nm for nm in names if nm] + [f'{nm}.m' for nm, k in zip(names, shape) if k == 'K'] + ['nope']
    for w0, w1 in wins:
        lo, hi = (0, n) if w0 is None else (w0, w1)
        for q in queries:
            top = q.split('.')[0]
            idx = next((i for i in range(lo, hi) if Lnames[i] == top), None)
            for op in ('get', 'at', 'atv', 'set', 'del'):
                rec = {'fam': f'{kind}.{field}', 'tag': 'name' + ('+docstr' if doc else ''), 'op': f'view[name] {op}', 'sigop': f'name-{op}',
                       'src': src, 'a': w0, 'b': w1, 'new': [q], 'layout': False, 'name_args': [ci, field, doc, shape]}
                # expected
                if idx is None:
                    expect = 'IndexError'
                else:
                    L2 = L[:]
                    if '.' in q:
                        i_ = int(top[1:])
                        if op == 'set':
                            L2[idx] = f'class {top}:\n    zz = 1\n    y = {i_}'
                        elif op == 'del':
                            L2[idx] = f'class {top}:\n    y = {i_}'
                        target = 'def m(self): pass'
                    else:
                        if op == 'set':
                            L2[idx] = 'zz = 1'
                        elif op == 'del':
                            del L2[idx]
                        target = L[idx]
                    if len(L2) < 1:
                        continue
                    expect = ast.dump(ast.parse(_name_render(hdr, field, False, L2) if pre or not doc else _name_render(hdr, field, True, L2)))
                try:
                    root = _fst(src)
                    node = find(root.a).f
                    v = getattr(node, field)
                    if w0 is not None:
                        v = v[w0:w1]
                    if op == 'get':
                        r = v[q]
                    elif op == 'at':
                        r = v.at(q)
                    elif op == 'atv':
                        r = v.at(q, True)
                    elif op == 'set':
                        v[q] = 'zz = 1'
                    else:
                        del v[q]
                    if expect == 'IndexError':
                        rec['fail'] = 'no-IndexError'
                        rec['detail'] = f'name {q!r} is not defined inside the window [{lo}:{hi}] but the operation was carried out'
                    elif op == 'atv':
                        want = ast.dump(ast.parse(target).body[0])
                        shown = [ast.dump(r[i].a) for i in range(len(r))]
                        if shown != [want] or r.stop - r.start != 1 or not r.is_one or ('.' not in q and r.start != idx):
                            rec['fail'] = 'wrong-element'
                            rec['detail'] = (f'at({q!r}, True) gave a view [{r.start}:{r.stop}] is_one={r.is_one} showing {str(shown)[:160]}; '
                                             f'expected the singleton view of {want[:100]}' + ('' if '.' in q else f' at [{idx}:{idx + 1}]'))
                    elif op in ('get', 'at'):
                        got = ast.dump(r.a)
                        want = ast.dump(ast.parse(target).body[0])
                        if got != want:
                            rec['fail'] = 'wrong-element'
                            rec['detail'] = f'returned {got[:120]} instead of {want[:120]}'
                    else:
                        got = ast.dump(root.a)
                        if got != expect:
                            rec['fail'] = 'structure'
                            rec['detail'] = _first_diff(got, expect)
                except IndexError as ex:
                    if expect != 'IndexError':
                        rec['fail'] = 'raised:IndexError'
                        rec['detail'] = str(ex)[:200]
                except Exception as ex:
                    rec['fail'] = 'raised:' + type(ex).__name__
                    rec['detail'] = str(ex)[:200]
                out.append(rec)
    return out


def name_items(full):
    items = []
    for ci, (kind, hdr, find, holder, fields) in enumerate(_NAME_CONTAINERS):
        for field in fields:
            for doc in ((False, True) if holder else (False,)):
                for shape in (_NAME_SHAPES if full else _NAME_SHAPES[1:5]):
                    items.append((ci, field, doc, shape))
    return items


def _copy_ast(a):
    import copy
    return copy.deepcopy(a)


def run_optional_case(arg):
    oi, seed, nreq = arg
    rng = random.Random(seed)
    kind, field, render, find, pool = OPTIONALS[oi]
    out = []
    for _ in range(nreq):
        old = rng.choice([None] + pool)
        new = rng.choice([None] + pool)
        if old is None and new is None:
            continue
        src = render(old)
        exp = ast.dump(ast.parse(render(new)))
        srcs = _layouts(src, rng)
        E = [('put', lambda nd: nd.put(new, field=field)), ('put(field positional)', lambda nd: nd.put(new, field)),
             ('attr=', lambda nd: setattr(nd, field, new))]
        if new is None:
            E.append(('del attr', lambda nd: delattr(nd, field)))
        if old is not None:
            E.append(('child.replace', lambda nd: getattr(nd, field).replace(new)))
            if new is None:
                E.append(('child.remove', lambda nd: getattr(nd, field).remove()))
        for name, fn in E:
            tsrc = rng.choice(srcs)
            rec = {'fam': f'{kind}.{field}', 'tag': 'optional', 'op': name, 'src': tsrc, 'new': new, 'old': old, 'layout': tsrc != src}
            try:
                root = _fst(tsrc)
                fn(find(root.a).f)
                got = ast.dump(root.a)
                if got != exp:
                    rec['fail'] = 'structure'
                    rec['detail'] = _first_diff(got, exp)
            except NotImplementedError as ex:
                if (kind, field) not in DOCUMENTED_NOT_IMPLEMENTED:
                    rec['fail'] = 'NotImplementedError'
            except Exception as ex:
                rec['fail'] = 'raised:' + type(ex).__name__
                rec['detail'] = str(ex)[:200]
            out.append(rec)
    return out


def _source_check(root, exp, fam=None):
    """the source pfst holds after the edit must be Python with the expected structure too"""
    try:
        t = ast.parse(root.src)
    except SyntaxError as ex:
        return f'tree is as expected but the source is not valid Python: {root.src[:200]!r} ({ex.msg})'
    got = _dump(t, fam)
    if got != exp:
        return f'tree is as expected but the source parses to another structure: {root.src[:200]!r} ' + _first_diff(got, exp)
    return None


def run_arglike_field_case(arg):
    """The real fields Call.args / Call.keywords / ClassDef.bases / ClassDef.keywords of calls whose positional and keyword
    arguments are interleaved in the source.  Expected tree: a pure `ast` copy with `field[s:e] = new` (Python list).  A valid
    source always exists (all positionals, then all keywords).  The documented refusal "... try the '_args' field" is exempt."""
    kind, seed, nreq = arg
    rng = random.Random(seed)
    out = []
    for _ in range(nreq):
        old, rest = _mixed_pick(rng, rng.randint(2, 6))
        inner = _mixed_join(old) if rng.random() < 0.5 else ', '.join(old)
        src = ('f(' + inner + ')') if kind == 'Call' else ('class C(' + inner + '): pass')
        find = BV if kind == 'Call' else B0
        ef = 'args' if kind == 'Call' else 'bases'
        field = rng.choice([ef, 'keywords'])
        try:
            exp_tree = ast.parse(src)
        except SyntaxError:
            continue
        L = getattr(find(exp_tree), field)
        n = len(L)
        s = rng.randint(0, n)
        e = rng.randint(s, min(n, s + 2))
        cands = [x for x in rest if (('=' in x and not x.startswith('*')) or x.startswith('**')) == (field == 'keywords')]
        k = rng.choice([0, 1, 1, 2])
        if k > len(cands) or (k == 0 and s == e):
            continue
        new = cands[:k]
        code = ', '.join(new) if k else None
        if k:
            c = ast.parse('f(' + code + ')').body[0].value
            L[s:e] = c.args if field != 'keywords' else c.keywords
        else:
            del L[s:e]
        exp = ast.dump(exp_tree)
        a = _raw_for(rng, n, s, True)
        b = _raw_for(rng, n, e, True)
        if _py_bounds(n, a, b) != (s, e):
            continue
        for name in _arglike_ops(s, e, k):
            out.append(_arglike_exec(kind, field, src, name, a, b, s, e, n, new, exp))
    return out


_ARGLIKE_SHAPES = [['a', 'k=1', '*b', 'j=2'], ['k=1', '*s', 'j=2'], ['a', 'b', 'k=1', '*s', '*t', 'j=2', '**d'], ['a', '*s', 'k=1', '**d', 'j=2'],
                   ['k=1', 'j=2', '*s', '*t'], ['a', 'k=1', '*s', 'm=n', '*t', 'q=()']]


def run_arglike_product_case(arg):
    """deterministic: fixed interleaved argument shapes x (args|bases, keywords) x every empty / one-element range x new
    elements of each admissible kind x one-line and multi-line layout x every entry point"""
    kind, si = arg
    old = _ARGLIKE_SHAPES[si]
    out = []
    for inner in (', '.join(old), _mixed_join(old)):
        src = ('f(' + inner + ')') if kind == 'Call' else ('class C(' + inner + '): pass')
        find = BV if kind == 'Call' else B0
        ef = 'args' if kind == 'Call' else 'bases'
        for field in (ef, 'keywords'):
            n = len(getattr(find(ast.parse(src)), field))
            news = [['x'], ['*x'], ['x', '*y']] if field != 'keywords' else [['x=9'], ['**x'], ['x=9', 'y=8']]
            for s in range(n + 1):
                for e in (s, s + 1):
                    if e > n:
                        continue
                    for new in news + ([[]] if e > s else []):
                        exp_tree = ast.parse(src)
                        L = getattr(find(exp_tree), field)
                        if new:
                            c = ast.parse('f(' + ', '.join(new) + ')').body[0].value
                            L[s:e] = c.args if field != 'keywords' else c.keywords
                        else:
                            del L[s:e]
                        exp = ast.dump(exp_tree)
                        for name in _arglike_ops(s, e, len(new)):
                            out.append(_arglike_exec(kind, field, src, name, s, e, s, e, n, new, exp))
    return out


def _arglike_ops(s, e, k):
    ops = ['put_slice', 'view[a:b]=']
    if s == e:
        ops += ['insert', 'view.insert'] + (['insert(one)'] if k == 1 else [])
    if k == 0:
        ops.append('del view[a:b]')
    if k == 1 and e - s == 1:
        ops.append('put(i)')
    return ops


def _arglike_exec(kind, field, src, name, a, b, s, e, n, new, exp):
    code = ', '.join(new) if new else None
    sl = _pyslice(a, b, n)
    find = BV if kind == 'Call' else B0
    fn = {'put_slice': lambda nd: nd.put_slice(code, a, b, field),
          'view[a:b]=': lambda nd: getattr(nd, field).__setitem__(sl, code),
          'insert': lambda nd: nd.insert(code, a, field, one=False),
          'view.insert': lambda nd: getattr(nd, field).insert(code, a, one=False),
          'insert(one)': lambda nd: nd.insert(code, a, field),
          'del view[a:b]': lambda nd: getattr(nd, field).__delitem__(sl),
          'put(i)': lambda nd: nd.put(code, s, field)}[name]
    rec = {'fam': f'{kind}.{field}', 'tag': 'interleaved', 'op': name, 'sigop': 'insert-empty-slice' if s == e else name,
           'src': src, 'a': a, 'b': b, 'new': new, 'n': n, 'k': len(new), 's': s, 'e': e, 'layout': '\n' in src}
    root = None
    try:
        root = _fst(src)
        fn(find(root.a).f)
        got = ast.dump(root.a)
        if got != exp:
            rec['fail'] = 'structure'
            rec['detail'] = f'{root.src!r}: ' + _first_diff(got, exp)
        else:
            d = _source_check(root, exp)
            if d:
                rec['fail'] = 'source'
                rec['detail'] = d
    except Exception as ex:
        if type(ex).__name__ in ('NodeError', 'ValueError'):
            rec['refused'] = str(ex)[:80]       # ordering refusals ("try the '_args' field", "cannot precede ...") are legitimate
            if root.src != src or ast.dump(root.a) != ast.dump(ast.parse(src)):     # ... but must leave everything as it was
                rec['fail'] = 'refusal-changed-tree'
                rec['detail'] = f'refused ({rec["refused"]}) but source / tree are no longer the original: {root.src[:120]!r}'
        else:
            rec['fail'] = 'raised:' + type(ex).__name__
            rec['detail'] = str(ex)[:200]
    return rec


def replay_interleaved(w):
    kind, field = w['fam'].split('.')
    find = BV if kind == 'Call' else B0
    exp_tree = ast.parse(w['src'])
    L = getattr(find(exp_tree), field)
    if w['new']:
        c = ast.parse('f(' + ', '.join(w['new']) + ')').body[0].value
        L[w['s']:w['e']] = c.args if field != 'keywords' else c.keywords
    else:
        del L[w['s']:w['e']]
    return _arglike_exec(kind, field, w['src'], w['op'], w['a'], w['b'], w['s'], w['e'], w['n'], w['new'], ast.dump(exp_tree))


def replay_view_history(w):
    fam = next(f for f in FAMILIES if f.name == w['fam'] and f.tag == (w.get('tag') or ''))
    return _view_history(fam, w['old'], w['rest'], w['a'], w['b'], [tuple(h) for h in w['hist']])


def _first_diff(a, b, ctx=70):
    n = min(len(a), len(b))
    i = next((k for k in range(n) if a[k] != b[k]), n)
    return f'@{i}: got={a[max(0, i - ctx):i + ctx]!r} want={b[max(0, i - ctx):i + ctx]!r}'


# ---- corpus programs: deletions and insertions in real list fields, expected tree built on a pure `ast` copy -------------

_INSERT = {'stmt': ['zz = 1', 'pass', 'zz()'], 'expr': ['zz', 'zz.y', '(zz, 1)']}
_STMT_FIELDS = {'body', 'orelse', 'finalbody'}
_EXPR_FIELDS = {('Tuple', 'elts'), ('List', 'elts'), ('Set', 'elts'), ('Call', 'args')}


def _paths(tree):
    """[(path, node)] path = list of (field, idx|None)"""
    out = []

    def go(n, p):
        out.append((p, n))
        for f, v in ast.iter_fields(n):
            if isinstance(v, list):
                for i, c in enumerate(v):
                    if isinstance(c, ast.AST):
                        go(c, p + [(f, i)])
            elif isinstance(v, ast.AST):
                go(v, p + [(f, None)])

    go(tree, [])
    return out


def _follow(tree, path):
    n = tree
    for f, i in path:
        n = getattr(n, f)
        if i is not None:
            n = n[i]
    return n


def run_corpus_case(arg):
    src, seed, nreq = arg
    rng = random.Random(seed)
    out = []
    try:
        base = ast.parse(src)
    except Exception:
        return out
    cands = []
    for p, n in _paths(base):
        k = n.__class__.__name__
        for f in _STMT_FIELDS:
            v = getattr(n, f, None)
            if isinstance(v, list) and v and all(isinstance(x, ast.stmt) for x in v):
                cands.append((p, k, f, 'stmt'))
        if (k, 'elts') in _EXPR_FIELDS and isinstance(getattr(n, 'ctx', ast.Load()), ast.Load):
            cands.append((p, k, 'elts', 'expr'))
        if k == 'Call':
            cands.append((p, k, 'args', 'expr'))
    if not cands:
        return out
    for _ in range(nreq):
        p, kind, field, ek = rng.choice(cands)
        exp_tree = ast.parse(src)
        tgt = _follow(exp_tree, p)
        lst = getattr(tgt, field)
        n = len(lst)
        s = rng.randint(0, n)
        e = rng.randint(s, min(n, s + 2))
        k = rng.choice([0, 1, 1, 2])
        if k == 0 and s == e:
            continue
        new = [rng.choice(_INSERT[ek]) for _ in range(k)]
        if ek == 'stmt':
            if n - (e - s) + k < 1:
                continue
            code = '\n'.join(new)
            new_asts = ast.parse(code).body
        else:
            code = ', '.join(new) + (',' if k == 1 else '')
            new_asts = list(ast.parse('(' + code + ')').body[0].value.elts) if k else []
            if kind == 'Set' and n - (e - s) + k < 1:
                continue
            if kind == 'Call' and any(isinstance(x, ast.Starred) for x in lst[s:]) is False and tgt.keywords and False:
                continue
        # tuples that are subscript slices / contain Slice nodes, starred contexts etc. are left alone
        if ek == 'expr' and any(isinstance(x, (ast.Slice, ast.Starred)) for x in lst):
            continue
        if ek == 'stmt' and field == 'orelse' and kind == 'If' and False:
            continue
        lst[s:e] = new_asts
        try:
            exp = ast.dump(exp_tree)
            ast.parse(ast.unparse(exp_tree))          # the expected result must be valid Python
        except Exception:
            continue
        a = _raw_for(rng, n, s, True)
        b = _raw_for(rng, n, e, True)
        if _py_bounds(n, a, b) != (s, e):
            continue
        E = [('put_slice', lambda nd: nd.put_slice(code if k else None, a, b, field)),
             ('view[a:b]=', lambda nd: getattr(nd, field).__setitem__(_pyslice(a, b, n), code if k else None))]
        if s == e and k:
            E.append(('insert', lambda nd: nd.insert(code, a, field, one=False)))
        if k == 0:
            E.append(('del view[a:b]', lambda nd: getattr(nd, field).__delitem__(_pyslice(a, b, n))))
        for name, fn in E:
            rec = {'fam': f'{kind}.{field}', 'tag': 'corpus', 'op': name, 'src': src, 'path': p, 'a': a, 'b': b, 'new': new, 'n': n, 'k': k}
            try:
                root = _fst(src)
                fn(_follow(root.a, p).f)
                got = ast.dump(root.a)
                if got != exp:
                    rec['fail'] = 'structure'
                    rec['detail'] = _first_diff(got, exp)
            except NotImplementedError:
                rec['fail'] = 'NotImplementedError'
            except Exception as ex:
                rec['fail'] = 'raised:' + type(ex).__name__
                rec['detail'] = str(ex)[:200]
            out.append(rec)
    return out


VIEW_OPS = ([('insert', i) for i in (0, 1, -1, 'end', 9)] + [('insert1', i) for i in (0, -1, 'end')]
            + [('append',), ('prepend',), ('extend',), ('prextend',), ('replace',), ('remove',), ('cut',)]
            + [('set', a, b) for a, b in ((None, None), (1, None), (None, -1), (0, 1), (1, 1))]
            + [('setnone', a, b) for a, b in ((1, None), (0, 1), (None, -1))]
            + [('del', a, b) for a, b in ((1, None), (0, 1), (None, -1))]
            + [(nm, i) for nm in ('seti', 'setinone', 'deli') for i in (0, -1, 1)])


def _view_history(fam, old, rest, w0, w1, hist):
    """Run the operations `hist` on ONE view object (`view[w0:w1]`, or the whole-field view if w0 is None) and after every
    step compare: the whole tree with the rendering of old[:w0] + W + old[w1:] (W = a plain Python list treated with the
    same list operation), len(view), view.start/stop, and the elements the view shows."""
    src = fam.render(old)
    done = []
    rec = {'fam': fam.name, 'tag': fam.tag, 'op': 'view-sequence', 'src': src, 'a': w0, 'b': w1, 'new': done, 'layout': False,
           'old': old, 'rest': rest, 'hist': [list(h) for h in hist]}
    lo = 0 if w0 is None else w0
    hi = len(old) if w1 is None else w1
    pre, W, post = old[:lo], old[lo:hi], old[hi:]
    fresh = iter(rest * 4)
    try:
        root = _fst(src)
        node = fam.find(root.a).f
        v = getattr(node, fam.field)
        if w0 is not None:
            v = v[w0:w1]
        for op in hist:
            nm = op[0]
            W2 = W[:]
            new = []
            # ---- the Python list model of the step
            if nm in ('insert', 'extend', 'prextend', 'set', 'replace'):
                new = [next(fresh), next(fresh)][:1 + (len(done) + len(W)) % 2]
            elif nm in ('insert1', 'append', 'prepend', 'seti'):
                new = [next(fresh)]
            if nm in ('insert', 'insert1'):
                i = op[1]
                i2 = len(W) if i == 'end' else (max(0, i + len(W)) if i < 0 else min(i, len(W)))
                W2[i2:i2] = new
            elif nm == 'append':
                W2.append(new[0])
            elif nm == 'prepend':
                W2.insert(0, new[0])
            elif nm == 'extend':
                W2.extend(new)
            elif nm == 'prextend':
                W2[0:0] = new
            elif nm in ('set', 'setnone', 'del'):
                s_, e_, _ = slice(op[1], op[2]).indices(len(W))
                if s_ > e_ or (nm != 'set' and s_ == e_):
                    continue
                W2[s_:e_] = new
            elif nm in ('seti', 'setinone', 'deli'):
                if not -len(W) <= op[1] < len(W):
                    continue
                if nm == 'seti':
                    W2[op[1]] = new[0]
                else:
                    del W2[op[1]]
            elif nm == 'replace':
                W2[:] = new
            else:
                if not W:
                    continue
                W2[:] = []
            want = pre + W2 + post
            if len(want) < max(fam.minlen, 1 if nm in ('remove', 'cut') or fam.minlen else 0):
                continue
            try:
                exp_tree = ast.parse(fam.render(want))
            except SyntaxError:
                break               # the request has no valid Python result (argument order): stop this history
            # ---- the same step on the real view
            code = fam.code(new) if new else None
            done.append([nm] + list(op[1:]) + [new])
            if nm == 'insert':
                v.insert(code, op[1], one=False)
            elif nm == 'insert1':
                v.insert(fam.single(new[0]), op[1])
            elif nm == 'append':
                v.append(fam.single(new[0]))
            elif nm == 'prepend':
                v.prepend(fam.single(new[0]))
            elif nm == 'extend':
                v.extend(code)
            elif nm == 'prextend':
                v.prextend(code)
            elif nm == 'set':
                v[op[1]:op[2]] = code
            elif nm == 'setnone':
                v[op[1]:op[2]] = None
            elif nm == 'del':
                del v[op[1]:op[2]]
            elif nm == 'seti':
                v[op[1]] = fam.single(new[0])
            elif nm == 'setinone':
                v[op[1]] = None
            elif nm == 'deli':
                del v[op[1]]
            elif nm == 'replace':
                v.replace(code, one=False)
            elif nm == 'remove':
                v.remove()
            else:
                v.cut()
            W = W2
            # ---- compare
            got, exp = ast.dump(root.a), ast.dump(exp_tree)
            if got != exp:
                rec['fail'], rec['detail'] = 'structure', f'after step {len(done)} {done[-1]}: ' + _first_diff(got, exp)
                break
            d = _source_check(root, exp)
            if d:
                rec['fail'], rec['detail'] = 'source', f'after step {len(done)} {done[-1]}: ' + d
                break
            off = 1 if (fam.tag == 'docstr') else 0
            exp_win = [ast.dump(x) for x in _velems(fam, exp_tree)[len(pre):len(pre) + len(W)]]
            got_win = [_vdump(v[i]) for i in range(len(v))]
            if w0 is not None and (len(v) != len(W) or (v.start, v.stop) != (len(pre), len(pre) + len(W)) or got_win != exp_win):
                rec['fail'] = 'view-window'
                rec['detail'] = (f'after step {len(done)} {done[-1]}: view has len {len(v)} [{v.start}:{v.stop}] showing {got_win[:4]}; '
                                 f'a Python list window has len {len(W)} [{len(pre)}:{len(pre) + len(W)}] showing {exp_win[:4]}')
                break
            if w0 is None and (len(v) != len(want) or got_win != [ast.dump(x) for x in _velems(fam, exp_tree)]):
                rec['fail'] = 'view-window'
                rec['detail'] = f'after step {len(done)} {done[-1]}: whole-field view has len {len(v)}, field has {len(want)} elements'
                break
    except _Skip:
        return None
    except Exception as ex:
        rec['fail'] = 'raised:' + type(ex).__name__
        rec['detail'] = f'at step {len(done)} {done[-1] if done else None}: ' + str(ex)[:200]
    return rec if done else None


def _first_list_dumps(a):
    for _, v in ast.iter_fields(a):
        if isinstance(v, list):
            return [ast.dump(x) if isinstance(x, ast.AST) else repr(x) for x in v]
    return None


def run_view_query_case(arg):
    """Deterministic: every window of a small field x every int index (negative, out of range) through the READ and auxiliary
    forms of the view API: view[i], view.at(i), view.at(i, True) (singleton views: bounds, is_one, item), view[a:b] bounds,
    len / start / stop / start_and_stop, has_rest, copy() and cut() of windows and of singleton views (returned elements, tree
    afterwards, view bounds afterwards), replace / remove through a singleton view.  Oracle: Python list / range / slice."""
    fi, n = arg
    fam = FAMILIES[fi]
    out = []
    if fam.pick:
        old, rest = fam.pick(random.Random(11), n)
        n = len(old)
    else:
        old, rest = fam.pool[:n], fam.pool[n:]
    src = fam.render(old)
    try:
        base_tree = ast.parse(src)
    except SyntaxError:
        return out
    simple = fam.field in ('elts', 'body', '_body', '_args', '_bases', 'targets') or fam.kind in ('Global', 'Nonlocal')
    names = fam.kind in ('Global', 'Nonlocal')
    multinode = fam.field in ('_all', '_attrs') and fam.kind != 'Compare'
    elems = None
    if simple and not names:
        elems = [ast.dump(x) for x in _velems(fam, base_tree)]
    elif names:
        elems = list(old)
    has_rest_elem = fam.tag == 'rest'

    def rec_(op, w0, w1, extra):
        return {'fam': fam.name, 'tag': fam.tag, 'op': op, 'sigop': op.split('(')[0], 'src': src, 'a': w0, 'b': w1, 'new': extra, 'layout': False,
                'query_args': [fi, n]}

    def fresh(w0, w1):
        root = _fst(src)
        node = fam.find(root.a).f
        v = getattr(node, fam.field)
        if w0 is not None:
            v = v[w0:w1]
        return root, node, v

    def show(x):
        if isinstance(x, str) or x is None:
            return x
        if getattr(x, 'is_FST', False):
            return ast.dump(x.a)
        return ('view', x.start, x.stop)

    wins = [(None, None)] + [(a, b) for a in range(n + 1) for b in range(a, n + 1)]
    for w0, w1 in wins:
        lo, hi = (0, n) if w0 is None else (w0, w1)
        m = hi - lo
        # ---- bounds
        r = rec_('view bounds', w0, w1, None)
        try:
            root, node, v = fresh(w0, w1)
            got = (len(v), v.start, v.stop, tuple(v.start_and_stop))
            if got != (m, lo, hi, (lo, hi)):
                r['fail'], r['detail'] = 'view-window', f'len/start/stop/start_and_stop = {got}, a Python list window has {(m, lo, hi, (lo, hi))}'
            if has_rest_elem and m > 0 and v.has_rest != (hi == n):
                r['fail'], r['detail'] = 'has_rest', f'has_rest = {v.has_rest} for window [{lo}:{hi}] of {n} items, the last one being **rest'
        except Exception as ex:
            r['fail'], r['detail'] = 'raised:' + type(ex).__name__, str(ex)[:200]
        out.append(r)
        # ---- single int index forms
        for i in range(-m - 2, m + 2):
            ok = -m <= i < m
            j = lo + (i + m if i < 0 else i)
            for form in ('[i]', 'at(i)', 'at(i, True)'):
                r = rec_(f'view{form}', w0, w1, [i])
                try:
                    root, node, v = fresh(w0, w1)
                    x = v[i] if form == '[i]' else v.at(i) if form == 'at(i)' else v.at(i, True)
                    if not ok:
                        r['fail'], r['detail'] = 'no-IndexError', f'index {i} on a window of {m} items returned {show(x)!r}'
                    else:
                        sx = show(x)
                        if form == 'at(i, True)' or (multinode or (names and form != '[i]')):
                            want = ('view', j, j + 1)
                            if sx != want or not x.is_one:
                                r['fail'], r['detail'] = 'wrong-element', f'singleton view {sx} is_one={getattr(x, "is_one", None)}, expected {want}'
                        elif elems is not None and sx != elems[j]:
                            r['fail'], r['detail'] = 'wrong-element', f'returned {str(sx)[:100]} instead of element {j}: {elems[j][:100]}'
                except IndexError as ex:
                    if ok:
                        r['fail'], r['detail'] = 'raised:IndexError', str(ex)[:100]
                except Exception as ex:
                    r['fail'], r['detail'] = 'raised:' + type(ex).__name__, str(ex)[:200]
                out.append(r)
            # edits through a singleton view
            if ok and fam.single is not None and rest:
                for op in ('one.replace', 'one.remove', 'one.cut', 'one.copy'):
                    if op in ('one.remove', 'one.cut') and n - 1 < max(fam.minlen, 1 if fam.minlen else 0):
                        continue
                    r = rec_(op, w0, w1, [i])
                    want = old[:j] + ([rest[0]] if op == 'one.replace' else []) + old[j + 1:] if op != 'one.copy' else old
                    try:
                        exp = _dump(ast.parse(fam.render(want)), fam)
                    except SyntaxError:
                        continue
                    try:
                        root, node, v = fresh(w0, w1)
                        one = v.at(i, True)
                        ret = (one.replace(fam.single(rest[0])) if op == 'one.replace' else one.remove() if op == 'one.remove'
                               else one.cut() if op == 'one.cut' else one.copy())
                        got = _dump(root.a, fam)
                        if got != exp:
                            r['fail'], r['detail'] = 'structure', _first_diff(got, exp)
                        elif op in ('one.cut', 'one.copy') and elems is not None and not names and getattr(ret, 'is_FST', False):
                            if ast.dump(ret.a) != elems[j] and (_first_list_dumps(ret.a) or [None]) != [elems[j]]:
                                r['fail'], r['detail'] = 'wrong-element', f'{op} returned {ast.dump(ret.a)[:120]} instead of {elems[j][:120]}'
                    except Exception as ex:
                        if type(ex).__name__ in ('NodeError', 'ValueError') and fam.tag == 'mixed':
                            continue
                        r['fail'], r['detail'] = 'raised:' + type(ex).__name__, str(ex)[:200]
                    out.append(r)
        # ---- sub-slices
        for a in (None, 0, 1, -1, m, m + 2, -m - 1):
            for b in (None, 0, 1, -1, m, m + 2):
                s_, e_, _ = slice(a, b).indices(m)
                r = rec_('view[a:b] bounds', w0, w1, [a, b])
                try:
                    root, node, v = fresh(w0, w1)
                    sub = v[a:b]
                    if s_ > e_:
                        r['fail'], r['detail'] = 'no-IndexError', f'[{a}:{b}] on {m} items has start > stop but gave {show(sub)}'
                    elif (sub.start, sub.stop, len(sub)) != (lo + s_, lo + e_, e_ - s_):
                        r['fail'], r['detail'] = 'view-window', f'view[{a}:{b}] = [{sub.start}:{sub.stop}] len {len(sub)}, Python: [{lo + s_}:{lo + e_}]'
                except IndexError:
                    if s_ <= e_:
                        r['fail'], r['detail'] = 'raised:IndexError', f'[{a}:{b}] on {m} items'
                except Exception as ex:
                    r['fail'], r['detail'] = 'raised:' + type(ex).__name__, str(ex)[:200]
                out.append(r)
        # ---- copy / cut of the window
        if m and elems is not None and not names:
            for op in ('copy', 'cut'):
                if op == 'cut' and n - m < max(fam.minlen, 1 if fam.minlen else 0):
                    continue
                want = old if op == 'copy' else old[:lo] + old[hi:]
                try:
                    exp = _dump(ast.parse(fam.render(want)), fam)
                except SyntaxError:
                    continue
                r = rec_(f'view.{op}', w0, w1, None)
                try:
                    root, node, v = fresh(w0, w1)
                    ret = v.copy() if op == 'copy' else v.cut()
                    got = _dump(root.a, fam)
                    rd = _first_list_dumps(ret.a)
                    if got != exp:
                        r['fail'], r['detail'] = 'structure', _first_diff(got, exp)
                    elif rd != elems[lo:hi]:
                        r['fail'], r['detail'] = 'wrong-element', f'{op} returned {str(rd)[:160]} instead of elements [{lo}:{hi}]'
                    elif op == 'cut' and (len(v), v.start) != (0 if w0 is not None else n - m, lo):
                        r['fail'], r['detail'] = 'view-window', f'after cut the view is [{v.start}:{v.stop}]'
                except Exception as ex:
                    if type(ex).__name__ in ('NodeError', 'ValueError') and fam.tag == 'mixed':
                        continue
                    r['fail'], r['detail'] = 'raised:' + type(ex).__name__, str(ex)[:200]
                out.append(r)
    return out


def view_query_items(full):
    keys = [('List.elts', ''), ('Module.body', ''), ('FunctionDef._body', 'docstr'), ('Dict._all', ''), ('Global.names', ''),
            ('arguments._all', 'plain'), ('MatchMapping._all', 'rest'), ('Call._args', 'mixed'), ('Tuple.elts', ''),
            ('MatchClass._attrs', 'pos'), ('Compare._all', '')]
    items = []
    for i, f in enumerate(FAMILIES):
        if (f.name, f.tag) in keys:
            for n in ((3, 4) if full else (3,)):
                if n <= len(f.pool) - 1:
                    items.append((i, n))
    return items


def _velems(fam, tree):
    """elements of the (possibly virtual) field on a CPython tree, in source order, computed without pfst"""
    node = fam.find(tree)
    if fam.field == '_body':
        return node.body[1:] if fam.tag == 'docstr' else node.body
    if fam.field in ('_args', '_bases'):
        return sorted(getattr(node, fam.field[1:]) + node.keywords, key=lambda n: (n.lineno, n.col_offset))
    return getattr(node, fam.field)


def _vdump(x):
    if isinstance(x, str) or not hasattr(x, 'a') or x.a is None:
        raise _Skip()
    return ast.dump(x.a)


def run_view_seq_case(arg):
    """(family index, seed, n) : random histories of 2-4 operations on bounded and whole-field views"""
    fi, seed, nreq = arg
    rng = random.Random(seed)
    fam = FAMILIES[fi]
    out = []
    for _ in range(nreq):
        n = rng.randint(max(fam.minlen, 2), min(fam.maxlen, len(fam.pool) - 3))
        pool = fam.pool[:]
        rng.shuffle(pool)
        old, rest = fam.pick(rng, n) if fam.pick else (pool[:n], pool[n:])
        if rng.random() < 0.2:
            w0 = w1 = None
        else:
            w0 = rng.randint(0, n)
            w1 = rng.randint(w0, n)
        r = _view_history(fam, old, rest, w0, w1, [rng.choice(VIEW_OPS) for _ in range(rng.randint(2, 4))])
        if r:
            out.append(r)
    return out


def run_view_product_case(arg):
    """deterministic: (family index, n, window, first op index) x every second op"""
    fi, n, w0, w1, i1 = arg
    fam = FAMILIES[fi]
    old, rest = fam.pool[:n], fam.pool[n:]
    out = []
    for o2 in VIEW_OPS:
        r = _view_history(fam, old, rest, w0, w1, [VIEW_OPS[i1], o2])
        if r:
            out.append(r)
    return out


def view_product_items(full):
    items = []
    fis = [i for i, f in enumerate(FAMILIES) if (f.name, f.tag) == ('List.elts', '')]
    if full:
        fis += [i for i, f in enumerate(FAMILIES) if (f.name, f.tag) in (('Module.body', ''), ('Call._args', 'pos'))]
    for fi in fis:
        n = min(5, len(FAMILIES[fi].pool) - 3)
        wins = [(1, 4), (0, 3), (2, n), (1, 2), (2, 2), (0, 0), (0, 1), (None, None)] if not full else \
            [(None, None)] + [(a, b) for a in range(n + 1) for b in range(a, n + 1)]
        for w0, w1 in wins:
            for i1 in range(len(VIEW_OPS)):
                items.append((fi, n, w0, w1, i1))
    return items


FAMILIES = families()
VIEW_SEQ_FAMILIES = [i for i, f in enumerate(FAMILIES) if (f.name, f.tag) in (
    ('List.elts', ''), ('Module.body', ''), ('Tuple.elts', ''), ('FunctionDef.body', ''), ('Delete.targets', ''),
    ('Call._args', 'pos'), ('Call._args', 'mixed'), ('ClassDef._bases', 'mixed'), ('FunctionDef._body', 'docstr'), ('Set.elts', ''))]
for _f in FAMILIES:
    if _f.kind == 'Compare':
        _f.render = _render_compare
