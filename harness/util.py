"""Helpers shared by the per-property harness modules (serialisation, oracles independent of pfst)."""

from __future__ import annotations

import ast
import io
import tokenize


def fst_mod():
    import fst
    return fst


def soc(a):
    from fst.astutil import syntax_ordered_children
    return [c for c in syntax_ordered_children(a) if c is not None]


def ser_tree(a, ids=None):
    """[id, pos|None, decoLine|None, kids] with preorder ids; `ids` maps id(ast) -> id."""
    counter = [0]
    if ids is None:
        ids = {}

    def go(n):
        i = counter[0]
        counter[0] += 1
        ids[id(n)] = i
        if getattr(n, 'end_col_offset', None) is not None:
            pos = [n.lineno, n.col_offset, n.end_lineno, n.end_col_offset]
        else:
            pos = None
        decos = getattr(n, 'decorator_list', None)
        deco = decos[0].lineno if decos else None
        return [i, pos, deco, [go(c) for c in soc(n)]]

    return go(a), ids


def positions(a):
    """preorder [[id, pos|None], ...] in the same numbering as ser_tree"""
    out = []

    def go(n):
        i = len(out)
        if getattr(n, 'end_col_offset', None) is not None:
            out.append([i, [n.lineno, n.col_offset, n.end_lineno, n.end_col_offset]])
        else:
            out.append([i, None])
        for c in soc(n):
            go(c)

    go(a)
    return out


def dump_pos(a):
    return ast.dump(a, include_attributes=True)


def dump(a):
    return ast.dump(a)


def first_diff(a: str, b: str, ctx=60):
    n = min(len(a), len(b))
    i = next((k for k in range(n) if a[k] != b[k]), n)
    return f'@{i}: live={a[max(0, i - ctx):i + ctx]!r} parsed={b[max(0, i - ctx):i + ctx]!r}'


def tree_equals_parse(root, mode='exec'):
    """C01-style oracle: source parsed from scratch by CPython equals the live tree (types, fields, ctx, positions).
    Returns None if equal, else a description."""
    src = root.src
    try:
        ref = ast.parse(src) if mode == 'exec' else ast.parse(src, mode=mode)
    except SyntaxError as e:
        return f'source no longer parses: {e}'
    live = root.a
    if not isinstance(live, ast.Module):
        return None
    d1 = dump_pos(live)
    d2 = dump_pos(ref)
    if d1 == d2:
        return None
    s1, s2 = dump(live), dump(ref)
    if s1 != s2:
        return 'structure differs ' + first_diff(s1, s2)
    return 'positions differ ' + first_diff(d1, d2)


def tokens(src):
    return list(tokenize.generate_tokens(io.StringIO(src).readline))


def byte_len(s: str) -> int:
    return len(s.encode())


def all_nodes_with_loc(root):
    """[(fst_node, loc)] for every node with a location, preorder"""
    out = []
    for f in root.walk(True):
        loc = f.loc
        if loc is not None:
            out.append((f, loc))
    return out
