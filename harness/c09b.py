"""C09b — the decision logic pfst runs when it puts an expression: `_is_atom`, `_is_enclosed_in_parents`,
`_is_enclosed_or_line` (fst_core.py) and `need_pars` / the `pars` option logic of `_make_exprlike_fst` (fst_put_one.py).

`extract_c09b(ctx)` writes `lean/Pfst/Gen/Enclose.lean`: the kind sets and the (parent kind, field) enclosure table these
functions test, obtained EXTENSIONALLY — module-level sets are read, inline `isinstance` tuples are recovered by evaluating
the real function on a mock node of every kind (no decision logic lives here).

`correspondence_c09b(ctx)` (a) evaluates the Lean model and the real functions on the whole mock domain, (b) on every node
of corpus programs, (c) wraps `_make_exprlike_fst` at run time over the slot x child x layout x form space of C09 and
compares the model's predicted action and final parenthesisation with what pfst really did.
"""
import ast
import copy
import random

from framework import LEAN, pmap, write_if_changed

THEOREMS = ['Pfst.C09b.' + t for t in (
    'need_pars_covers_table', 'need_pars_covers_table_starred', 'atom_never_table', 'atom_skip_sound', 'atom_table_free',
    'atom_prec_free', 'atom_int_only_attribute_value', 'needed_kept', 'needed_kept_core', 'needed_enclosed',
    'needed_enclosed_core', 'action_total', 'enclosedOrLine_sound', 'enclosedOrLine_sound_str',
    'eol_always_sound', 'line_branch_needs', 'multiline_put_enclosed', 'starred_value_pars_kept', 'enc_table_sound', 'encWalk_true', 'encStep_true')]
TRUSTED = [
    'modelled (Pfst/NeedPars.lean, kind sets / enclosure table regenerated into Pfst/Gen/Enclose.lean): FST._is_atom, '
    'FST._is_enclosed_in_parents, FST._is_enclosed_or_line (whole=False; out_lns variant included), need_pars(adding) and the '
    '`pars` option logic of _make_exprlike_fst (source has pars / target has pars / auto vs True / del_tgt_pars / AnnAssign '
    'target / delimit tuple / deferred)',
    'inputs of that model taken from the real accessors, not modelled: FST.loc, FST.pars() (location and count), '
    'is_parenthesized_tuple(), is_delimited_matchseq(), is_parenthesizable(), _loc_Call_pars/_loc_Subscript_brackets/'
    '_loc_MatchClass_pars/_loc_ImportFrom_names_pars/_loc_With_items_pars, syntax_ordered_children, '
    '_multiline_str_continuation_lns (CPython tokenize); the serialiser harness/c09b.py ser_info/ser_node',
    'not modelled: _is_enclosed_or_line(whole=True); _parenthesize_grouping/_unparenthesize_grouping/_delimit_node themselves '
    '(only that they are called); what put_one does after _make_exprlike_fst (deferred parenthesisation, re-parenthesising a '
    'Tuple put as a with-item); the final-source comparison skips Starred put nodes and Tuple-as-with-item for that reason',
    'with out_lns=None the real _is_enclosed_or_line returns at the first failure; the model always collects (same answer; '
    'compared per node for both call forms)',
]
RULE = (' (iv) put-time decision logic: the Lean model of _is_atom / _is_enclosed_in_parents vs the real functions on the whole '
        'mock domain (every node kind x flags; every (parent kind, field) x delimiters x parentheses); model vs real '
        '_is_atom / _is_enclosed_in_parents / _is_enclosed_or_line (both check_pars, with and without out_lns) on every node of '
        'corpus programs plus hand-written layouts (comments ending in a backslash, continuation lines, multi-line and implicitly '
        'concatenated strings, bare and parenthesised multi-line expressions); _make_exprlike_fst wrapped at run time during real '
        'replace() over slot x child x layout x form x pars option {auto, True, False} x target bare/parenthesised: predicted '
        'source action (none/unpar/group/delimit/deferred), del_tgt_pars and final parentheses vs what pfst did, result judged by '
        'ast.parse. distinct = distinct (node kind, answers) resp. (slot, child, layout, form, option, target form)')
LEVEL_NOTE = ('The put-time decision logic (atom test, enclosure by parents, enclosed-or-one-logical-line, need_pars and the '
              'pars option logic) is modelled function by function, compared with the real functions on their whole mock '
              'domain, on every node of corpus programs and, instrumented at run time, on every real replace of the slot x '
              'child x layout x form x pars-option space; theorems: the decision covers the table for non-atoms, the table '
              'never wants parentheses around atoms, needed parentheses are kept / added, the line-structure answer is sound '
              'for every node kind, string literals included since /repo 48b6578 (finding C09-F1, fixed); a put that spans lines '
              'where nothing encloses it is parenthesised for every kind of source, patterns (MatchValue no longer counted as '
              'always enclosed, C09-F2) and Starred values (C09-F3) included.')

# ---------------------------------------------------------------------------------------------------------------------
# extraction


def _inst(c):
    try:
        return c()
    except Exception:
        return c.__new__(c)         # stand-in / special classes whose __init__ refuses or needs arguments


def _kinds():
    from fst.astutil import AST_FIELDS
    import extract_prec
    _, rows = extract_prec.table()
    names = {c.__name__: c for c in AST_FIELDS}
    allk = sorted(set(names) | {p for p, _, _ in rows})
    return names, allk


def _mock(c, *, n=0, ptup=None, dms=None, value='s', **kw):
    from fst.common import nspace
    a = _inst(c)
    if c is ast.Constant:
        a.value = value
    if c is ast.withitem:
        a.optional_vars = None
    return nspace(a=a, is_parenthesized_tuple=lambda: ptup, is_delimited_matchseq=lambda: dms,
                  pars=lambda **k: nspace(n=n), **kw)


def _canon(r):
    if r is True:
        return 'yes'
    if r is False:
        return 'no'
    if r in ('pars', 'unenclosable'):
        return 'unencl' if r == 'unenclosable' else 'pars'
    return bool(r) and 'yes' or 'no'


def real_atom(m, pars, ae):
    from fst import fst_core
    try:
        return _canon(fst_core._is_atom(m, pars=pars, always_enclosed=ae))
    except AssertionError:
        return 'assert'
    except Exception as e:
        return 'exc:' + type(e).__name__


def atom_sets():
    from fst import asttypes
    names, _ = _kinds()
    one = {c.__name__ for c in asttypes.ASTS_LEAF_CMPOP_ONE_WORD}
    two = {c.__name__ for c in asttypes.ASTS_LEAF_CMPOP_TWO_WORD}
    eop = {c.__name__ for c in asttypes.ASTS_LEAF_EXPR_OR_PATTERN}
    innate, unencl, cantpar = [], [], []
    for n, c in sorted(names.items()):
        if real_atom(_mock(c), False, True) == 'yes' and n not in one:
            innate.append(n)
        if n != 'Constant' and real_atom(_mock(c), False, False) == 'unencl':
            unencl.append(n)
        if n not in two and real_atom(_mock(c, n=1), True, True) == 'no':
            cantpar.append(n)
    return {'atomInnate': innate, 'cmpopOneWord': sorted(one), 'cmpopTwoWord': sorted(two), 'exprOrPattern': sorted(eop),
            'atomUnencl': unencl,
            'atomCantPar': cantpar}


def _enc_mock_chain(pk, f, *, grand=False, n=0, ptup=None, dms=None, imp=0, wth=0):
    """a Name child at field `f` of a mock parent of kind `pk` (optionally below a List grandparent)"""
    from fst.common import nspace, astfield
    g = None
    if grand:
        g = nspace(a=ast.List(), parent=None, pfield=None, is_parenthesized_tuple=lambda: None,
                   is_delimited_matchseq=lambda: None, pars=lambda **k: nspace(n=0))
    p = nspace(a=_inst(pk), parent=g, pfield=astfield('elts', 0) if grand else None,
               is_parenthesized_tuple=lambda: ptup, is_delimited_matchseq=lambda: dms, pars=lambda **k: nspace(n=n),
               _loc_ImportFrom_names_pars=lambda: nspace(n=imp), _loc_With_items_pars=lambda: nspace(n=wth))
    return nspace(a=ast.Name(), parent=p, pfield=astfield(f))


def real_enc(m, field=None):
    from fst import fst_core
    try:
        return bool(fst_core._is_enclosed_in_parents(m, field))
    except Exception as e:
        return 'exc:' + type(e).__name__


def enc_table():
    """(parent kind, field) -> 1 encloses / 2 stops (False) / 3 ImportFrom names pars / 4 With items pars / 0 go on up"""
    from fst.astutil import AST_FIELDS
    out = []
    for c in sorted(AST_FIELDS, key=lambda c: c.__name__):
        for f in AST_FIELDS[c]:
            a = real_enc(_enc_mock_chain(c, f))
            b = real_enc(_enc_mock_chain(c, f, grand=True))
            if a is True:
                code = 1
            elif real_enc(_enc_mock_chain(c, f, imp=1)) is True:
                code = 3
            elif real_enc(_enc_mock_chain(c, f, wth=1)) is True:
                code = 4
            elif b is False:
                code = 2
            elif b is True:
                code = 0
            else:
                raise RuntimeError(f'_is_enclosed_in_parents probe {c.__name__}.{f}: {a} {b}')
            out.append((c.__name__, f, code))
    return out


def _eol_mock(c):
    from fst.common import nspace, fstloc
    m = _mock(c, n=0, ptup=False if c is ast.Tuple else None, dms='' if c is ast.MatchSequence else None)
    m.root = nspace(_lines=['x', 'y'])
    m.loc = fstloc(0, 0, 1, 1)
    m.is_root = False
    return m


def eol_sets():
    from fst import fst_core, asttypes
    names, _ = _kinds()
    always, block = [], []
    for n, c in sorted(names.items()):
        try:
            r = fst_core._is_enclosed_or_line(_eol_mock(c), check_pars=False)
        except NotImplementedError:
            block.append(n)
            continue
        except Exception:
            continue
        if r is True:
            always.append(n)
    return {'eolAlways': always, 'eolBlock': block, 'withKinds': sorted(c.__name__ for c in asttypes.ASTS_LEAF_WITH),
            'exprContext': sorted(c.__name__ for c in asttypes.ASTS_LEAF_EXPR_CONTEXT),
            'exprKinds': sorted(c.__name__ for c in asttypes.ASTS_LEAF_EXPR)}


def extract_c09b(ctx=None):
    names, allk = _kinds()
    from fst.astutil import AST_FIELDS
    import extract_prec
    _, rows = extract_prec.table()
    fields = sorted({f for fs in AST_FIELDS.values() for f in fs} | {f for _, f, _ in rows})
    q = lambda n: f'.«{n}»'
    sets = {}
    sets.update(atom_sets())
    sets.update(eol_sets())
    enc = enc_table()
    out = ['-- GENERATED on every run by harness/c09b.py (extract_c09b) from /repo: kind sets tested by FST._is_atom,',
           '-- FST._is_enclosed_or_line, FST._is_enclosed_in_parents (module-level sets read; inline isinstance tuples recovered by',
           '-- evaluating the real function on a mock node of every kind).  The committed copy corresponds to the pinned tree.',
           'import Pfst.Gen.Precedence', 'namespace Pfst.Gen.Enclose', 'open Pfst.Gen.Precedence', '']
    for name in ['atomInnate', 'cmpopOneWord', 'cmpopTwoWord', 'exprOrPattern', 'atomUnencl', 'atomCantPar', 'eolAlways', 'eolBlock',
                 'withKinds', 'exprContext', 'exprKinds']:
        out.append(f'def {name} : List K := [' + ', '.join(q(k) for k in sets[name] if k in allk) + ']')
    out += ['', '/-- `_is_enclosed_in_parents`: (parent kind, field of the child) ↦ 1 encloses, 2 stops with False, 3 ImportFrom names',
            'parentheses decide, 4 With items parentheses decide, 0 look at tuple / match-sequence delimiters and grouping',
            'parentheses of the parent, then go on up -/',
            'def encTable : List (K × F × Nat) := [']
    out.append(',\n'.join(f'  ({q(p)}, {q(f)}, {c})' for p, f, c in enc))
    out += [']', '', 'def kindOfName (s : String) : Option K :=', '  match s with']
    out += [f'  | "{k}" => some {q(k)}' for k in allk]
    out += ['  | _ => none', '', 'def fieldOfName (s : String) : Option F :=', '  match s with']
    out += [f'  | "{f}" => some {q(f)}' for f in fields]
    out += ['  | _ => none', '', 'end Pfst.Gen.Enclose', '']
    write_if_changed(LEAN / 'Pfst' / 'Gen' / 'Enclose.lean', '\n'.join(out))
    return sets, enc


# ---------------------------------------------------------------------------------------------------------------------
# serialisation of real pfst nodes (reads attributes / calls accessors; takes no decision)

def ser_info(f):
    from fst import fst_core
    a = f.a
    cls = a.__class__
    d = {'k': cls.__name__}
    pf = getattr(f, 'pfield', None)
    if pf:
        d['f'] = pf.name
    loc = f.loc
    if loc:
        d['loc'] = list(loc[:4])
    p = f.pars()
    if p:
        d['pars'] = list(p[:4])
        n = getattr(p, 'n', 0)
        if n:
            d['n'] = n
    pt = f.is_parenthesized_tuple()
    if pt is not None:
        d['ptup'] = bool(pt)
    dm = f.is_delimited_matchseq()
    if dm is not None:
        d['dms'] = bool(dm)
    if cls is ast.Constant:
        d['cstr'] = isinstance(a.value, (str, bytes))
        d['cint'] = isinstance(a.value, int)
    if cls in (ast.BoolOp, ast.BinOp, ast.UnaryOp):
        d['op'] = a.op.__class__.__name__
    sp = None
    name = cls.__name__
    if loc:
        if name == 'Call':
            sp = f._loc_Call_pars()
        elif name == 'Subscript':
            sp = f._loc_Subscript_brackets()
        elif name == 'MatchClass':
            sp = f._loc_MatchClass_pars()
        elif name == 'ImportFrom':
            sp = f._loc_ImportFrom_names_pars()
        elif name in ('With', 'AsyncWith'):
            sp = f._loc_With_items_pars()
    if sp is not None:
        b = getattr(sp, 'bound', None)
        d['sp'] = list(sp[:4]) + [max(0, getattr(sp, 'n', 0) or 0), b.end_ln if b is not None else 0]
    if loc and loc.end_ln > loc.ln and (name in ('JoinedStr', 'TemplateStr') or (name == 'Constant' and d['cstr'])):
        try:
            d['sl'] = sorted(set(fst_core._multiline_str_continuation_lns(f.root._lines, *loc[:4])))
        except Exception as e:      # a literal part of an f-string is not a token sequence on its own: tokenize refuses
            d['_slexc'] = type(e).__name__
    if name == 'withitem':
        d['wv'] = bool(a.optional_vars)
    if name == 'MatchAs':
        d['man'] = a.pattern is None
    return d


def ser_node(f):
    from fst.astutil import syntax_ordered_children
    d = ser_info(f)
    kids = [ser_node(c.f) for c in syntax_ordered_children(f.a) if c]
    if kids:
        d['kids'] = kids
    return d


def ser_ups(f):
    """ancestors of `f` as [pfield name, parent info], innermost first"""
    ups = []
    while f.parent:
        ups.append([f.pfield.name, ser_info(f.parent)])
        f = f.parent
    return ups


def preorder(f):
    from fst.astutil import syntax_ordered_children
    out = [f]
    for c in syntax_ordered_children(f.a):
        if c:
            out.extend(preorder(c.f))
    return out


def _eol_real(f, **kw):
    try:
        r = f._is_enclosed_or_line(**kw)
    except NotImplementedError:
        return 'notimpl'
    except Exception as e:
        return 'exc:' + type(e).__name__
    return 'yes' if r is True else 'pars' if r == 'pars' else 'no' if r is False else repr(r)


def real_tree(root):
    out = []
    for f in preorder(root):
        a = [real_atom(f, False, False), real_atom(f, False, True), real_atom(f, True, False), real_atom(f, True, True)]
        try:
            e = bool(f._is_enclosed_in_parents())
        except Exception as ex:
            e = 'exc:' + type(ex).__name__
        o, ot = set(), set()
        lf = _eol_real(f, check_pars=False, out_lns=o)
        lt = _eol_real(f, check_pars=True, out_lns=ot)
        lf2 = _eol_real(f, check_pars=False)
        lt2 = _eol_real(f, check_pars=True)
        d = {'a': a, 'e': e, 'lt': lt, 'lf': lf, 'o': sorted(o), 'ot': sorted(ot)}
        if lf2 != lf or lt2 != lt:
            d['out_lns_changes_answer'] = [lf2, lt2]
        out.append(d)
    return out


# layouts the generated corpus does not produce: comments ending in a backslash, continuation lines, multi-line and
# implicitly concatenated strings, parenthesised and bare multi-line expressions, multi-line calls / subscripts / withs
EXTRA_SNIPPETS = [
    'x = (a +  # note C:\\\n     b)\n',
    'x = a + \\\n    b\n',
    'x = a + \\\n    b + \\\n  c\n',
    'x = [a +\n     b, c]\n',
    'x = f(a,  # c \\\n      b)\n',
    'x = f(a,\n      b).attr \\\n   .other\n',
    'x = (f(a,\n       b)  # trailing \\\n     .attr)\n',
    'x = a[b,\n      c] \\\n    [d]\n',
    'x = ("s"  # c \\\n     "t")\n',
    'x = ("s" \\\n     "t")\n',
    'x = "s" \\\n    "t"\n',
    'x = "#" "s" \\\n    "t"\n',
    'y["#"] = "s" \\\n    "t" \\\n  "#" \\\n "u"\n',
    'x = f"{a}" \\\n    f"#{b}" \\\n  "c"\n',
    'x = """a\nb\nc"""\n',
    'x = """a\nb""" \\\n    "c"\n',
    'x = ("""a\nb"""\n     "c")\n',
    'x = f"""a{b}\nc{d +\n e}"""\n',
    'x = (f"a{b}"  # c\\\n     f"c")\n',
    'x = "a\\\nb"\n',
    'x = (a if b  # why \\\n     else c)\n',
    'x = (a if b \\\n     else c)\n',
    'x = (lambda u,\n     v: u)\n',
    'x = (a,\n     b)\n',
    'x = a, \\\n    b\n',
    'x = (a, (b,\n   c), d)\n',
    'for i in a, \\\n     b:\n    pass\n',
    'with (a as b,\n      c):\n    pass\n',
    'with a as b, \\\n     c:\n    pass\n',
    'with (a), \\\n     c:\n    pass\n',
    'with (a\n      ):\n    pass\n',
    'with f(a,\n       b) as c:\n    pass\n',
    'from m import (a,\n               b)\n',
    'from m import a, \\\n              b\n',
    'import a, \\\n    b\n',
    'assert a, \\\n    b\n',
    'assert (a\n   ), b\n',
    'del a, \\\n    b\n',
    'x = (a\n   is \\\n not b)\n',
    'x = (a\n   is not\n b)\n',
    'x = (a not  # c \\\n   in b)\n',
    'x = (not\n   a)\n',
    'x = (-\n   a)\n',
    'x = a \\\n  if b else \\\n  c\n',
    'x = {a:\n  b, **c}\n',
    'x = {a\n for a in b}\n',
    'x = (a\n for a in b)\n',
    'x = f(a\n for a in b)\n',
    'x = (a :=\n   b)\n',
    'x = (a.b\n   .c)\n',
    'x = (a  # c \\\n   .c)\n',
    'x = (a \\\n   .c)\n',
    'x = (a)(b,\n   c)\n',
    'x = (a\n  )(b)\n',
    'x = f(a,\n   b)(c,\n d)\n',
    'x = a[b,\n c](d) \\\n  (e)\n',
    'x = (a\n )[b]\n',
    'x = f(a,\n b)[c]\n',
    'x = {a:\n b}[c] \\\n  .d\n',
    'match a:\n    case b.\\\n  C(d,\n e):\n        pass\n',
    'x = a[b:\n   c]\n',
    'x = (*a,\n   b)\n',
    'x = *(a +\n   b), c\n',
    '*(a.\n  b), c = d\n',
    'x = [*(a or\n   b), *c(d,\n e)]\n',
    'for i in *(a +\n   b), c:\n    pass\n',
    'match a:\n    case (-\n  2) | (b.\n c) | ("s"\n "t"):\n        pass\n    case (1 +\n  2j):\n        pass\n    case -2 | b.c | "s" "t":\n        pass\n',
    'match a:\n    case [-\n  2, b.\n c]:\n        pass\n    case {"k": -\n  2}:\n        pass\n    case C(x=b. \\\n c):\n        pass\n',
    'match a:\n    case (\"\"\"s\nt\"\"\" |\n  2):\n        pass\n    case b. \\\n c:\n        pass\n',
    'x = [*a +\n   b]\n',
    'match a:\n    case [b,\n          c]:\n        pass\n    case (b,\n          c):\n        pass\n    case b, \\\n         c:\n        pass\n',
    'match a:\n    case C(b,\n           c=d) | {1: e,\n           **r} | (f as  # c \\\n    g):\n        pass\n',
    'match a:\n    case (b |  # c\\\n          c) as d:\n        pass\n',
    'def f(a=(b +\n         c), *d, e: (g\n  ) = 1) -> (h\n  ): pass\n',
    'class C(a,\n        b=c): pass\n',
    'x: (a\n   ) = (b  # x\\\n   )\n',
    'raise a \\\n   from b\n',
    'x = a < \\\n  b <= (c\n )\n',
    'x = a and \\\n  b or (c\n and d)\n',
    'global a, \\\n   b\n',
    'def g():\n    x = (yield a,\n   b)\n    y = yield a, \\\n  b\n',
    'type T[U: (int,\n   str)] = (list[U]\n )\n',
    'x = a[(b,\n   c)]\n',
    'x = a[b,  # c\\\n   c]\n',
    'x = f(**a,\n   b=c)\n',
    'x = (1).real\n',
    'x = [i for i in a  # c \\\n   if i]\n',
    'x = (lambda a=(b\n  ): a)\n',
    'try:\n    pass\nexcept (A,\n   B) as e:\n    pass\n',
    '@a(b,\n  c)\ndef f(): pass\n',
    'async def f():\n    async with a as b, \\\n   c:\n        pass\n    x = (await\n   a)\n',
]


def _slexc_list(root):
    out = []
    for f in preorder(root):
        d = ser_info(f)
        out.append(d.get('_slexc'))
    return out


def _sl_outside(d):
    """hypothesis of `enclosedOrLine_sound_str`: tokenize's continuation lines lie in (ln, end_ln]"""
    bad = []
    if 'sl' in d and 'loc' in d and any(not (d['loc'][0] < x <= d['loc'][2]) for x in d['sl']):
        bad.append((d['k'], d['loc'], d['sl']))
    for k in d.get('kids', []):
        bad.extend(_sl_outside(k))
    return bad


def _tree_worker(src):
    from fst import FST
    try:
        ast.parse(src)
        root = FST(src, 'exec')
    except Exception:
        return None
    try:
        sroot = ser_node(root)
        return {'case': {'f': 'C09b.tree', 'lines': [str(l) for l in root._lines], 'root': sroot}, 'slbad': _sl_outside(sroot),
                'real': real_tree(root), 'kinds': [f.a.__class__.__name__ for f in preorder(root)], 'slexc': _slexc_list(root), 'src': src}
    except Exception as e:
        import traceback
        return {'error': traceback.format_exc()[-1200:], 'src': src}


def _first_diff_tree(w, model):
    for i, (r, m) in enumerate(zip(w['real'], model)):
        for k in ('a', 'e', 'lt', 'lf', 'o', 'ot'):
            if k in ('lt', 'lf', 'o', 'ot') and w['slexc'][i] and (r['lf'] == 'exc:' + w['slexc'][i] or r['lt'] == 'exc:' + w['slexc'][i]):
                continue        # the tokenize input of the model does not exist (the real function raises the same error)
            if r[k] != m.get(k):
                return {'node': i, 'kind': w['kinds'][i], 'what': k, 'real': r[k], 'model': m.get(k), 'src': w['src']}
        if 'out_lns_changes_answer' in r:
            return {'node': i, 'kind': w['kinds'][i], 'what': 'answer differs with out_lns', 'real': r, 'src': w['src']}
    if len(w['real']) != len(model):
        return {'what': 'node count', 'real': len(w['real']), 'model': len(model), 'src': w['src']}
    return None


def corr_trees(ctx):
    import corpus
    rng = random.Random(ctx.rng.random())
    progs = list(EXTRA_SNIPPETS) + corpus.programs(rng, 120 if ctx.quick else 1500, stdlib=6 if ctx.quick else 80)
    ws = [w for w in pmap(_tree_worker, progs) if w]
    errs = [w for w in ws if 'error' in w]
    if errs:
        ctx.brk('correspondence', 'C09b serialiser', f'{len(errs)} programs could not be serialised; first: {errs[0]}')
    ws = [w for w in ws if 'error' not in w]
    slbad = [(w['src'], w['slbad']) for w in ws if w['slbad']]
    if slbad:
        ctx.brk('correspondence', 'tokenize continuation lines outside the node (hypothesis of enclosedOrLine_sound_str)',
                f'{len(slbad)} programs; first: {slbad[0]}')
    try:
        outs = ctx.lean([w['case'] for w in ws])
    except Exception as ex:
        ctx.brk('correspondence', 'C09b tree model', f'driver error {ex}')
        return
    bad = []
    nodes = 0
    for w, o in zip(ws, outs):
        m = o.get('out', o)
        if not isinstance(m, list):
            bad.append({'what': 'driver', 'model': m, 'src': w['src']})
            continue
        nodes += len(w['real'])
        for r, k in zip(w['real'], w['kinds']):
            ctx.tally('c09b_eol', f"{r['lf']}")
            nt = r['lf'] != 'yes' or r['a'][0] != 'yes' or r['e']
            ctx.count(('c09b-node', k, r['a'], r['e'], r['lt'], r['lf'], len(r['o'])), nt)
        ctx.corr_cases += len(w['real'])
        d = _first_diff_tree(w, m)
        if d:
            bad.append(d)
    ctx.notes['c09b_tree_programs'] = len(ws)
    ctx.notes['c09b_tree_nodes'] = nodes
    if bad:
        for b in bad[:10]:
            ctx.corr_disagreements.append({'corr': 'C09b real nodes', **b})
        ctx.brk('correspondence', '_is_atom/_is_enclosed_in_parents/_is_enclosed_or_line on real nodes vs model',
                f'{len(bad)} programs differ; first: {bad[0]}')


# ---------------------------------------------------------------------------------------------------------------------
# whole mock domain: the one-node / one-parent behaviour of _is_atom and _is_enclosed_in_parents

def corr_mock_domain(ctx):
    from fst.astutil import AST_FIELDS
    from fst.common import nspace, fstloc
    from fst import fst_core
    names, _ = _kinds()
    cases, real, keys = [], [], []
    opt3 = (None, False, True)
    for n, c in sorted(names.items()):
        vals = [('s', True, False), (b'x', True, False), (7, False, True), (1.5, False, False), (True, False, True), (None, False, False)] if n == 'Constant' else [(None, False, False)]
        for value, cstr, cint in vals:
            for ptup in opt3:
                for dms in (None, '', '[]'):
                    for np in (0, 1):
                        for pars in (False, True):
                            for ae in (False, True):
                                if n == 'withitem':
                                    continue
                                m = _mock(c, n=np, ptup=ptup, dms=dms, value=value)
                                d = {'k': n, 'n': np}
                                if ptup is not None:
                                    d['ptup'] = ptup
                                if dms is not None:
                                    d['dms'] = bool(dms)
                                if n == 'Constant':
                                    d['cstr'], d['cint'] = cstr, cint
                                cases.append({'f': 'C09b.atom', 'node': d, 'pars': pars, 'ae': ae})
                                real.append(real_atom(m, pars, ae))
                                keys.append(('atom', n, ptup, dms, np, pars, ae, cstr))
    # withitem: optional_vars x same lines x context_expr kind
    for wv in (False, True):
        for same in (False, True):
            for cek, cen in (('Name', 0), ('BinOp', 0), ('BinOp', 1), ('Call', 0), ('Call', 1)):
                for pars in (False, True):
                    for ae in (False, True):
                        cem = _mock(names[cek], n=cen)
                        cem.pars = (lambda cen=cen, same=same: nspace(n=cen, __getitem__=None))
                        celoc = fstloc(0, 5, 0 if same else 1, 9)

                        class _P(tuple):
                            pass
                        pl = _P(celoc)
                        pl.n = cen
                        cem.pars = lambda pl=pl, **k: pl
                        cem._is_atom = lambda cem=cem, **kw: fst_core._is_atom(cem, **kw)
                        wa = ast.withitem(context_expr=nspace(f=cem), optional_vars=ast.Name('v') if wv else None)
                        m = nspace(a=wa, loc=fstloc(0, 5, 0, 9), is_parenthesized_tuple=lambda: None,
                                   is_delimited_matchseq=lambda: None, pars=lambda **k: nspace(n=0))
                        d = {'k': 'withitem', 'wv': wv, 'loc': [0, 5, 0, 9],
                             'kids': [{'k': cek, 'f': 'context_expr', 'n': cen, 'pars': list(celoc), 'loc': list(celoc)}]}
                        cases.append({'f': 'C09b.atom', 'node': d, 'pars': pars, 'ae': ae})
                        real.append(real_atom(m, pars, ae))
                        keys.append(('atom-withitem', wv, same, cek, cen, pars, ae))
    # _is_enclosed_in_parents: one mock parent of every (kind, field), optionally below an enclosing grandparent
    for c in sorted(AST_FIELDS, key=lambda c: c.__name__):
        for f in AST_FIELDS[c]:
            for ptup in opt3:
                for dms in (None, '', '()'):
                    for np in (0, 1):
                        for dyn in (0, 1):
                            for grand in (False, True):
                                m = _enc_mock_chain(c, f, grand=grand, n=np, ptup=ptup, dms=dms, imp=dyn, wth=dyn)
                                pi = {'k': c.__name__, 'n': np, 'sp': [0, 0, 0, 0, dyn, 0]}
                                if ptup is not None:
                                    pi['ptup'] = ptup
                                if dms is not None:
                                    pi['dms'] = bool(dms)
                                ups = [[f, pi]] + ([['elts', {'k': 'List'}]] if grand else [])
                                cases.append({'f': 'C09b.enc', 'field': None, 'self': {'k': 'Name'}, 'ups': ups})
                                real.append(real_enc(m))
                                keys.append(('enc', c.__name__, f, ptup, dms, np, dyn, grand))
                                if not grand and ptup is None and dms is None:
                                    # the `field=` form: the mock parent itself is asked about an imaginary child at `f`
                                    cases.append({'f': 'C09b.enc', 'field': f, 'self': pi, 'ups': []})
                                    real.append(real_enc(m.parent, f))
                                    keys.append(('enc-field', c.__name__, f, np, dyn))
    # expr_context self (Load below a parent): the walk starts one level higher
    for pk, f2, gk in (('Name', 'elts', 'List'), ('Name', 'left', 'BinOp'), ('Name', 'value', 'Expr')):
        g = nspace(a=_inst(names[gk]), parent=None, pfield=None, is_parenthesized_tuple=lambda: None,
                   is_delimited_matchseq=lambda: None, pars=lambda **k: nspace(n=0))
        from fst.common import astfield
        p = nspace(a=ast.Name(), parent=g, pfield=astfield(f2), is_parenthesized_tuple=lambda: None,
                   is_delimited_matchseq=lambda: None, pars=lambda **k: nspace(n=1))
        s = nspace(a=ast.Load(), parent=p, pfield=astfield('ctx'))
        cases.append({'f': 'C09b.enc', 'field': None, 'self': {'k': 'Load'}, 'ups': [['ctx', {'k': 'Name', 'n': 1}], [f2, {'k': gk}]]})
        real.append(real_enc(s))
        keys.append(('enc-ctx', pk, f2, gk))
    try:
        outs = ctx.lean(cases)
    except Exception as ex:
        ctx.brk('correspondence', 'C09b mock domain', f'driver error {ex}')
        return
    bad = []
    for k, r, o in zip(keys, real, outs):
        m = o.get('out', o)
        ctx.corr_cases += 1
        ctx.count(k, True)
        if m != r:
            bad.append({'case': k, 'real': r, 'model': m})
    ctx.notes['c09b_mock_domain_cases'] = len(cases)
    if bad:
        ctx.corr_disagreements.extend({'corr': 'C09b mock domain', **b} for b in bad[:10])
        ctx.brk('correspondence', '_is_atom / _is_enclosed_in_parents on the whole mock domain vs model',
                f'{len(bad)}/{len(cases)} differ; first: {bad[0]}')


# ---------------------------------------------------------------------------------------------------------------------
# need_pars / pars option logic: _make_exprlike_fst wrapped at RUN TIME during real replace() calls

EXTRA_SLOTS = {
    ('AnnAssign', 'target'): ('(x): int = 1', [('body', 0), ('target', None)]),
    ('Assign', 'targets'): ('(x) = y = 1', [('body', 0), ('targets', 0)]),
    ('FormattedValue', 'value'): ('x = f"{a}"', [('body', 0), ('value', None), ('values', 0), ('value', None)]),
    ('FormattedValue.BinOp', 'right'): ('x = f"{a + b}"', [('body', 0), ('value', None), ('values', 0), ('value', None), ('right', None)]),
    ('FormattedValue.Tuple', 'elts'): ('x = f"{a, b}"', [('body', 0), ('value', None), ('values', 0), ('value', None), ('elts', 0)]),
    ('FormattedValue.List', 'elts'): ('x = f"{[a, b]}"', [('body', 0), ('value', None), ('values', 0), ('value', None), ('elts', 0)]),
    ('FormattedValue.IfExp', 'orelse'): ('x = f"{a if b else c}"', [('body', 0), ('value', None), ('values', 0), ('value', None), ('orelse', None)]),
    ('With', 'items.context_expr'): ('with (a): pass', [('body', 0), ('items', 0), ('context_expr', None)]),
    ('Call.Starred', 'value'): ('x = f(*a, b)', [('body', 0), ('value', None), ('args', 0), ('value', None)]),
    ('Call.args', 'Starred'): ('x = f(*a, b)', [('body', 0), ('value', None), ('args', 0)]),
    ('Subscript.Tuple', 'elts'): ('x = a[b, c]', [('body', 0), ('value', None), ('slice', None), ('elts', 0)]),
    ('Return.Tuple', 'elts'): ('def f():\n    return a, b', [('body', 0), ('body', 0), ('value', None), ('elts', 0)]),
    ('Expr.BinOp.par', 'left'): ('(a + b)', [('body', 0), ('value', None), ('left', None)]),
    ('Expr.BinOp.ml', 'right'): ('(a +\n b)', [('body', 0), ('value', None), ('right', None)]),
}
EXTRA_CHILDREN = {
    'ImplicitStr3': '"s" "t" "u"', 'StrTriple': '"""s\nt""" + "u" + v', 'AddStr': '"s" + "t" + u', 'FStr3': 'f"{p}" f"t" "u"',
    'CallML': 'p(q, r) + p(s)', 'SubscrAttr': 'p[q].r + s[t] + u', 'StarredOr': '*p or q', 'StarredTuplePar': '*(p, q)',
    'TuplePar': '(p, q, r)', 'Tuple3': 'p, q, r', 'LambdaIf': 'lambda: p if q else r', 'Bool': 'True', 'NotIn3': 'p not in q',
    'IsNot3': 'p is not q',
}
# multi-line Starred sources whose value carries the parentheses that enclose the line break (C09-F3)
EXTRA_CHILDREN.update({
    'StarredParML': '*(p +\n q)', 'StarredParAttrML': '*(p.\nq)', 'StarredParOrML': '*(p or\n q)', 'StarredParCallML': '*(p(q,\n r))',
    'StarredParPar': '*(p)', 'StarredContML': '*p + \\\n q',
})
EXTRA_SLOTS.update({
    ('Assign.Tuple', 'elts'): ('x = a, b', [('body', 0), ('value', None), ('elts', 0)]),
    ('AssignTarget.Tuple', 'elts'): ('a, b = x', [('body', 0), ('targets', 0), ('elts', 0)]),
    ('For.Tuple', 'elts'): ('for i in a, b:\n    pass', [('body', 0), ('iter', None), ('elts', 0)]),
    ('Yield.Tuple', 'elts'): ('def g():\n    yield a, b', [('body', 0), ('body', 0), ('value', None), ('value', None), ('elts', 1)]),
})
# multi-line patterns (C09-F2): values spread over lines without delimiters, bare and already parenthesised
EXTRA_PAT_CHILDREN = {
    'MatchValueNegML': '-\n 2', 'MatchValueComplexML': '1 +\n 2j', 'MatchValueAttrML': 'a.\nb', 'MatchValueStrML': '"a"\n"b"',
    'MatchValueNegParML': '(-\n 2)', 'MatchValueAttrParML': '(a.\nb)', 'MatchValueStrParML': '("a"  # c\\\n"b")',
    'MatchValueAttrCont': 'a. \\\nb', 'MatchAsML': 'p\n as q', 'MatchOrML': '7 |\n 8', 'MatchClassML': 'C(\n p)',
    'MatchMappingML': '{1:\n p}', 'MatchSeqBrML': '[p,\n q]', 'MatchStrTriple': '"""a\nb"""',
}
EXTRA_PAT_SLOTS = {
    ('MatchSequenceBare', 'patterns'): ('match s:\n    case 1, 2:\n        pass', [('body', 0), ('cases', 0), ('pattern', None), ('patterns', 1)]),
    ('MatchOr.par', 'patterns'): ('match s:\n    case (1 | 2):\n        pass', [('body', 0), ('cases', 0), ('pattern', None), ('patterns', 1)]),
}
OPTS = ['auto', True, False]


def _add_tgt_pars(psrc, path):
    """the same slot with the target wrapped in grouping parentheses (None if that is not the same program)"""
    import props.C09 as C09
    tree = ast.parse(psrc)
    try:
        t = C09._nav(tree, path)
    except Exception:
        return None
    if not isinstance(t, ast.expr) or isinstance(t, (ast.Starred, ast.Slice)) or t.lineno != t.end_lineno:
        return None
    lines = psrc.split('\n')
    l = lines[t.lineno - 1].encode()
    lines[t.lineno - 1] = (l[:t.col_offset] + b'(' + l[t.col_offset:t.end_col_offset] + b')' + l[t.end_col_offset:]).decode()
    new = '\n'.join(lines)
    try:
        if ast.dump(ast.parse(new)) != ast.dump(tree):
            return None
    except SyntaxError:
        return None
    return new


_LOG = []
_ORIG = {}


def _install():
    """wrap `_make_exprlike_fst` (module global of fst_put_one, looked up at each call) and its collaborators"""
    if _ORIG:
        return
    import fst as fstmod
    from fst import fst_put_one
    FST = fstmod.FST
    _ORIG['make'] = fst_put_one._make_exprlike_fst
    state = {'put': None, 'self': None, 'calls': None}

    def rec(name):
        orig = getattr(FST, name)
        _ORIG[name] = orig

        def w(self_, *a, **k):
            if state['put'] is not None:
                if name == '_put_src':
                    if k.get('exclude') is state['self'] and state['calls'].get('putloc') is None and len(a) >= 5:
                        state['calls']['putloc'] = list(a[1:5])
                elif self_ is state['put']:
                    state['calls'].setdefault('acts', []).append(name)
            return orig(self_, *a, **k)
        setattr(FST, name, w)

    for nm in ('_parenthesize_grouping', '_unparenthesize_grouping', '_delimit_node', '_put_src'):
        rec(nm)

    def make(self, code, idx, field, static, options, target, ctx_cls, prefix='', suffix='', validated=0, arglike=False):
        if validated < 2:
            put_fst = static.code_as(code, options, self.root._parse_params, strip=True,
                                     coerce=FST.get_option('coerce', options))
        else:
            put_fst = code
        entry = None
        try:
            entry = _observe_inputs(self, put_fst, idx, field, options, target, arglike)
        except Exception as e:
            import traceback
            entry = {'ser_error': traceback.format_exc()[-800:]}
        outer = (state['put'], state['self'], state['calls'])
        state['put'], state['self'], state['calls'] = put_fst, self, {}
        try:
            ret = _ORIG['make'](self, put_fst, idx, field, static, options, target, ctx_cls, prefix, suffix, 2, arglike)
            entry['calls'] = state['calls']
            entry['deferred'] = bool(ret[1])
        except Exception as e:
            entry['raised'] = type(e).__name__
            raise
        finally:
            state['put'], state['self'], state['calls'] = outer
            _LOG.append(entry)
        return ret

    fst_put_one._make_exprlike_fst = make


def _observe_inputs(self, put_fst, idx, field, options, target, arglike):
    import fst as fstmod
    pars = fstmod.FST.get_option('pars', options)
    tgt_is_fst = bool(target.is_FST)
    e = {'f': 'C09b.action', 'put': ser_node(put_fst), 'putLines': [str(l) for l in put_fst._lines], 'self': ser_info(self),
         'ups': ser_ups(self), 'field': field, 'arglike': bool(arglike), 'tgtIsFST': tgt_is_fst,
         'dictKeyNone': bool(self.a.__class__ is ast.Dict and idx is not None and self.a.keys[idx] is None),
         'parenthesizable': bool(put_fst.is_parenthesizable()),
         'opt': 'on' if pars is True else 'auto' if pars == 'auto' else 'off' if not pars else 'other:' + repr(pars)}
    if tgt_is_fst:
        tp = target.pars()
        e['tgtN'] = max(0, getattr(tp, 'n', 0) or 0)
        if target.parent:
            e['tgtParent'] = target.parent.a.__class__.__name__
        e['_tloc'] = list(target.loc[:4])
        e['_tpars'] = list(target.pars(shared=False)[:4])
        e['_solo_genexp'] = bool(target._is_solo_call_arg_genexp())
    # the real sub-answers, for the comparison of the intermediate results
    e['_real'] = {'atom': real_atom(put_fst, False, False), 'enc': real_enc(self, field),
                  'eol_t': _eol_real(put_fst, check_pars=True), 'eol_f': _eol_real(put_fst, check_pars=False)}
    return e


def _action_case(arg):
    """one real replace() with the wrapped `_make_exprlike_fst`; returns the log entries and the final source"""
    import props.C09 as C09
    from fst import FST
    (slot_key, psrc, path, pat, ck, csrc0, lay, form, opt, tgtpars) = arg
    _install()
    res = {'slot': list(slot_key), 'child': ck, 'layout': lay, 'form': form, 'opt': opt, 'tgtpars': tgtpars}
    csrc = C09.layout(csrc0, lay, False)
    if csrc is None:
        res['skip'] = 'layout n/a'
        return res
    try:
        child_ast = C09._parse_child(csrc, pat)
    except SyntaxError:
        try:
            if not pat:
                raise
            # a pattern spread over lines is only a pattern inside parentheses (they do not change the tree)
            child_ast = ast.parse(f'match x:\n case (\n{csrc}\n): pass').body[0].cases[0].pattern
        except SyntaxError:
            res['skip'] = 'child layout does not parse'
            return res
    if tgtpars:
        psrc = _add_tgt_pars(psrc, path)
        if psrc is None:
            res['skip'] = 'target cannot take parentheses'
            return res
    try:
        root = FST(psrc, 'exec')
        tgt = C09._nav(root.a, path).f
        if form == 'src':
            code = csrc
        elif form == 'ast':
            code = copy.deepcopy(child_ast)
        else:
            code = FST(csrc, 'pattern' if pat else 'expr') if not csrc.lstrip().startswith('*') else FST(csrc, 'expr_arglike')
    except Exception as e:
        res['skip'] = 'not constructible: ' + type(e).__name__
        return res
    del _LOG[:]
    try:
        tgt.replace(code, pars=opt)
    except Exception as e:
        res['raised'] = type(e).__name__
    res['log'] = list(_LOG)
    if 'raised' not in res and opt is not False:
        # CPython as judge of the result (the same oracle as the C09 sweep): the source must parse to the parent with
        # exactly this replacement at the path
        try:
            expected = ast.parse(psrc)
            C09._set(expected, path, copy.deepcopy(child_ast))
            exp_dump = ast.dump(expected)
            try:
                valid = ast.dump(ast.parse(ast.unparse(ast.fix_missing_locations(copy.deepcopy(expected))))) == exp_dump
            except Exception:
                valid = False
            if valid:
                try:
                    got = ast.dump(ast.parse(root.src))
                    if got != exp_dump:
                        res['judge'] = 'regroup'
                except SyntaxError as e:
                    res['judge'] = 'no-parse'
        except Exception as e:
            res['judge_error'] = type(e).__name__
    res['psrc'] = psrc
    res['csrc'] = csrc
    res['src'] = root.src
    if 'raised' not in res and len(_LOG) == 1 and 'ser_error' not in _LOG[0]:
        # the final source: is the node now at the path inside grouping parentheses / a delimited tuple?
        try:
            node = C09._nav(root.a, path).f
            st = node.a.value.f if node.a.__class__ is ast.Starred else node
            if st.parent is not None and st.parent.a.__class__ is ast.MatchValue and not getattr(st.pars(), 'n', 0) and not tgtpars and '(' not in psrc:
                st = st.parent          # parentheses written around the value of a MatchValue belong to the pattern (CPython's and, since 58a4705, pfst's attribution)
            res['final'] = {'n': getattr(st.pars(), 'n', 0), 'ptup': node.is_parenthesized_tuple(), 'kind': node.a.__class__.__name__}
            try:
                ast.parse(root.src)
                res['final']['parses'] = True
            except SyntaxError:
                res['final']['parses'] = False
        except Exception as e:
            res['final_error'] = type(e).__name__
    return res


def action_jobs(ctx, full):
    import props.C09 as C09
    rng = random.Random(ctx.rng.random())
    jobs = []
    for a in ALWAYS:
        jobs.append(_job(*a))
    for table, kids, pat in _tables():
        for key, (psrc, path) in table.items():
            for ck, csrc in kids.items():
                combos = [(l, f, o, t) for l in C09.LAYOUTS for f in ('src', 'ast', 'fst') for o in OPTS for t in (False, True)
                          if not (f == 'ast' and l != 'bare')]
                if not full:
                    combos = [('bare', 'src', 'auto', False)] + rng.sample(combos[1:], 3)
                for lay, form, opt, t in combos:
                    jobs.append((key, psrc, path, pat, ck, csrc, lay, form, opt, t))
    return jobs


# always run (also in the quick tier): the combinations behind listed findings (C09-F1, fixed in /repo 48b6578: must pass)
ALWAYS = [(('MatchOr', 'patterns'), 'MatchValueNegML', 'bare', 'src', 'auto', False),      # C09-F2
          (('match_case', 'pattern'), 'MatchValueAttrParML', 'bare', 'fst', 'auto', False),  # C09-F2 (parentheses stripped)
          (('Assign', 'targets'), 'StarredParAttrML', 'bare', 'src', 'auto', False),         # C09-F3
          (('Expr', 'value'), 'StarredParML', 'bare', 'src', 'auto', False),                 # C09-F3
          (('Assign', 'value'), 'ImplicitStr3', 'comment_bs', 'src', 'auto', False),
          (('Assign', 'value'), 'FStr3', 'comment_bs', 'src', 'auto', False),
          (('Add', 'right'), 'ImplicitStr3', 'comment_bs', 'fst', 'auto', True)]


def _tables():
    import props.C09 as C09
    return (({**C09.SLOTS, **EXTRA_SLOTS}, {**C09.CHILDREN, **EXTRA_CHILDREN}, False),
            ({**C09.PAT_SLOTS, **EXTRA_PAT_SLOTS}, {**C09.PAT_CHILDREN, **EXTRA_PAT_CHILDREN}, True))


def _job(key, ck, lay, form, opt, t):
    for table, kids, pat in _tables():
        if tuple(key) in table and ck in kids:
            psrc, path = table[tuple(key)]
            return (tuple(key), psrc, path, pat, ck, kids[ck], lay, form, opt, t)
    raise KeyError((key, ck))


def _report_judge(ctx, r):
    ctx.fail(action_sig(r), f'replace at {r["slot"]} with {r["child"]} ({r["layout"]}, {r["form"]}, pars={r["opt"]}, '
             f'target parenthesised={r["tgtpars"]}): result {"does not parse" if r["judge"] == "no-parse" else "parses to a different grouping"}: {r["src"]!r}',
             {'c09b': True, 'slot': r['slot'], 'child': r['child'], 'layout': r['layout'], 'form': r['form'], 'opt': r['opt'],
              'tgtpars': r['tgtpars'], 'psrc': r['psrc'], 'csrc': r['csrc'], 'result_src': r['src']})


def replay_c09b(ctx, w):
    r = _action_case(_job(w['slot'], w['child'], w['layout'], w['form'], w['opt'], w['tgtpars']))
    if r.get('judge'):
        _report_judge(ctx, r)


def action_sig(r):
    return f'C09|put|{r["slot"][0]}.{r["slot"][1]}|{r["child"]}|{r["layout"]}|pars={r["opt"]}|{r["judge"]}'


def _observed_action(e):
    acts = e.get('calls', {}).get('acts', [])
    if e.get('deferred'):
        return 'deferred'
    m = {'_parenthesize_grouping': 'group', '_unparenthesize_grouping': 'unpar', '_delimit_node': 'delimit'}
    named = [m[a] for a in acts if a in m]
    if not named:
        return 'none'
    return named[0] if len(named) == 1 else '+'.join(named)


def _observed_deltgt(e):
    pl = e.get('calls', {}).get('putloc')
    if pl is None or '_tloc' not in e or e.get('_solo_genexp'):
        return None
    if e['_tloc'] == e['_tpars']:
        return None
    return True if pl == e['_tpars'] else False if pl == e['_tloc'] else 'other'


def corr_actions(ctx, full=None):
    full = (not ctx.quick) if full is None else full
    jobs = action_jobs(ctx, full)
    res = pmap(_action_case, jobs)
    entries, owners = [], []
    for r in res:
        if 'skip' in r:
            ctx.tally('c09b_action_skipped', r['skip'])
            continue
        for e in r.get('log', []):
            if 'ser_error' in e:
                ctx.brk('correspondence', 'C09b action serialiser', f'{r["slot"]} <- {r["child"]}: {e["ser_error"]}')
                continue
            if e['opt'].startswith('other'):
                continue
            entries.append(e)
            owners.append(r)
    try:
        outs = ctx.lean([{k: v for k, v in e.items() if not k.startswith('_') and k not in ('calls', 'deferred', 'raised')} for e in entries])
    except Exception as ex:
        ctx.brk('correspondence', 'C09b action model', f'driver error {ex}')
        return
    bad = []
    n_final = 0
    for e, r, o in zip(entries, owners, outs):
        m = o.get('out', o)
        ctx.corr_cases += 1
        where = {'slot': r['slot'], 'child': r['child'], 'layout': r['layout'], 'form': r['form'], 'opt': r['opt'],
                 'tgtpars': r['tgtpars'], 'psrc': r.get('psrc'), 'csrc': r.get('csrc'), 'result': r.get('src')}
        if 'err' in m:
            bad.append({'what': 'driver', 'model': m, **where})
            continue
        # intermediate answers
        for k in ('atom', 'enc', 'eol_t', 'eol_f'):
            if m[k] != e['_real'][k]:
                bad.append({'what': 'sub-answer ' + k, 'real': e['_real'][k], 'model': m[k], **where})
        if 'raised' in e:
            # need_pars raised inside (precedence refuses the pair): the model must refuse too, or the raise came later
            ctx.tally('c09b_action', 'raised:' + e['raised'])
            continue
        obs = _observed_action(e)
        ctx.tally('c09b_action', f"{e['opt']}:{obs}")
        ctx.count(('c09b-action', r['slot'], r['child'], r['layout'], r['form'], r['opt'], r['tgtpars']), obs != 'none' or bool(e.get('tgtN')))
        if m['src'] != obs:
            bad.append({'what': 'action on the source', 'real': obs, 'model': m['src'], 'need_f': m['need_f'], 'need_t': m['need_t'], **where})
        od = _observed_deltgt(e)
        if od is not None and m['delTgt'] != od:
            bad.append({'what': 'del_tgt_pars', 'real': od, 'model': m['delTgt'], **where})
        fin = r.get('final')
        if fin is not None and fin['kind'] == 'Starred':
            ctx.tally('c09b_final_not_compared', 'Starred (parentheses belong to its value)')
        elif fin is not None and fin['kind'] == 'Tuple' and e['self']['k'] == 'withitem':
            ctx.tally('c09b_final_not_compared', 'Tuple as with-item (put_one re-parenthesises after _make_exprlike_fst)')
        elif fin is not None and len(r['log']) == 1 and obs != 'deferred':
            n_final += 1
            src_has = bool(_src_has_pars(e['put']))
            tgt_has = bool(e.get('tgtN'))
            pred_group = (src_has and m['src'] != 'unpar') or (tgt_has and not m['delTgt']) or m['src'] == 'group'
            if pred_group != (fin['n'] > 0):
                bad.append({'what': 'grouping parentheses around the put node in the result', 'real': fin, 'model_predicts': pred_group,
                            'model': m, **where})
            elif m['src'] == 'delimit' and fin['ptup'] is not True:
                bad.append({'what': 'tuple delimiters in the result', 'real': fin, 'model': m, **where})
    for r in res:
        if r.get('judge'):
            _report_judge(ctx, r)
    ctx.notes['c09b_action_replaces'] = len([r for r in res if 'skip' not in r])
    ctx.notes['c09b_action_entries'] = len(entries)
    ctx.notes['c09b_action_final_source_checked'] = n_final
    if entries:
        e0, r0 = entries[len(entries) // 2], owners[len(entries) // 2]
        ctx.sample({'c09b_action': {'slot': r0['slot'], 'child': r0['child'], 'layout': r0['layout'], 'opt': r0['opt'],
                                    'observed': _observed_action(e0), 'result': r0.get('src')}})
    if bad:
        ctx.corr_disagreements.extend({'corr': 'C09b action', **b} for b in bad[:10])
        ctx.brk('correspondence', 'need_pars / pars option logic of _make_exprlike_fst (run-time instrumented) vs model',
                f'{len(bad)} disagreements in {len(entries)} puts; first: {bad[0]}')
    return res


def _src_has_pars(put):
    if put['k'] == 'Starred':
        for k in put.get('kids', []):
            if k.get('f') == 'value':
                return k.get('n', 0) > 0
        return False
    return put.get('n', 0) > 0


def search_c09b(ctx):
    """failing-input search over the whole put space (all layouts x forms x pars options x parenthesised targets)"""
    res = pmap(_action_case, action_jobs(ctx, True))
    n = 0
    for r in res:
        if r.get('judge'):
            n += 1
            _report_judge(ctx, r)
    ctx.notes['c09b_search_puts'] = len(res)
    ctx.notes['c09b_search_failures'] = n


def correspondence_c09b(ctx):
    corr_mock_domain(ctx)
    corr_trees(ctx)
    corr_actions(ctx)
