"""C18: every public entry point of substitution against the core `subn()` for the same effective arguments.

`FST.sub()` (= `fst.match.sub`), the module functions, and the command line tool `fst.cli.sub` are wrappers: for every
keyword parameter they accept, the result must be the result of `subn()` called with that parameter (sub(...) is
subn(...)[0]).  A deterministic product: scenarios (small programs in which the parameter matters: the same name in
Load / Store / Del context for `ctx`, nested matches for `nested`, several locations for `count` / `back`, rewrite chains
for `loop`, nested scopes for `scope`, parenthesised operands for the put options) x parameter values x entry points.
Plus two checks of the core itself where a CPython-only expectation exists: the number of substitutions under `ctx`, and
explicit `{}` for copy_options / repl_options meaning "defaults", not "inherit the top-level options".
"""

from __future__ import annotations

import ast
import contextlib
import io
import os
import sys
import tempfile

P_CTX = 'total = 0\ntotal += price\nacc = [total, total + 1]\ndel total\n(total, other) = pair\nprint(total, other.total)\n'
P_CALLS = 'f(g(a), b)\nx = [a, h(b), c]\nk(f(a))  # tail\n'
P_LISTS = 'v = [a, b, c, d]\nw = [e, f]\nu = [g]\nt = [h, i, j, k, l, m]\n'
P_SCOPE = 'def outer(p):\n    t = p\n    def inner(q):\n        return t + q\n    lam = lambda z: t * z\n    return inner(t)\nt = 1\n'
P_PARS = 'r = f(p + q)\ny = x * total\nz = g((p + q))\n'

CHAIN = ('MList(elts=[M(a=...), M(b=...), MQSTAR(t=...)])', '[__FST_a + __FST_b, __FST_t]')

# (name, src, node path, pattern source, template, [kwargs...]); the pattern source is evaluated with the cli's own
# dictionary of names, so the same text serves the API calls and `-p`
SCENARIOS = [
    ('ctx-load', P_CTX, '', 'Name("total", Load())', 'acc.total',
     [{}, {'ctx': True}, {'ctx': False}, {'ctx': True, 'count': 2}, {'ctx': True, 'back': True, 'count': 1},
      {'ctx': True, 'nested': True}, {'ctx': True, 'on': 'leave'}]),
    ('ctx-store', P_CTX, '', 'Name("total", Store())', 'acc.total', [{'ctx': True}, {'ctx': False}]),
    ('ctx-del', P_CTX, '', 'Name("total", Del())', 'acc.total', [{'ctx': True}]),
    ('ctx-attr', P_CTX, '', 'MAttribute(attr="total", ctx=Load())', 'o.t', [{'ctx': True}, {}]),
    ('calls', P_CALLS, '', 'MCall', 'h(__FST_)',
     [{}, {'nested': True}, {'nested': False}, {'on': 'leave'}, {'on': 'enter'}, {'count': 1}, {'count': 2},
      {'count': 1, 'back': True}, {'back': True, 'nested': True, 'count': 2}, {'recurse': False}, {'recurse': True},
      {'nested': True, 'count': 3}, {'callback': 'skip_first'}, {'callback_after': 'collect'},
      {'nested': True, 'callback': 'skip_first', 'callback_after': 'collect'}, {'asts': 'body[1:]'},
      {'asts': 'body[:1]', 'nested': True}, {'loop': 2, 'count': 2}]),
    ('calls-self', P_CALLS, 'body[0].value', 'MCall', 'h(__FST_)',
     [{'self_': True}, {'self_': False}, {'self_': False, 'nested': True}, {'self_': True, 'nested': True}]),
    ('loop', P_LISTS, '', CHAIN[0], CHAIN[1],
     [{}, {'loop': False}, {'loop': 1}, {'loop': 2}, {'loop': 3}, {'loop': 4}, {'loop': True}, {'loop': 2, 'count': 2},
      {'loop': True, 'back': True, 'count': 1}, {'loop': 3, 'on': 'leave'}]),
    ('scope', P_SCOPE, 'body[0]', 'MName("t", ctx=Load)', 'log(__FST_)',
     [{}, {'scope': True}, {'scope': False}, {'scope': True, 'self_': False}, {'scope': True, 'count': 1}]),
    ('options', P_PARS, '', 'MName("total")', 'a + b', [{}, {'pars': False}, {'pars': True}, {'pars': False, 'count': 1}]),
    ('repl-options', P_PARS, '', 'MCall(args=[M(x=...)])', '__FST_x * 2',
     [{'repl_options': ro, **top} for ro in (None, {}, {'pars': False}, {'pars': True}) for top in ({}, {'pars': False})]),
    ('copy-options', P_PARS, '', 'MCall(args=[M(x=...)])', 'w(__FST_x)',
     [{'copy_options': co, **top} for co in (None, {}, {'pars': False}, {'pars': 'auto'}) for top in ({}, {'pars': False})]),
]
CLI_PARAMS = {'nested', 'ctx', 'back', 'count', 'loop'}
ENTRIES = ['sub-method', 'sub-function', 'sub-unbound', 'subn-function', 'cli']


def cases():
    out = []
    for si, (name, src, path, pat, tmpl, kws) in enumerate(SCENARIOS):
        for ki, kw in enumerate(kws):
            for e in ENTRIES:
                if e == 'cli' and (path or not set(kw) <= CLI_PARAMS):
                    continue
                out.append({'scenario': si, 'kw': ki, 'entry': e})
    return out + reuse_cases()


def _pattern(src):
    from fst.cli import sub as clisub
    return eval(compile(src, '<pattern>', 'eval'), dict(clisub.PATTERN_COMPILE_DICT))


def _node(root, path):
    n = root
    for part in [p for p in path.split('.') if p]:
        if '[' in part:
            f, i = part[:-1].split('[')
            n = getattr(n, f)[int(i)]
        else:
            n = getattr(n, part)
    return n


def _kwargs(kw, root, log):
    out = dict(kw)
    if out.get('callback') == 'skip_first':
        seen = []

        def cb(f):
            seen.append(f.src)
            return len(seen) == 1
        out['callback'] = cb
    if out.get('callback_after') == 'collect':
        out['callback_after'] = lambda f: log.append(f.src)
    if isinstance(out.get('asts'), str):
        out['asts'] = eval('root.a.' + out['asts'], {'root': root})
    return out


def _call_api(entry, src, path, pat_src, tmpl, kw):
    """-> (source, dump, counts | None, callback log, returned-self-ok)"""
    from fst import FST
    import fst.match as fm
    root = FST(src, 'exec')
    node = _node(root, path)
    log = []
    k = _kwargs(kw, root, log)
    pat = _pattern(pat_src)
    counts = None
    if entry == 'subn':
        r = node.subn(pat, tmpl, **k)
        counts, ret = (r[1], r[2]), r[0]
    elif entry == 'subn-function':
        r = fm.subn(node, pat, tmpl, **k)
        counts, ret = (r[1], r[2]), r[0]
    elif entry == 'sub-method':
        ret = node.sub(pat, tmpl, **k)
    elif entry == 'sub-function':
        ret = fm.sub(node, pat, tmpl, **k)
    elif entry == 'sub-unbound':
        ret = FST.sub(node, pat, tmpl, **k)
    else:
        raise KeyError(entry)
    return root.src, ast.dump(root.a), counts, log, ret is node


def _call_cli(src, pat_src, tmpl, kw):
    from fst.cli import sub as clisub
    d = tempfile.mkdtemp(prefix='c18cli')
    p = os.path.join(d, 'm.py')
    with open(p, 'w') as fp:
        fp.write(src)
    argv = ['prog', p, '--no-color', '-p', pat_src, '-r', tmpl]
    if kw.get('nested'):
        argv.append('--nested')
    if 'ctx' in kw:
        argv.append('--ctx' if kw['ctx'] else '--no-ctx')
    if 'back' in kw:
        argv.append('--back' if kw['back'] else '--no-back')
    if 'count' in kw:
        argv += ['-c', str(kw['count'])]
    if 'loop' in kw and kw['loop'] is not False:
        argv += (['-l'] if kw['loop'] is True else ['-l', str(kw['loop'])])
    old = sys.argv
    sys.argv = argv
    try:
        with contextlib.redirect_stdout(io.StringIO()):
            clisub.main()
        with open(p) as fp:
            return fp.read()
    finally:
        sys.argv = old
        try:
            os.remove(p)
            os.rmdir(d)
        except OSError:
            pass


def _expected_ctx_count(src, pat_src, ctx):
    """number of nodes an AST Name pattern names, counted on the CPython tree"""
    p = ast.parse(pat_src, mode='eval').body
    if not (isinstance(p, ast.Call) and getattr(p.func, 'id', '') == 'Name' and len(p.args) == 2):
        return None
    ident = p.args[0].value
    cls = getattr(ast, p.args[1].func.id)
    n = 0
    for x in ast.walk(ast.parse(src)):
        if isinstance(x, ast.Name) and x.id == ident and (not ctx or isinstance(x.ctx, cls)):
            n += 1
    return n


def run_case(c):
    """-> dict with 'fail': (class, what) when the entry point disagrees with the core"""
    from fst import FST
    if c.get('reuse'):
        return run_reuse(c)
    name, src, path, pat, tmpl, kws = SCENARIOS[c['scenario']]
    kw = kws[c['kw']]
    params = '+'.join(sorted(kw)) or 'defaults'
    res = {'case': c, 'scenario': name, 'entry': c['entry'], 'params': params, 'kw': repr(kw)}
    try:
        core = _call_api('subn', src, path, pat, tmpl, kw)
    except Exception as e:
        core = ('EXC', type(e).__name__)
    try:
        if c['entry'] == 'cli':
            got_src = _call_cli(src, pat, tmpl, kw)
            # the cli parses the template itself (FST(repl, 'all')); the core gets the same
            try:
                core = _call_api('subn', src, path, pat, FST(tmpl, 'all'), kw)
            except Exception as e:
                core = ('EXC', type(e).__name__)
            got = (got_src, ast.dump(ast.parse(got_src)), None, [], True)
        else:
            got = _call_api(c['entry'], src, path, pat, tmpl, kw)
    except Exception as e:
        got = ('EXC', type(e).__name__)
    res['nsub'] = core[2][1] if core[0] != 'EXC' and core[2] else 0
    if core[0] == 'EXC' or got[0] == 'EXC':
        if core[:2] != got[:2]:
            res['fail'] = ('differs-from-subn', f'{c["entry"]} {got[:2]} but subn {core[:2]}')
        else:
            res['both_raise'] = core[1]
        return res
    if c['entry'] == 'cli' and (got[0] != core[0]) and ({'count', 'loop'} & set(kw)):
        # is it exactly "the --count / --loop arguments are parsed but not handed to sub()"?
        kw2 = {k: v for k, v in kw.items() if k not in ('count', 'loop')}
        try:
            core2 = _call_api('subn', src, path, pat, FST(tmpl, 'all'), kw2)
        except Exception:
            core2 = None
        if core2 and core2[0] == got[0]:
            res['fail'] = ('count-loop-not-forwarded', f'python -m fst.cli.sub with {kw} gives {got[0]!r}, the result without '
                           f'--count/--loop; subn with these arguments gives {core[0]!r}')
            return res
    if got[0] != core[0] or got[1] != core[1]:
        res['fail'] = ('differs-from-subn', f'{c["entry"]}({pat}, {tmpl!r}, {kw}) gives {got[0]!r}; subn with the same '
                       f'arguments gives {core[0]!r} {core[2]}')
    elif got[3] != core[3]:
        res['fail'] = ('differs-from-subn', f'callback_after saw {got[3]} through {c["entry"]}, {core[3]} through subn')
    elif got[2] is not None and got[2] != core[2]:
        res['fail'] = ('differs-from-subn', f'counts {got[2]} through {c["entry"]}, {core[2]} through subn')
    elif not got[4]:
        res['fail'] = ('not-self', f'{c["entry"]} did not return the node it was called on')
    elif c['entry'] == 'sub-method':
        # the core itself, where CPython alone says what is expected
        n = _expected_ctx_count(src, pat, kw.get('ctx', False))
        if n is not None and set(kw) <= {'ctx'} and core[2] != (n, n):
            res['fail'] = ('core-ctx-count', f'subn(ctx={kw.get("ctx", False)}) made {core[2]} substitutions, the program '
                           f'has {n} such names')
        for which in ('repl_options', 'copy_options'):
            if kw.get(which) == {}:
                from fst import FST as F
                explicit = dict(kw)
                explicit[which] = {'pars': F.get_option('pars')}
                try:
                    other = _call_api('subn', src, path, pat, tmpl, explicit)
                except Exception as e:
                    other = ('EXC', type(e).__name__)
                if other[:2] != core[:2]:
                    res['fail'] = ('explicit-empty-options', f'{which}={{}} gives {core[0]!r}, {which}=<the defaults> gives '
                                   f'{other[0]!r} (top-level options {kw})')
    return res


# ---------------------------------------------------------------------------------------------------------------------
# arguments are inputs: the objects the caller passes (the `asts` list, option dictionaries, the pattern, a template FST)
# are not consumed or changed by a call, so using them for a second call gives what fresh copies give

REUSE_RULES = [('MCall', 'h(__FST_)'), ('MName("a", ctx=Load)', 'z'), (CHAIN[0], CHAIN[1])]
REUSE_SRC = 'f(g(a), b)\nx = [a, h(b), c]\nk(f(a))  # tail\nv = [a, b, c, d]\n'


def reuse_cases():
    out = []
    for back in (False, True):
        for on in ('enter', 'leave'):
            for sel in ('body[1:]', 'body[:3]', 'live-body', 'body[::2]'):
                for entry in ('subn', 'sub'):
                    for nested in (False, True):
                        out.append({'reuse': True, 'back': back, 'on': on, 'sel': sel, 'entry': entry, 'nested': nested})
    return out


def _select(root, sel):
    if sel == 'live-body':
        return root.a.body                       # the tree's own field list
    return eval('root.a.' + sel, {'root': root})


def run_reuse(c):
    """two successive rewrite rules over ONE selection: the same list object for both calls vs a fresh copy per call"""
    from fst import FST
    res = {'case': c, 'scenario': 'reuse', 'entry': c['entry'], 'params': 'asts+back+on', 'kw': repr(c)}

    def run(shared):
        root = FST(REUSE_SRC, 'exec')
        sel = _select(root, c['sel'])
        before = list(sel)
        opts = {'pars': 'auto'}
        copy_o, repl_o = {}, {'pars': True}
        counts = []
        for pat_src, tmpl in REUSE_RULES[:2]:
            lst = sel if shared else list(before if c['sel'] != 'live-body' else root.a.body)
            kw = dict(nested=c['nested'], back=c['back'], on=c['on'], asts=lst, copy_options=copy_o if shared else {},
                      repl_options=repl_o if shared else {'pars': True}, **(opts if shared else {'pars': 'auto'}))
            if c['entry'] == 'subn':
                r = root.subn(_pattern(pat_src), tmpl, **kw)
                counts.append((r[1], r[2]))
            else:
                root.sub(_pattern(pat_src), tmpl, **kw)
                counts.append(None)
            if shared and c['sel'] != 'live-body' and (len(sel) != len(before) or any(x is not y for x, y in zip(sel, before))):
                return ('MUTATED', f'the list passed as asts was changed by the call: {len(before)} nodes before, {len(sel)} after')
            if shared and (copy_o != {} or repl_o != {'pars': True} or opts != {'pars': 'auto'}):
                return ('MUTATED', 'an options dictionary passed by the caller was changed by the call')
        return (root.src, ast.dump(root.a), counts, ast.dump(ast.parse(root.src)))

    try:
        fresh = run(False)
    except Exception as e:
        fresh = ('EXC', type(e).__name__)
    try:
        shared = run(True)
    except Exception as e:
        shared = ('EXC', type(e).__name__ + ': ' + str(e)[:80])
    res['nsub'] = 1
    if shared[0] == 'MUTATED':
        res['fail'] = ('argument-consumed', f'{c["entry"]}(asts={c["sel"]}, back={c["back"]}, on={c["on"]!r}): {shared[1]}')
    elif shared != fresh:
        res['fail'] = ('argument-consumed', f'two rules over one selection ({c["sel"]}, back={c["back"]}, on={c["on"]!r}) give '
                       f'{shared[0]!r} {shared[2] if len(shared) > 2 else ""} when the same list object is passed twice, '
                       f'{fresh[0]!r} {fresh[2] if len(fresh) > 2 else ""} with a fresh list per call')
    elif fresh[0] != 'EXC' and fresh[1] != fresh[3]:
        res['fail'] = ('tree-not-source', f'after {c["entry"]}(asts={c["sel"]}, back={c["back"]}) the tree is not the parse of its source')
    return res
