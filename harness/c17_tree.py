"""C17: structural matching, statelessness, layout independence and the search pre-filter (real code, model, oracles)."""

from __future__ import annotations

import ast
import random

import c17_lib as L
import corpus
from framework import pmap

# ---------------------------------------------------------------------------------------------------------------------
# helpers


def clone(a, repl=None):
    """functional copy of an AST with replacements {id(node): object}"""
    if repl and id(a) in repl:
        return repl[id(a)]
    if isinstance(a, ast.AST):
        return a.__class__(**{f: clone(getattr(a, f, None), repl) for f in a._fields})
    if isinstance(a, list):
        return [clone(x, repl) for x in a]
    return a


def pat_json(ser, a, repl=None):
    """Lean pattern of an AST used as pattern, with replacements {id(node): json pattern}"""
    if repl and id(a) in repl:
        return repl[id(a)]
    if a is None:
        return ['node', ser.NONE, []]
    if isinstance(a, list):
        return ['node', ser.LIST, [pat_json(ser, x, repl) for x in a]]
    if isinstance(a, ast.expr_context):
        return ['type', ser.num[ast.expr_context]]
    if isinstance(a, ast.AST):
        return ['node', ser.num[a.__class__], [pat_json(ser, getattr(a, f, None), repl) for f in a._fields]]
    return ['node', ser.prim(a), []]


def tname(t):
    return L.tname(t)


def env_of(m, ids):
    """FSTMatch -> canonical [[name, val]] like Drv.C17.envJson"""
    if m is None:
        return None
    out = []
    for k, v in m.tags.items():
        t = int(k[1:])
        if isinstance(v, list) and not v:
            out.append([t, ['e']])
        elif isinstance(v, bool) or isinstance(v, int):
            out.append([t, ['s', int(v)]])
        else:
            a = getattr(v, 'a', v)
            out.append([t, ['n', ids[id(a)]]])
    out.sort()
    return out


_CONST_SWAPS = [(1, True), (True, 1), (0, False), (1, 1.0), (1.0, 1), (1.0, 1 + 0j), (0, 0.0), ('a', b'a'), (b'a', 'a')]


def leaf_mutants(a, rng, limit=12):
    """[(kind, node, field, new value)]: one primitive leaf (or operator class) of the tree changed"""
    sites = []
    for n in ast.walk(a):
        for f in n._fields:
            v = getattr(n, f, None)
            if isinstance(v, ast.expr_context) or f in ('ctx',):
                continue
            if isinstance(v, str):
                sites.append(('str', n, f, v + '_' if rng.random() < 0.7 else v[:-1] or 'q'))
                if isinstance(n, ast.Constant):
                    sites.append(('const-type', n, f, v.encode()))
            elif isinstance(v, bool):
                sites.append(('const', n, f, not v))
                sites.append(('const-type', n, f, int(v)))
            elif isinstance(v, int) and isinstance(n, ast.Constant):
                sites.append(('const', n, f, v + 1))
                sites.append(('const-type', n, f, float(v)))
                if v in (0, 1):
                    sites.append(('const-type', n, f, bool(v)))
            elif isinstance(v, float):
                sites.append(('const', n, f, v + 1.0))
                if v == int(v):
                    sites.append(('const-type', n, f, int(v)))
                sites.append(('const-type', n, f, complex(v)))
            elif isinstance(v, bytes):
                sites.append(('const', n, f, v + b'x'))
            elif isinstance(v, int) and f in ('level', 'conversion', 'is_async', 'simple'):
                sites.append(('int-field', n, f, v + 1))
            elif isinstance(v, (ast.operator, ast.unaryop, ast.cmpop, ast.boolop)):
                base = v.__class__.__mro__[1]
                others = [c for c in base.__subclasses__() if c is not v.__class__]
                sites.append(('op', n, f, rng.choice(others)()))
            elif v is None and f in ('kind', 'type_comment'):
                sites.append(('none-to-str', n, f, 'u'))
            elif isinstance(v, list):
                for i, x in enumerate(v):
                    if isinstance(x, (ast.cmpop,)):
                        others = [c for c in ast.cmpop.__subclasses__() if c is not x.__class__]
                        sites.append(('op', n, (f, i), rng.choice(others)()))
                    elif isinstance(x, str):
                        sites.append(('str', n, (f, i), x + '_'))
    rng.shuffle(sites)
    # keep a spread of kinds
    out, seen = [], {}
    for s in sites:
        if seen.get(s[0], 0) < 3:
            seen[s[0]] = seen.get(s[0], 0) + 1
            out.append(s)
        if len(out) >= limit:
            break
    return out


def apply_leaf(a, site):
    """copy of `a` with the leaf changed"""
    _, n, f, new = site
    if isinstance(f, tuple):
        fld, i = f
        lst = list(getattr(n, fld))
        lst[i] = new
        n2 = n.__class__(**{g: (lst if g == fld else clone(getattr(n, g, None))) for g in n._fields})
    else:
        n2 = n.__class__(**{g: (new if g == f else clone(getattr(n, g, None))) for g in n._fields})
    return clone(a, {id(n): n2}), n2


def leaf_pat_json(ser, a, site):
    _, n, f, new = site
    kids = []
    for g in n._fields:
        v = getattr(n, g, None)
        if isinstance(f, tuple) and g == f[0]:
            lst = list(v)
            lst[f[1]] = new
            kids.append(pat_json(ser, lst))
        elif g == f:
            kids.append(pat_json(ser, new))
        else:
            kids.append(pat_json(ser, v))
    return pat_json(ser, a, {id(n): ['node', ser.num[n.__class__], kids]})


# ---------------------------------------------------------------------------------------------------------------------
# decorated patterns (tag algebra); each returns (real object, json pattern, expected env or None)

def decorations(ser, n, nid, rng):
    from fst import match as M
    other = ast.Starred if not isinstance(n, ast.Starred) else ast.Pass
    ko = ser.num[other]
    P = pat_json(ser, n)
    orig = lambda: clone(n)           # noqa: E731
    node = ['n', nid]
    k = ser.num[n.__class__]
    base = n.__class__.__mro__[1] if n.__class__.__mro__[1] is not ast.AST else n.__class__
    out = [
        ('M-tag', M.M(**{tname(0): orig()}), ['m', P, 0, []], [[0, node]]),
        ('M-static', M.M(orig(), **{tname(1): 5}), ['m', P, None, [[1, 5]]], [[1, ['s', 5]]]),
        ('M-override', M.M(M.M(**{tname(0): orig(), tname(1): 1}), **{tname(1): 2}),
         ['m', ['m', P, 0, [[1, 1]]], None, [[1, 2]]], [[0, node], [1, ['s', 2]]]),
        ('M-tag-vs-static', M.M(**{tname(0): orig(), tname(2): 9}), ['m', P, 0, [[2, 9]]], [[0, node], [2, ['s', 9]]]),
        ('MOR-second', M.MOR(other, **{tname(1): orig()}), ['mor', [[None, ['type', ko]], [1, P]]], [[1, node]]),
        ('MOR-first', M.MOR(M.M(orig(), **{tname(2): 3}), **{tname(1): ...}),
         ['mor', [[None, ['m', P, None, [[2, 3]]]], [1, ['wild']]]], [[2, ['s', 3]]]),
        ('MAND-tags', M.MAND(orig(), **{tname(0): ...}), ['mand', [[None, P], [0, ['wild']]]], [[0, node]]),
        ('MAND-override', M.MAND(M.M(..., **{tname(1): 1}), M.M(orig(), **{tname(1): 2})),
         ['mand', [[None, ['m', ['wild'], None, [[1, 1]]]], [None, ['m', P, None, [[1, 2]]]]]], [[1, ['s', 2]]]),
        # captures made INSIDE a keyword member are kept next to the member tag, and can be back-referenced afterwards
        ('MAND-tagged-inner-capture', M.MAND(**{tname(1): M.M(**{tname(0): orig(), tname(5): 7})}),
         ['mand', [[1, ['m', P, 0, [[5, 7]]]]]], [[0, node], [1, node], [5, ['s', 7]]]),
        ('MAND-backref-into-tagged', M.MAND(**{tname(1): M.M(**{tname(0): ...}), tname(2): M.MTAG(tname(0))}),
         ['mand', [[1, ['m', ['wild'], 0, []]], [2, ['ref', 0]]]], [[0, node], [1, node], [2, node]]),
        ('MAND-anon-then-tagged-inner', M.MAND(M.M(orig(), **{tname(5): 1}), **{tname(1): M.MOR(other, **{tname(0): ...})}),
         ['mand', [[None, ['m', P, None, [[5, 1]]]], [1, ['mor', [[None, ['type', ko]], [0, ['wild']]]]]]], [[0, node], [1, node], [5, ['s', 1]]]),
        ('MOR-tagged-inner-capture', M.MOR(other, **{tname(1): M.M(**{tname(0): orig()})}),
         ['mor', [[None, ['type', ko]], [1, ['m', P, 0, []]]]], [[0, node], [1, node]]),
        ('MMAYBE-tagged-inner-capture', M.MMAYBE(**{tname(1): M.M(**{tname(0): orig(), tname(5): 2})}),
         ['mmaybe', ['m', P, 0, [[5, 2]]], 1, []], [[0, node], [1, node], [5, ['s', 2]]]),
        ('M-tagged-inner-capture', M.M(**{tname(1): M.MAND(**{tname(0): orig()})}),
         ['m', ['mand', [[0, P]]], 1, []], [[0, node], [1, node]]),
        # an alternative that fails because the node has no such field (arbitrary-field MAST patterns) must leave no trace
        ('MAND-over-MOR-missing-field', M.MAND(M.MOR(M.MAST(zz_no_such_field=M.M(**{tname(3): ...})), **{tname(1): orig()}), **{tname(0): ...}),
         ['mand', [[None, ['mor', [[None, ['node', 999999, []]], [1, P]]]], [0, ['wild']]]], [[0, node], [1, node]]),
        ('M-over-MOR-missing-field', M.M(M.MOR(M.Mexpr(zz_no_such_field=1), M.Mstmt(zz_no_such_field=1), **{tname(1): orig()}), **{tname(5): 4}),
         ['m', ['mor', [[None, ['node', 999999, []]], [None, ['node', 999999, []]], [1, P]]], None, [[5, 4]]], [[1, node], [5, ['s', 4]]]),
        ('MAND-MNOT-missing-field', M.MAND(M.MNOT(M.MAST(zz_no_such_field=1), **{tname(2): 6}), M.M(**{tname(0): orig()})),
         ['mand', [[None, ['mnot', ['node', 999999, []], None, [[2, 6]]]], [None, ['m', P, 0, []]]]], [[0, node], [2, ['s', 6]]]),
        ('MAND-fail', M.MAND(orig(), other), ['mand', [[None, P], [None, ['type', ko]]]], None),
        ('MNOT-other', M.MNOT(**{tname(2): other, tname(3): 7}), ['mnot', ['type', ko], 2, [[3, 7]]], [[2, node], [3, ['s', 7]]]),
        ('MNOT-self', M.MNOT(orig()), ['mnot', P, None, []], None),
        ('MNOT-drops-tags', M.MNOT(M.MNOT(**{tname(0): other}), **{tname(1): 1}), ['mnot', ['mnot', ['type', ko], 0, []], None, [[1, 1]]], None),
        ('type-leaf', n.__class__, ['type', k], []),
        ('type-base', base, ['type', ser.num[base]], []),
        ('MTYPES', M.MTYPES((other, n.__class__)), ['types', [ko, k]], []),
        ('MTYPES-tag', M.MTYPES(**{tname(0): (n.__class__,)}), ['m', ['types', [k]], 0, []], [[0, node]]),
        ('MMAYBE-node', M.MMAYBE(**{tname(0): orig()}), ['mmaybe', P, 0, []], [[0, node]]),
        ('MTAG-unset', M.MTAG(tname(0)), ['ref', 0], None),
        ('MAND-backref', M.MAND(M.M(**{tname(0): ...}), M.MTAG(tname(0))), ['mand', [[None, ['m', ['wild'], 0, []]], [None, ['ref', 0]]]],
         [[0, node]]),
    ]
    # the SAME tag name bound deeper in the sub-pattern and by the enclosing combinator: the enclosing binding wins
    # (`{**m, pat_tag: tgt}`), for every tagging combinator alike
    out += [
        ('MOR-same-tag-static', M.MOR(other, **{tname(0): M.M(orig(), **{tname(0): 5})}),
         ['mor', [[None, ['type', ko]], [0, ['m', P, None, [[0, 5]]]]]], [[0, node]]),
        ('MAND-same-tag-static', M.MAND(**{tname(0): M.M(orig(), **{tname(0): 5})}), ['mand', [[0, ['m', P, None, [[0, 5]]]]]], [[0, node]]),
        ('M-same-tag-static', M.M(**{tname(0): M.M(orig(), **{tname(0): 5})}), ['m', ['m', P, None, [[0, 5]]], 0, []], [[0, node]]),
    ]
    child = None
    for f in n._fields:
        v = getattr(n, f, None)
        if isinstance(v, list) and v and isinstance(v[0], ast.AST):
            v = v[0]
        if isinstance(v, ast.AST) and not isinstance(v, (ast.expr_context, ast.operator, ast.unaryop, ast.cmpop, ast.boolop)):
            child = v
            break
    if child is not None:
        inner = lambda: clone(n, {id(child): M.M(**{tname(0): clone(child)})})       # noqa: E731
        J = pat_json(ser, n, {id(child): ['m', pat_json(ser, child), 0, []]})
        out += [
            ('inner-child-capture', inner(), J, [[0, ['n', ser.ids[id(child)]]]]),
            ('M-same-tag-as-child', M.M(**{tname(0): inner()}), ['m', J, 0, []], [[0, node]]),
            ('MOR-same-tag-as-child', M.MOR(other, **{tname(0): inner()}), ['mor', [[None, ['type', ko]], [0, J]]], [[0, node]]),
            ('MOR-first-same-tag-as-child', M.MOR(**{tname(0): inner(), tname(1): ...}), ['mor', [[0, J], [1, ['wild']]]], [[0, node]]),
            ('MAND-same-tag-as-child', M.MAND(**{tname(0): inner()}), ['mand', [[0, J]]], [[0, node]]),
            ('MMAYBE-same-tag-as-child', M.MMAYBE(**{tname(0): inner()}), ['mmaybe', J, 0, []], [[0, node]]),
            ('MAND-later-member-rebinds', M.MAND(inner(), **{tname(0): ...}), ['mand', [[None, J], [0, ['wild']]]], [[0, node]]),
        ]
    return out


# ---------------------------------------------------------------------------------------------------------------------
# per-program worker

def _tree_case(arg):
    """-> dict with model cases, real outputs and oracle verdicts for one program"""
    src, seed, quick = arg
    rng = random.Random(seed)
    from fst import FST
    from fst.match import M_Pattern
    res = {'src': src, 'items': [], 'invariance': [], 'stateless': []}
    try:
        root = FST(src, 'exec')
    except Exception:           # noqa: BLE001
        return res
    a = root.a
    ser = L.TreeSer()
    tree = ser.tree(a)
    ids = dict(ser.ids)

    def run(pat, tgt, idmap):
        try:
            m = pat.match(tgt) if isinstance(pat, M_Pattern) else _match_any(pat, tgt)
        except Exception as e:      # noqa: BLE001
            return {'exc': type(e).__name__ + ': ' + str(e)[:80]}
        return env_of(m, idmap)

    # 1. self pattern, leaf mutants (whole module and a few statements / expressions)
    self_pat = clone(a)
    items = [('self', self_pat, pat_json(ser, a), [], a, root)]
    # the same pattern from an INDEPENDENT parse: equal but not identical leaf objects (bytes, big ints, floats, ...)
    items.append(('self:independent-parse', ast.parse(src), pat_json(ser, a), [], a, root))
    for site in leaf_mutants(a, rng, 8 if quick else 16):
        mut, _ = apply_leaf(a, site)
        if ast.dump(mut) == ast.dump(a):
            continue
        items.append(('mutant:' + site[0], mut, leaf_pat_json(ser, a, site), None, a, root))
    # 2. decorated patterns at random nodes, embedded in the self pattern of the enclosing statement / module
    # (CPython shares one instance per operator / context class in a parsed tree: such nodes have no identity there)
    shared = (ast.expr_context, ast.operator, ast.unaryop, ast.cmpop, ast.boolop, ast.Module)
    nodes = [n for n in ast.walk(a) if not isinstance(n, shared) and id(n) in ids]
    rng.shuffle(nodes)
    for n in nodes[:3 if quick else 8]:
        decs = decorations(ser, n, ids[id(n)], rng)
        rng.shuffle(decs)
        for name, obj, pj, want in decs[:6 if quick else len(decs)]:
            if rng.random() < 0.5:
                # stand-alone: match the node itself
                items.append(('dec:' + name, obj, pj, want, n, n.f))
            else:
                whole = clone(a, {id(n): obj})
                items.append(('dec-in-tree:' + name, whole, pat_json(ser, a, {id(n): pj}), want, a, root))
    # MMAYBE on a None field and a back-reference between sibling fields
    for n in nodes:
        if isinstance(n, ast.Return) and n.value is None:
            from fst import match as M
            items.append(('dec:MMAYBE-none', M.MReturn(value=M.MMAYBE(**{tname(0): ast.Name})),
                          ['node', ser.num[ast.Return], [['mmaybe', ['type', ser.num[ast.Name]], 0, []]]], [[0, ['e']]], n, n.f))
            break
    for n in nodes:
        if isinstance(n, ast.BinOp):
            from fst import match as M
            same = ast.dump(n.left) == ast.dump(n.right)
            items.append(('dec:MTAG-fields', M.MBinOp(left=M.M(**{tname(0): ...}), right=M.MTAG(tname(0))),
                          ['node', ser.num[ast.BinOp], [['m', ['wild'], 0, []], ['wild'], ['ref', 0]]],
                          [[0, ['n', ids[id(n.left)]]]] if same else None, n, n.f))
            break
    # layout variants of the same program
    lay_src = corpus.mutate_layout(src, rng, 0.4)
    try:
        lay_root = FST(lay_src, 'exec') if lay_src != src else None
    except Exception:       # noqa: BLE001
        lay_root = None
    pure = ast.parse(src)

    def twin_ids(other_root):
        s2 = L.TreeSer()
        s2.tree(other_root)
        return s2.ids

    pure_ids = twin_ids(pure)
    lay_ids = twin_ids(lay_root.a) if lay_root is not None else None

    def twin(node, other_root, other_ids):
        want = ids[id(node)]
        for m in ast.walk(other_root):
            if other_ids.get(id(m)) == want:
                return m
        return None

    import c17_pure
    dumps0 = [c17_pure.dump(it[1]) for it in items]
    mod0 = c17_pure.module_state()
    for name, obj, pj, want, tnode, tfst in items:
        sub = tree if tnode is a else _subtree(tree, ids[id(tnode)])
        got = run(obj, tfst, ids)
        it = {'name': name, 'case': {'f': 'C17.tree', 'p': pj, 't': sub}, 'real': got, 'want': want,
              'node': tnode.__class__.__name__}
        # layout / pure-AST invariance on the same pattern object
        inv = {}
        t2 = twin(tnode, pure, pure_ids)
        if t2 is not None:
            inv['pure'] = run(obj, t2, pure_ids)
        if lay_root is not None:
            t3 = twin(tnode, lay_root.a, lay_ids)
            if t3 is not None:
                inv['layout'] = run(obj, t3.f, lay_ids)
        it['inv'] = inv
        # statelessness: the same call again after all the others
        res['items'].append(it)
    order = list(range(len(items)))
    rng.shuffle(order)
    for i in order:
        name, obj, pj, want, tnode, tfst = items[i]
        again = run(obj, tfst, ids)
        if again != res['items'][i]['real']:
            res['stateless'].append({'name': name, 'first': res['items'][i]['real'], 'again': again})
    res['mutated'] = []
    for it, d0 in zip(items, dumps0):
        d = c17_pure.first_diff(d0, c17_pure.dump(it[1]))
        if d:
            res['mutated'].append({'name': it[0], 'diff': d})
    d = c17_pure.first_diff(mod0, c17_pure.module_state())
    if d:
        res['mutated'].append({'name': 'module:shared-container', 'diff': d})
    return res


def _match_any(pat, tgt):
    """match with a pattern that is not an M_Pattern (AST instance, class)"""
    from fst import FST
    from fst.match import M
    if isinstance(tgt, FST):
        return tgt.match(pat)
    return M(pat).match(tgt)


def _subtree(tree, i):
    st = [tree]
    while st:
        t = st.pop()
        if t[0] == i:
            return t
        st.extend(t[2])
    raise KeyError(i)


def _programs(ctx, n):
    rng = random.Random(ctx.rng.random())
    return corpus.programs(rng, n, stdlib=0, maxdepth=2)


def _tree_runs(ctx):
    if getattr(ctx, '_c17_tree', None) is None:
        progs = _programs(ctx, 120 if ctx.quick else 1200)
        res = pmap(_tree_case, [(p, ctx.rng.randrange(1 << 30), ctx.quick) for p in progs])
        ctx._c17_tree = res
    return ctx._c17_tree


# ---------------------------------------------------------------------------------------------------------------------
# search / pre-filter

def _cb_is_name_or_const(f):
    a = getattr(f, 'a', f)
    return isinstance(a, (ast.Name, ast.Constant))


def bases(ser):
    """{name: (class, real factory, json | None)}; class in exact | field | instance | ctxinst | opaque.
    json None = not modelled (checked against the walk oracle only)."""
    import re as _re
    from fst import match as M
    n = ser.num
    P = ser.prim
    ectx = ['type', n[ast.expr_context]]
    return {
        # decided by the node type alone
        '...': ('exact', lambda: ..., ['wild']),
        'Name': ('exact', lambda: ast.Name, ['type', n[ast.Name]]),
        'expr': ('exact', lambda: ast.expr, ['type', n[ast.expr]]),
        'stmt': ('exact', lambda: ast.stmt, ['type', n[ast.stmt]]),
        'expr_context': ('exact', lambda: ast.expr_context, ['type', n[ast.expr_context]]),
        'MConstant': ('exact', lambda: M.MConstant, ['type', n[ast.Constant]]),
        'MTYPES(Name,Call)': ('exact', lambda: M.MTYPES((ast.Name, ast.Call)), ['types', [n[ast.Name], n[ast.Call]]]),
        'MTYPES(expr_context,operator)': ('exact', lambda: M.MTYPES((ast.expr_context, ast.operator)),
                                          ['types', [n[ast.expr_context], n[ast.operator]]]),
        'MTYPES(MName)': ('exact', lambda: M.MTYPES((M.MName,)), ['types', [n[ast.Name]]]),
        # type plus field constraints
        'MName(x)': ('field', lambda: M.MName('x'), ['node', n[ast.Name], [['node', P('x'), []], ['wild']]]),
        'MName(a)': ('field', lambda: M.MName(id='a'), ['node', n[ast.Name], [['node', P('a'), []], ['wild']]]),
        'MConstant(1)': ('field', lambda: M.MConstant(1), ['node', n[ast.Constant], [['node', P(1), []], ['wild']]]),
        'MBinOp(op=Add)': ('field', lambda: M.MBinOp(op=ast.Add), ['node', n[ast.BinOp], [['wild'], ['type', n[ast.Add]], ['wild']]]),
        'MReturn(None)': ('field', lambda: M.MReturn(value=None), ['node', n[ast.Return], [['node', ser.NONE, []]]]),
        'MExpr(Call)': ('field', lambda: M.MExpr(value=ast.Call), ['node', n[ast.Expr], [['type', n[ast.Call]]]]),
        'MTYPES(Name;id=x)': ('field', lambda: M.MTYPES((ast.Name,), id='x'),
                              ['typesF', [n[ast.Name]], n[ast.Name], [['node', P('x'), []], ['wild']]]),
        'MTYPES(Name,Constant;id=a)': ('field', lambda: M.MTYPES((ast.Name, ast.Constant), id='a'),
                                       ['typesF', [n[ast.Name], n[ast.Constant]], n[ast.Name], [['node', P('a'), []], ['wild']]]),
        'MTYPES(expr;value=1)': ('field', lambda: M.MTYPES((ast.expr,), value=1, kind=...),
                                 ['typesF', [n[ast.expr]], n[ast.Constant], [['node', P(1), []], ['wild']]]),
        # AST instances
        'Name(a)': ('instance', lambda: ast.Name(id='a', ctx=ast.Load()), ['node', n[ast.Name], [['node', P('a'), []], ectx]]),
        'Constant(1)': ('instance', lambda: ast.Constant(value=1), ['node', n[ast.Constant], [['node', P(1), []], ['node', ser.NONE, []]]]),
        'Pass()': ('instance', lambda: ast.Pass(), ['node', n[ast.Pass], []]),
        'Add()': ('instance', lambda: ast.Add(), ['node', n[ast.Add], []]),
        'Load()': ('ctxinst', lambda: ast.Load(), ['ctx']),
        'Store()': ('ctxinst', lambda: ast.Store(), ['ctx']),
        'Del()': ('ctxinst', lambda: ast.Del(), ['ctx']),
        # not modelled: source text / callback
        "'a'": ('opaque', lambda: 'a', None),
        're(a|x)': ('opaque', lambda: _re.compile('a|x'), None),
        'MRE(^[ab]$)': ('opaque', lambda: M.MRE('^[ab]$'), None),
        'MCB(Name|Constant)': ('opaque', lambda: M.MCB(_cb_is_name_or_const), None),
    }


UNARY = ['M', 'Mt', 'MNOT', 'MNOTt', 'MMAYBE', 'SELFREF']
BINARY = ['MOR', 'MAND', 'MORt', 'MANDt']


def _build(spec, B):
    """spec -> (real pattern, json | None, flags).  spec: ['base', name] | [unary, spec] | [binary, spec, spec] | ['MTAG']"""
    from fst import match as M
    op = spec[0]
    if op == 'base':
        cls, mk, js = B[spec[1]]
        return mk(), js, ({'ctxinst'} if cls == 'ctxinst' else set())
    if op == 'MTAG':
        return M.MTAG(tname(0)), ['ref', 0], set()
    if op in UNARY:
        r, j, fl = build(spec[1], B)
        if op == 'M':
            return M.M(r), j and ['m', j, None, []], fl
        if op == 'Mt':
            return M.M(**{tname(0): r, tname(1): 3}), j and ['m', j, 0, [[1, 3]]], fl
        if op == 'MNOT':
            return M.MNOT(r), j and ['mnot', j, None, []], set()       # MNOT of a non-type pattern: every node type
        if op == 'MNOTt':
            return M.MNOT(**{tname(2): r}), j and ['mnot', j, 2, []], set()
        if op == 'MMAYBE':
            return M.MMAYBE(r), j and ['mmaybe', j, None, []], set()
        if op == 'SELFREF':
            return (M.MAND(M.M(**{tname(0): r}), M.MTAG(tname(0))),
                    j and ['mand', [[None, ['m', j, 0, []]], [None, ['ref', 0]]]], fl)
    if op in BINARY:
        r1, j1, f1 = build(spec[1], B)
        r2, j2, f2 = build(spec[2], B)
        jj = bool(j1) and bool(j2)
        if op == 'MOR':
            return M.MOR(r1, r2), jj and ['mor', [[None, j1], [None, j2]]], f1 | f2
        if op == 'MORt':
            return M.MOR(r1, **{tname(1): r2}), jj and ['mor', [[None, j1], [1, j2]]], f1 | f2
        if op == 'MAND':
            return M.MAND(r1, r2), jj and ['mand', [[None, j1], [None, j2]]], f1 | f2
        if op == 'MANDt':
            return M.MAND(r1, **{tname(1): r2}), jj and ['mand', [[None, j1], [1, j2]]], f1 | f2
    raise ValueError(spec)


def build(spec, B):    # noqa: F811
    r, j, fl = _build(spec, B)
    return r, (j or None), fl


def spec_name(spec):
    if spec[0] == 'base':
        return spec[1]
    if spec[0] == 'MTAG':
        return 'MTAG'
    return spec[0] + '(' + ','.join(spec_name(x) for x in spec[1:]) + ')'


def gen_specs(B, rng, n2, n3):
    """every base, every unary combinator over every base (deterministic), sampled binary combinations and
    two-level nestings"""
    names = list(B)
    out = [['base', nm] for nm in names] + [['MTAG']]
    lvl1 = [[u, ['base', nm]] for u in UNARY for nm in names]
    out += lvl1

    def rbase():
        return ['base', rng.choice(names)]

    def rl1():
        c = rng.random()
        if c < 0.6:
            return [rng.choice(UNARY), rbase()]
        return [rng.choice(BINARY), rbase(), rbase()]

    for _ in range(n2):
        out.append([rng.choice(BINARY), rbase(), rbase()])
    for _ in range(n3):
        c = rng.random()
        if c < 0.5:
            out.append([rng.choice(UNARY), rl1()])
        elif c < 0.75:
            out.append([rng.choice(BINARY), rl1(), rbase()])
        else:
            out.append([rng.choice(BINARY), rbase(), rl1()])
    return out


def real_leaf(pat, ser):
    from fst import match as MM
    la = MM._LEAF_ASTS_FUNCS.get(pat.__class__, MM._leaf_asts_default)(pat)
    if la is None:
        return None
    return sorted(ser.num[c] for c in la if c in ser.num)


def _run_search(root, ids, walk, real):
    found = [ids[id(m.matched.a)] for m in root.search(real)]
    want = [ids[id(g.a)] for g in walk if _m(real, g) is not None]
    return found, want


def _search_case(arg):
    src, seed, quick = arg
    rng = random.Random(seed)
    from fst import FST
    out = []
    try:
        root = FST(src, 'exec')
    except Exception:       # noqa: BLE001
        return out
    ser = L.TreeSer()
    tree = ser.tree(root.a)
    ids = ser.ids
    kinds = {ids[id(g.a)]: g.a.__class__ for g in root.walk(True)}
    walk = list(root.walk(True))
    B = bases(ser)
    import c17_pure
    for spec in gen_specs(B, rng, 10 if quick else 25, 25 if quick else 60):
        name = spec_name(spec)
        real, js, flags = build(spec, B)
        d0 = c17_pure.dump(real)
        try:
            found, want = L.call_with_timeout(30, _run_search, root, ids, walk, real)
        except L.Timeout as e:
            out.append({'name': name, 'spec': spec, 'exc': 'does-not-terminate: ' + str(e), 'src': src})
            return out
        except Exception as e:      # noqa: BLE001
            out.append({'name': name, 'spec': spec, 'exc': type(e).__name__ + ': ' + str(e)[:100], 'src': src})
            continue
        missing = [x for x in want if x not in found]
        item = {'name': name, 'spec': spec, 'found': found, 'want': want, 'src': src, 'leaf': real_leaf(real, ser),
                'ctxinst': 'ctxinst' in flags, 'missing_all_ctx': all(issubclass(kinds[x], ast.expr_context) for x in missing)}
        d = c17_pure.first_diff(d0, c17_pure.dump(real))
        if d:
            item['mutated'] = d
        if js:
            item['case'] = {'f': 'C17.search', 'p': js, 't': tree}
        out.append(item)
    return out


def _m(pat, g):
    try:
        return g.match(pat)
    except Exception:       # noqa: BLE001
        return None


def _search_runs(ctx):
    if getattr(ctx, '_c17_search', None) is None:
        progs = _programs(ctx, 60 if ctx.quick else 200)
        res = pmap(_search_case, [(p, ctx.rng.randrange(1 << 30), ctx.quick) for p in progs])
        ctx._c17_search = [it for lst in res for it in lst]
    return ctx._c17_search


# ---------------------------------------------------------------------------------------------------------------------

def correspondence(ctx):
    # structural
    name = 'match(pattern, tree) vs Pfst.Match.matchNode'
    res = _tree_runs(ctx)
    items = [it for r in res for it in r['items']]
    cases = [it['case'] for it in items]
    try:
        outs = ctx.lean(cases)
    except Exception as e:      # noqa: BLE001
        ctx.brk('correspondence', name, f'driver error: {e}')
        outs = None
    if outs is not None:
        bad = 0
        for it, mo in zip(items, outs):
            m = mo.get('out', mo)
            mm = m.get('m', 'ERR') if isinstance(m, dict) else 'ERR'
            ctx.corr_cases += 1
            ctx.count(('T', it['name'], it['case']['p']), it['real'] is not None or it['name'].startswith('mutant'))
            ctx.tally('tree_item', it['name'])
            if mm != it['real']:
                bad += 1
                if len(ctx.corr_disagreements) < 20:
                    ctx.corr_disagreements.append({'corr': name, 'item': it['name'], 'node': it['node'], 'impl': it['real'], 'model': mm,
                                                   'pattern': str(it['case']['p'])[:300]})
                ctx.hints.append((name, it['name']))
        ctx.dist.setdefault('correspondence_cases', {})[name] = len(items)
        if items:
            ctx.sample({'corr': name, 'item': items[-1]['name'], 'pattern': str(items[-1]['case']['p'])[:200], 'impl': items[-1]['real']})
        if bad:
            ctx.brk('correspondence', name, f'{bad}/{len(items)} cases differ; first: ' + str(ctx.corr_disagreements[0])[:1500])
    # search / pre-filter
    name = 'search(pattern) / _leaf_asts vs Pfst.Match.search / leafAsts'
    sr = [it for it in _search_runs(ctx) if 'case' in it]
    try:
        outs = ctx.lean([it['case'] for it in sr])
    except Exception as e:      # noqa: BLE001
        ctx.brk('correspondence', name, f'driver error: {e}')
        return
    bad = 0
    first = None
    for it, mo in zip(sr, outs):
        m = mo.get('out', mo)
        ctx.corr_cases += 1
        ctx.count(('S', it['name'], it['src']), bool(it['want']))
        ok = (isinstance(m, dict) and sorted(m.get('found', ['x'])) == sorted(it['found'])
              and sorted(m.get('walk', ['x'])) == sorted(it['want']) and m.get('leaf', 'x') == it['leaf'])
        if not ok:
            bad += 1
            dis = {'corr': name, 'pattern': it['name'], 'src': it['src'][:300],
                   'impl': {'found': it['found'], 'walk': it['want'], 'leaf': it['leaf']},
                   'model': m if not isinstance(m, dict) else {k: m.get(k) for k in ('found', 'walk', 'leaf')}}
            first = first or dis
            if len(ctx.corr_disagreements) < 20:
                ctx.corr_disagreements.append(dis)
            ctx.hints.append((name, it['name']))
    ctx.dist.setdefault('correspondence_cases', {})[name] = len(sr)
    if bad:
        ctx.brk('correspondence', name, f'{bad}/{len(sr)} cases differ; first: ' + str(first)[:1500])
    ctx._c17_search_model = {id(it): mo.get('out', mo) for it, mo in zip(sr, outs)}


def _top(name):
    return name.split('(')[0] if '(' in name else 'base'


def sweep(ctx):
    # structural oracle: the expected result is known by construction
    for r in _tree_runs(ctx):
        for it in r['items']:
            ctx.count(None)
            nm = it['name']
            real, want = it['real'], it['want']
            kind = nm.split(':')[0]
            what = nm.split(':')[1] if ':' in nm else nm
            if isinstance(real, dict):
                ctx.fail(f'C17|structural|{what}|raised', f'{nm} on {it["node"]}: {real}', {'kind': 'tree', 'src': r['src'], 'item': nm})
            elif real != want:
                cls = ('own-pattern-rejected' if kind == 'self' else 'single-leaf-mutant-accepted' if kind == 'mutant'
                       else 'wrong-reject' if real is None else 'wrong-accept' if want is None else 'wrong-tags')
                ctx.fail(f'C17|structural|{what}|{cls}', f'{nm} on {it["node"]}: got {real}, expected {want}',
                         {'kind': 'tree', 'src': r['src'], 'item': nm})
            for k, v in it['inv'].items():
                ctx.tally('invariance', k)
                if v != real:
                    ctx.fail(f'C17|structural|{what}|differs-on-{k}', f'{nm} on {it["node"]}: formatted tree gives {real}, {k} gives {v}',
                             {'kind': 'tree', 'src': r['src'], 'item': nm})
        for mu in r.get('mutated', []):
            ctx.fail(f'C17|pattern-purity|{mu["name"].split(":")[-1]}|pattern-object-mutated',
                     f'{mu["name"]}: a match call changed the pattern object: {mu["diff"]}', {'kind': 'tree', 'src': r['src'], 'item': mu['name']})
        for s in r['stateless']:
            ctx.fail(f'C17|statelessness|{s["name"].split(":")[-1]}|result-depends-on-call-history',
                     f'{s["name"]}: first call {s["first"]}, later call {s["again"]}', {'kind': 'tree', 'src': r['src'], 'item': s['name']})
    # search == filtered walk, in walk order
    model = getattr(ctx, '_c17_search_model', {})
    seen = {}
    for it in _search_runs(ctx):
        ctx.count(None)
        if 'exc' in it:
            ctx.fail(f'C17|search|{_top(it["name"])}|raised', f'search({it["name"]}) raised {it["exc"]}',
                     {'kind': 'search', 'src': it['src'], 'spec': it['spec'], 'pattern': it['name']})
            continue
        ctx.tally('search_pattern', _top(it['name']))
        if it.get('mutated'):
            ctx.fail(f'C17|pattern-purity|search-{_top(it["name"])}|pattern-object-mutated',
                     f'search({it["name"]}) changed the pattern object: {it["mutated"]}',
                     {'kind': 'search', 'src': it['src'], 'spec': it['spec'], 'pattern': it['name']})
        if it['found'] == it['want']:
            continue
        missing = [x for x in it['want'] if x not in it['found']]
        extra = [x for x in it['found'] if x not in it['want']]
        mo = model.get(id(it))
        explained = isinstance(mo, dict) and sorted(mo.get('found', ['x'])) == sorted(it['found'])
        if missing and not extra:
            if it.get('ctxinst') and it.get('missing_all_ctx'):
                culprit = 'expr_context-instance'      # C17-F6
            else:
                culprit = _top(it['name'])
            sig = f'C17|search-prefilter|{culprit}|missed-node'
        elif extra:
            sig = f'C17|search|{_top(it["name"])}|extra-node'
        else:
            sig = f'C17|search|{_top(it["name"])}|wrong-order'
        if 'case' in it and not explained:
            sig += '|unexplained'
        seen[sig] = seen.get(sig, 0) + 1
        if seen[sig] <= 3:
            ctx.fail(sig, f'search({it["name"]}) yields nodes {it["found"]}, walk filtered by match gives {it["want"]}',
                     {'kind': 'search', 'src': it['src'], 'spec': it['spec'], 'pattern': it['name']})
    ctx.notes['search_failures_by_signature'] = seen
    _unsound_table_entries(ctx)
    _nfkc(ctx)


NFKC_CASES = [
    ('Global', 'def f():\n    global \u210c, a\n'),
    ('Nonlocal', 'def f():\n    \u210c = 1\n    def g():\n        nonlocal \u210c\n'),
    ('Name', '\u210c = \ufb01'),
    ('arg', 'def f(\u210c, *\ufb01, **\u00b5): pass'),
    ('Attribute', 'a.\u210c'),
    ('FunctionDef', 'def \u210c(): pass'),
    ('ClassDef', 'class \u210c: pass'),
    ('alias', 'import \u210c as \ufb01'),
    ('ImportFrom', 'from \u210c import \ufb01'),
    ('keyword', 'f(\u210c=1)'),
    ('MatchClass', 'match x:\n    case C(\u210c=1): pass\n'),
    ('MatchAs', 'match x:\n    case \u210c: pass\n'),
    ('MatchStar', 'match x:\n    case [*\u210c]: pass\n'),
    ('MatchMapping', 'match x:\n    case {**\u210c}: pass\n'),
    ('ExceptHandler', 'try: pass\nexcept E as \u210c: pass\n'),
    ('TypeVar', 'type T[\u210c] = int'),
]


def _nfkc_check(kind, src):
    """an identifier that CPython NFKC-normalises: the tree must still match the pattern built from its own AST,
    formatted and pure alike -> failure class or None"""
    from fst import FST
    from fst.match import M
    pat = ast.parse(src)
    if M(pat).match(ast.parse(src)) is None:
        return 'own-pattern-rejected-pure-ast'
    if FST(src, 'exec').match(pat) is None:
        return 'own-pattern-rejected'
    return None


def _nfkc(ctx):
    for kind, src in NFKC_CASES:
        ctx.count(('nfkc', kind))
        try:
            cls = _nfkc_check(kind, src)
        except Exception as e:      # noqa: BLE001
            cls = 'raised-' + type(e).__name__
        if cls:
            ctx.fail(f'C17|structural|nfkc-identifier-{kind}|{cls}',
                     f'{kind} with an identifier that CPython normalises (NFKC): FST(src).match(ast.parse(src)) fails ({cls}) for {src!r}',
                     {'kind': 'nfkc', 'node': kind, 'src': src})


def _unsound_table_entries(ctx):
    """AST2ASTSLEAF entries that miss a leaf class accepted by isinstance: search(<type>) cannot find such nodes"""
    from fst import FST
    classes, num, leaf, inst, allk = L.kind_tables()
    for k, c in enumerate(classes):
        miss = sorted(set(inst[k]) - set(leaf[k]))
        for mk in miss:
            w = {'kind': 'leaf-table', 'type': c.__name__, 'missing': classes[mk].__name__}
            if c is ast.mod and classes[mk] is ast.FunctionType:
                a = ast.parse('(int) -> str', mode='func_type')
                f = FST(a, ['(int) -> str'], None)
                found = [m.matched for m in f.search(ast.mod)]
                want = [g for g in f.walk(True) if g.match(ast.mod)]
                if found == want:
                    continue
                w['src'] = '(int) -> str'
            ctx.fail(f'C17|search-prefilter|type-{c.__name__}|missed-node',
                     f'AST2ASTSLEAF[{c.__name__}] lacks {classes[mk].__name__}: search({c.__name__}) skips nodes that match({c.__name__}) accepts', w)


def search(ctx):
    pass


def replay(ctx, w):
    from fst import FST
    kind = w.get('kind')
    if kind == 'nfkc':
        cls = _nfkc_check(w['node'], w['src'])
        if cls:
            ctx.fail('replay', f'{w["node"]}: {cls} for {w["src"]!r}', w)
        return
    if kind == 'leaf-table':
        _unsound_table_entries(ctx)
        return
    if kind == 'search':
        root = FST(w['src'], 'exec')
        ser = L.TreeSer()
        ser.tree(root.a)
        real, _, _ = build(w['spec'], bases(ser))
        found, want = _run_search(root, ser.ids, list(root.walk(True)), real)
        if found != want:
            ctx.fail('replay', f'search({spec_name(w["spec"])}) yields nodes {found}, walk filtered by match gives {want}', w)
        return
    if kind == 'tree':
        for seed in range(50):
            r = _tree_case((w['src'], seed, False))
            for it in r['items']:
                if it['name'] == w['item'] and (it['real'] != it['want'] or any(v != it['real'] for v in it['inv'].values())):
                    ctx.fail('replay', f'{it["name"]}: got {it["real"]}, expected {it["want"]}, variants {it["inv"]}', w)
                    return
            if r['stateless']:
                ctx.fail('replay', f'stateful: {r["stateless"][0]}', w)
                return
