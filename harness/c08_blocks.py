"""C08 helpers: a deterministic family of programs for take-out / put-back at every statement position of every block kind
(else blocks with 1, 2, 3 statements whose moved statement is an `if`, elif chains, loop / try else blocks, handlers,
finally), and the product of ways to put a statement back."""

import ast


def _ind(lines, n=1):
    return [('    ' * n + l) if l else l for l in lines]


def _if(n, tail=None):
    out = [f'if c{n}:', f'    q{n}()']
    if tail == 'else':
        out += ['else:', f'    w{n} = 0']
    elif tail == 'elif':
        out += [f'elif d{n}:', f'    w{n} = 1', 'else:', f'    v{n} = 2  # t']
    return out


def _simple(n):
    return [f'r{n} = {n}']


HOSTS = {
    'if': (['if a:', '    p()'], 'else:'),
    'if-elif': (['if a:', '    p()', 'elif b:', '    p2()'], 'else:'),
    'for': (['for i in j:', '    p()'], 'else:'),
    'while': (['while a:', '    p()'], 'else:'),
    'try-else': (['try:', '    p()', 'except E:', '    h()'], 'else:'),
    'try-finally': (['try:', '    p()'], 'finally:'),
    'try-handler': (['try:', '    p()'], 'except E as e:'),
}


def programs():
    """[(meta, src)]"""
    out = []
    for hname, (head, opener) in HOSTS.items():
        for n in (1, 2, 3):
            for p in range(n):
                for tail in (None, 'else', 'elif'):
                    if tail and (n == 3 or hname not in ('if', 'if-elif', 'for')):
                        continue
                    block = []
                    for k in range(n):
                        block += _if(k, tail) if k == p else _simple(k)
                    lines = head + [opener] + _ind(block)
                    if hname == 'try-handler':
                        lines += ['finally:', '    z()']
                    for wrap in (False, True):
                        ls = (['def f():'] + _ind(lines) + ['    return 1']) if wrap else lines + ['after = 1']
                        src = '\n'.join(ls) + '\n'
                        ast.parse(src)
                        out.append(({'host': hname, 'n': n, 'p': p, 'tail': tail, 'wrap': wrap}, src))
    # elif chains where the elif'd `if` is the only statement of the orelse, comments and blank lines around
    extra = [
        'if a:\n    p()\nelif b:\n    q()\nelif c:\n    r()\nelse:\n    s()\n',
        'if a:\n    p()\nelse:  # c\n    if b:\n        q()\n    # trailing\n\n    t = 1\n',
        'if a:\n    p()\nelse:\n\n    # lead\n    if b:\n        q()\n    else:\n        r()\n    u = 2; v = 3\n',
        'class C:\n    def m(self):\n        if a:\n            return 1\n        else:\n            if b:\n                x = 1\n            y = 2\n            return y\n',
        'if a: p()\nelse:\n    if b: q()\n    r()\n',
        'for x in y:\n    if a:\n        p()\n    else:\n        if b:\n            q()\n        if c:\n            r()\nelse:\n    if d:\n        s()\n    t()\n',
    ]
    for i, src in enumerate(extra):
        ast.parse(src)
        out.append(({'host': f'extra{i}', 'n': 0, 'p': 0, 'tail': None, 'wrap': False}, src))
    return out


def positions(src):
    """every statement position: [(parent path, field, idx, n, parent kind, stmt kind)] by CPython ast; path = [[field, idx]...]"""
    tree = ast.parse(src)
    out = []

    def go(node, path):
        for field in ('body', 'orelse', 'finalbody', 'handlers'):
            v = getattr(node, field, None)
            if not isinstance(v, list) or not v:
                continue
            for i, c in enumerate(v):
                if isinstance(c, ast.stmt):
                    out.append((path, field, i, len(v), type(node).__name__, type(c).__name__))
                go(c, path + [[field, i]])

    go(tree, [])
    return out


FORMS = ('copy', 'src', 'own_src', 'ast')
VIAS = ('replace', 'put', 'put_slice', 'view')
