"""C03 — edits follow Python container semantics and change nothing else in the tree."""

import json
import random

import c03_corr
import c03_edits
import c03_extract
import corpus
import framework
from framework import pmap

ID = 'C03'
LEAN_MODULES = ['Pfst.Props.C03']
THEOREMS = [
    'Pfst.C03.fixupSlice_spec', 'Pfst.C03.fixupSlice_refuses_only', 'Pfst.C03.fixupSlice_startAt',
    'Pfst.C03.fixupOne_spec', 'Pfst.C03.fixupOne_startAt',
    'Pfst.C03.putSlice_law', 'Pfst.C03.putSlice_get', 'Pfst.C03.putSlice_frame', 'Pfst.C03.putSlice_putback',
    'Pfst.C03.putSlice_single',
    'Pfst.C03.entry_insert', 'Pfst.C03.entry_append', 'Pfst.C03.entry_prepend', 'Pfst.C03.entry_put_forms',
    'Pfst.C03.entry_put_one',
    'Pfst.C03.view_heal', 'Pfst.C03.view_setitem', 'Pfst.C03.view_insert_agrees', 'Pfst.C03.view_item_index',
    'Pfst.C03.view_name_index',
    'Pfst.C03.virt_dict', 'Pfst.C03.virt_compare', 'Pfst.C03.virt_mapping', 'Pfst.C03.virt_arguments_order',
    'Pfst.C03.virt_arguments_slot', 'Pfst.C03.virt_arglikes',
    'Pfst.C03.handlers_total', 'Pfst.C03.handlers_exempt_exact',
]
RULE = ('correspondence: (1) fixup_one_index / fixup_slice_indices exhaustively for len 0..6, indices -9..9 and "end", '
        'start_at 0/1, errors mapped to "IndexError"; (2) every public entry point (put_slice, put, insert, append, extend, '
        'prepend, prextend, get_slice, get) called on real List nodes of length 0/1/3/4 with every combination of '
        '{None, "end", a field name, ints} in the positional slots and one in {True, False, None}, the private call it ends '
        'in captured by replacing FST._put_slice/_put_one/_get_slice/_get_one, compared with the model\'s canonical form '
        'and resolved indices; (3) FSTView objects with arbitrary (also stale) _start/_stop on fields of length 0..6, every '
        'view operation, the indices handed to the base node and the view afterwards (simulated edit = plain list slice '
        'assignment); (4) virtual field element maps on generated Dict / MatchMapping / Compare / arguments / Call / '
        'ClassDef / MatchClass / docstring bodies; (5) multi-step histories on ONE view object (whole-field and bounded views made '
        'by slicing): deterministic product of field lengths x windows x pairs of mutating operations (item/slice assignment '
        'incl. None, item/slice delete, replace, remove, insert, append, extend, prepend, prextend), then random longer '
        'histories, compared with the model after every step; (6) str NAME indexing: view._fixup_item_indices(name) on body / '
        '_body views (whole and every sub-window, with/without docstring) of Module/FunctionDef/ClassDef/If/For holding defs, '
        'classes and plain statements, deterministic product first, against Pfst.View.nameItem. sweep (deterministic products '
        'run first): (P1) every family x fixed requests x every documented FORM of the code argument (str, list[str] lines '
        'single- and multi-line, AST, FST) x one in {False, None, True for one element} x every entry point - harness '
        'obligation: the expected result for list[str] lines is BY DEFINITION the result for "\\n".join(lines), for an AST/FST '
        'slice container it is the result for the slice source; a single element given without slice syntax with one=False '
        '(also when it is itself a delimited sequence [p, q] / (p, q) / {p, q}) is one element; (P2) every index FORM: int, '
        'negative int, slice, "end", str NAME (def/class names, dotted names of nested defs, missing names) on whole views and '
        'bounded sub-views with start > 0, on body / _body / orelse / finalbody with and without docstring, by get / at / set / '
        'del / at(name, True); (P3) read and auxiliary forms on every window of small fields: view[i], at(i), at(i, True) '
        '(singleton views: bounds, is_one), view[a:b] bounds, len/start/stop/start_and_stop, MatchMapping has_rest, copy() and '
        'cut() of windows and of singleton views (returned elements, tree and view bounds afterwards), replace/remove through '
        'singleton views; (P4) fixed interleaved call-argument shapes x real fields x every empty/one-element range x entry '
        'points; no-op requests (deleting an empty range) and FST.replace(code, one=False) on an element are entry points too; '
        '(P8) docstring classification = start offset of `_body`: Module / def / async def / class (and If / For / With, which hold '
        'none) x 21 kinds of FIRST statement that are or resemble a docstring (str with every prefix, concatenated, parenthesized, '
        'bytes, f-string, number, Ellipsis, None, expressions on a str, 1-tuple) x has_docstr, len(_body), every _body[i], and 16 '
        'edit forms through `_body` (item / slice assignment, insert, prepend, delete, put, put_slice, raw put, attribute '
        'assignment, element remove; positive and negative indices); judge of "is a docstring": CPython ast.get_docstring; list '
        'model `_body` = body[1:] if docstring else body; '
        '(P7) Compare WITH its operators (`a < b == c.d > e()`): every slice delete leaving >= 2 operands and every single-operand '
        'insert, op_side left/right (+ op) supplied through every option CHANNEL - call keyword, `with FST.options(...)`, '
        'FST.set_options(...) - and every entry point the channel allows (del view[a:b], view[a:b] = None, view[i:i] = x take no '
        'keywords); list model of operands and operators (a deleted operand takes the operator on the requested side, the only '
        'possible side at the ends; an inserted operand brings its operator on that side); the form product deletes every range on '
        'every ROTATION of the elements so that each element (incl. ones that are ambiguous when alone, e.g. a parenthesized tuple '
        'as the sole with-item) gets to be the sole / first / last survivor; '
        '(P6) raw mode and the `to` option: put(code, i, field, raw=True[, to=element j]) and element.replace(code, raw=True[, '
        'to=...]) for every int index (negative, out of range) and every j >= i, and put_slice(code, a, b, field, raw=True) over '
        'every non-empty range in positive and negative/"end" forms, on 21 families incl. body/_body with and without docstring, '
        'orelse, elts, args/_args/_bases, targets, Dict._all, arguments._all, patterns, items, names; oracle: Python list '
        'indexing selects the elements (IndexError out of range), CPython positions give their span, expected = ast.parse of the '
        'text with that span replaced (raw = literal replacement + reparse); '
        '(P5) refusal product: every marker shape of `arguments` (`/`, bare `*`, *args, kw-only with/without defaults, **kw) in '
        'def / async def / lambda x every position x code of every argument kind incl. invalid orderings; interleaved Call / '
        'ClassDef arguments likewise; every family with unparsable code: if the request raises, source and full tree dump must '
        'be unchanged (tree == parse of source) and a following valid edit must give the expected tree and source; if it is '
        'carried out the tree must equal the parse of the new source; in all products and in the plain-layout part of the '
        'randomised sweep the resulting SOURCE is judged too (ast.parse of it must have the expected structure); identifier '
        'and expression pools contain multi-byte names in every position; then the randomised sweep: for every (kind, field) witness family (all list fields with a '
        'slice handler, all virtual fields, AST-valued optional fields) and for corpus programs: random (start, stop) in '
        'raw forms (negative, out of range, "end"), 0-2 new elements, through every equivalent entry point on twin copies '
        'in several layouts; whole-tree ast.dump must equal CPython\'s parse of the source rendered from '
        'old[:start] + new + old[stop:] (plain Python lists); calls / class bases with interleaved positional, *starred, keyword '
        'and **double-starred arguments laid out over several lines (a *starred on a later line at a smaller column than the '
        'keyword before it) through _args/_bases and through the real fields args/bases/keywords (pure-ast expected tree, '
        'plus: the resulting source must be valid Python of that structure); views kept across 2-4 operations (deterministic '
        'product on bounded windows first): tree, len(view), view.start/stop and shown elements against a Python list window '
        'after every step. distinct = distinct (family, request, entry point, layout)')
TRUSTED = [
    'modelled: fst_misc.fixup_one_index, fixup_slice_indices; fst._swizzle_getput_params and the argument normalisation of '
    'FST.put_slice/put/insert/append/extend/prepend/prextend/get_slice/get; FSTView._base_indices, _fixup_item_indices, '
    '__getitem__/__setitem__/__delitem__/replace/remove/insert/append/extend/prepend/prextend index arithmetic; the element '
    'maps of Dict._all, MatchMapping._all, Compare._all, arguments._all (_cached_allargs + defaults), Call._args / '
    'ClassDef._bases (merge_arglikes), MatchClass._attrs, _body; the dispatch tables (extracted)',
    'not modelled (evaluated directly on the real code by the sweep instead): what each put-slice / put-one handler does to '
    'text and tree; fixup_field_body (only its default-field table is extracted); clip_src_loc; validate_put_arglike; '
    'str name indexing resolving to NON-direct children (find_def scope walk; exercised by the sweep with dotted names only); '
    'raw="auto" fallback and raw puts with AST / FST code; options other than raw / to / one',
    'sweep exclusions: Interactive.body, the special slice container kinds (_Assign_targets, _aliases, ...), identifier-'
    'valued optional fields, Compare insertions (an operator must be supplied; only operand replacement one-for-one and '
    'deletion are checked, operators are blanked before comparing), requests whose result would leave a field below its '
    'minimum length, requests Python reads as an empty slice with start > stop (documented IndexError refusal), '
    'element.replace()/remove() on Compare operands and on interleaved call arguments (the element\'s own real field refuses '
    'and points to the virtual field), NodeError/ValueError ordering refusals on the real fields args/bases/keywords of '
    'interleaved calls (counted in notes; the tree and source must be unchanged after them); the resulting SOURCE is judged in '
    'the deterministic products, the view histories and the plain-layout part of the random sweep, not on mutate_layout variants',
]
ASSUMPTIONS = ['a handler given (start, stop) edits exactly that range (checked per case by the sweep, not proved)',
               'CPython ast.parse of the rendered expected source is the judge of the expected structure']
LEVEL_TEXT = ('Lean 4 theorems about an executable model of the index/slice normalisation, the entry-point argument '
              'normalisation, view windows and virtual-field element maps: agreement with Python slice.indices and list '
              'indexing, exact characterisation of refusals, docstring offset, list slice-put laws, view window law with '
              'self-healing, bijections for the virtual fields, totality of the extracted dispatch tables.')
LEVEL_NOTE = ('Theorems are about the model; the tie is differential (exhaustive for the index functions on the stated '
              'domain). The per-handler law (field = old[:s]+new+old[e:], rest of tree unchanged, entry points and layouts '
              'agree) is tested on the real code with a CPython oracle for every field kind, not proved.')
TECHNIQUE = 'Lean 4 proof (omega/grind/list lemmas, decide +kernel on extracted tables) + model-implementation correspondence + oracle sweep'


def extract(ctx):
    rows, defaults = c03_extract.table()
    framework.write_if_changed(framework.LEAN / 'Pfst' / 'Gen' / 'Handlers.lean', c03_extract.lean_text(rows, defaults))
    ctx.notes['handler_rows'] = len(rows)
    # which sliceable fields of the table have no witness family in the sweep
    fams = {(f.kind, f.field) for f in c03_edits.FAMILIES}
    unc = [f'{r["kind"]}.{r["field"]}' for r in rows if r['isList'] and r['putSlice'] == 'handler'
           and (r['kind'], r['field']) not in fams]
    ctx.notes['sliceable_fields_without_witness_family'] = unc


def _compare(ctx, name, cases, impl, norm=lambda x: x, nontrivial=None):
    try:
        outs = ctx.lean(cases)
    except Exception as e:
        ctx.brk('correspondence', name, f'driver error: {e}')
        return
    bad = 0
    for c, io_, mo in zip(cases, impl, outs):
        ctx.corr_cases += 1
        m = norm(mo.get('out', mo))
        ctx.count(c, True if nontrivial is None else nontrivial(c, io_))
        if m != io_:
            bad += 1
            if len(ctx.corr_disagreements) < 20:
                ctx.corr_disagreements.append({'corr': name, 'case': c, 'impl': io_, 'model': m})
            ctx.hints.append((name, c))
    ctx.dist.setdefault('correspondence_cases', {})[name] = len(cases)
    if cases:
        ctx.sample({'corr': name, 'case': cases[len(cases) // 2], 'impl': impl[len(cases) // 2]})
    if bad:
        ctx.brk('correspondence', name, f'{bad}/{len(cases)} cases differ; first: '
                + json.dumps(ctx.corr_disagreements[-min(bad, 20)], default=str)[:1200])


def correspondence(ctx):
    q = ctx.quick
    cases, impl = c03_corr.index_cases()
    for c, i in zip(cases, impl):
        ctx.tally('index_outcome', 'IndexError' if i == 'IndexError' else 'ok')
    _compare(ctx, 'fixup_one_index/fixup_slice_indices (exhaustive) vs Pfst.Index', cases, impl)
    ctx.exhaustive = True
    rng = random.Random(ctx.rng.random())
    cases, impl = c03_corr.entry_cases(rng, 300 if q else 3000)
    for i in impl:
        ctx.tally('entry_canon', i['canon'].get('k'))
    _compare(ctx, 'entry point normalisation vs Pfst.Index.canon/resolve', cases, impl, norm=c03_corr.canon_norm)
    cases, impl = c03_corr.view_cases(rng, 2500 if q else 40000)
    for c, i in zip(cases, impl):
        ctx.tally('view_op', c['op'] + (':IndexError' if i == 'IndexError' else ''))
    _compare(ctx, 'FSTView index arithmetic vs Pfst.View', cases, impl)
    cases, impl = c03_corr.view_history_cases(rng, 300 if q else 3000, full_product=not q)
    _compare(ctx, 'FSTView multi-step histories on one view object (bounded windows) vs Pfst.View', cases, impl)
    cases, impl = c03_corr.name_cases(rng, 500 if q else 5000)
    for i in impl:
        ctx.tally('name_index', 'IndexError' if i == 'IndexError' else 'item')
    _compare(ctx, 'FSTView str NAME indexing vs Pfst.View.nameItem', cases, impl)
    cases, impl = c03_corr.virt_cases(rng, 800 if q else 8000)
    for c in cases:
        ctx.tally('virtual_field', c['kind'])
    _compare(ctx, 'virtual field element maps vs Pfst.Virt', cases, impl)


def _report(ctx, recs):
    for r in recs:
        ctx.count((r['fam'], r.get('tag'), r['op'], r.get('a'), r.get('b'), r.get('new'), r['src']), True)
        ctx.tally('kind_field', r['fam'] + (('/' + r['tag']) if r.get('tag') else ''))
        ctx.tally('entry_point', r['op'])
        ctx.tally('layout_variant', bool(r.get('layout')))
        if 'fail' in r:
            sig = f'C03|{r.get("sigop", r["op"])}|{r["fam"]}|{r["fail"]}'
            ctx.fail(sig, f'{r["op"]} on {r["fam"]}: {r["fail"]} {r.get("detail", "")[:300]}',
                     {k: v for k, v in r.items() if k != 'want'} | {'want': r.get('want')})


def _sweep(ctx, per_family, per_optional, n_progs, per_prog, full_product=False):
    nf = len(c03_edits.FAMILIES)
    n0 = 0
    # deterministic products first: code forms x one x entry points per family; index forms incl. str names on sub-views
    for lst in pmap(c03_edits.run_form_product_case, list(range(nf))):
        n0 += len(lst)
        _report(ctx, lst)
    for lst in pmap(c03_edits.run_name_case, c03_edits.name_items(full_product)):
        n0 += len(lst)
        _report(ctx, lst)
    # what counts as a docstring (start offset of `_body`): every kind of first statement, judged by ast.get_docstring
    for lst in pmap(c03_edits.run_docstr_case, c03_edits.docstr_items()):
        n0 += len(lst)
        _report(ctx, lst)
    # Compare with its operators, options given by keyword / `with FST.options()` / FST.set_options() (sequential: global state)
    for it in c03_edits.compare_items():
        lst = c03_edits.run_compare_product_case(it)
        n0 += len(lst)
        _report(ctx, lst)
    # raw mode and the `to` option: every index form x every `to` element, real and virtual fields
    for lst in pmap(c03_edits.run_raw_product_case, c03_edits.raw_items()):
        n0 += len(lst)
        _report(ctx, lst)
    # deliberately refused requests: everything must stay as it was and a following valid edit behaves as on a fresh tree
    nref = 0
    for lst in pmap(c03_edits.run_refusal_case, c03_edits.refusal_items()):
        n0 += len(lst)
        nref += sum(1 for r in lst if r.get('refused'))
        _report(ctx, lst)
    ctx.notes['refusal_product_requests_refused'] = nref
    # read / auxiliary forms of the view API on every window: view[i], at(i), at(i, True), sub-slices, bounds, has_rest,
    # copy / cut of windows and singleton views, edits through singleton views
    for lst in pmap(c03_edits.run_view_query_case, c03_edits.view_query_items(full_product)):
        n0 += len(lst)
        _report(ctx, lst)
    res = pmap(c03_edits.run_family_case, [(i, ctx.rng.randrange(1 << 30), per_family) for i in range(nf)], chunksize=1)
    n = n0
    for lst in res:
        n += len(lst)
        _report(ctx, lst)
    res = pmap(c03_edits.run_optional_case, [(i, ctx.rng.randrange(1 << 30), per_optional) for i in range(len(c03_edits.OPTIONALS))],
               chunksize=1)
    for lst in res:
        n += len(lst)
        _report(ctx, lst)
    # views kept across several operations: deterministic product first (fields x windows x pairs of operations), then random
    res = pmap(c03_edits.run_view_product_case, c03_edits.view_product_items(full_product))
    for lst in res:
        n += len(lst)
        _report(ctx, lst)
    res = pmap(c03_edits.run_view_seq_case, [(i, ctx.rng.randrange(1 << 30), max(10, per_family // 3))
                                             for i in c03_edits.VIEW_SEQ_FAMILIES for _ in range(4)])
    for lst in res:
        n += len(lst)
        _report(ctx, lst)
    # real fields args / keywords / bases of calls with interleaved positional and keyword arguments
    res0 = pmap(c03_edits.run_arglike_product_case, [(k, i) for k in ('Call', 'ClassDef') for i in range(len(c03_edits._ARGLIKE_SHAPES))])
    refused0 = 0
    for lst in res0:
        n += len(lst)
        refused0 += sum(1 for r in lst if r.get('refused'))
        _report(ctx, lst)
    ctx.notes['interleaved_arglike_product_refused_for_ordering'] = refused0
    res = pmap(c03_edits.run_arglike_field_case, [(k, ctx.rng.randrange(1 << 30), max(10, per_family // 3))
                                                  for k in ('Call', 'ClassDef') for _ in range(8)])
    refused = 0
    for lst in res:
        n += len(lst)
        refused += sum(1 for r in lst if r.get('refused'))
        _report(ctx, lst)
    ctx.notes['interleaved_arglike_requests_refused_for_ordering'] = ctx.notes.get('interleaved_arglike_requests_refused_for_ordering', 0) + refused
    rng = random.Random(ctx.rng.random())
    progs = corpus.programs(rng, n_progs, stdlib=n_progs // 15)
    progs = progs + (corpus.hard_snippets() if hasattr(corpus, 'hard_snippets') else [])      # hard shapes, after the existing inputs
    res = pmap(c03_edits.run_corpus_case, [(p, ctx.rng.randrange(1 << 30), per_prog) for p in progs])
    for lst in res:
        n += len(lst)
        _report(ctx, lst)
    return n


def sweep(ctx):
    q = ctx.quick
    n = _sweep(ctx, 40 if q else 800, 30 if q else 400, 150 if q else 2500, 6 if q else 12, full_product=not q)
    ctx.notes['sweep_edits'] = n
    zero = [f.name + '/' + f.tag for f in c03_edits.FAMILIES
            if not ctx.dist.get('kind_field', {}).get(f.name + (('/' + f.tag) if f.tag else ''))]
    ctx.notes['families_without_a_run'] = zero


def search(ctx):
    n = _sweep(ctx, 300, 200, 1500, 10, full_product=True)
    ctx.notes['search_edits'] = n


def replay(ctx, data):
    w = data.get('witness')
    if not w:
        print('replay file names a broken obligation, not an input:', [b for b in data.get('broken', [])][:3])
        return
    from fst import FST
    import ast
    tag = w.get('tag') or ''
    if w.get('name_args'):
        ci, field, doc, shape = w['name_args']
        for r in c03_edits.run_name_case((ci, field, doc, shape)):
            if 'fail' in r and (r['a'], r['b'], r['new'], r['op']) == (w['a'], w['b'], w['new'], w['op']):
                ctx.fail(f'C03|{r["sigop"]}|{r["fam"]}|{r["fail"]}', f'{r["op"]} on {r["fam"]}: {r["fail"]} {r.get("detail", "")}', r)
        return
    if w.get('docstr_args'):
        for r in c03_edits.run_docstr_case(tuple(w['docstr_args'])):
            if 'fail' in r and r['op'] == w['op']:
                ctx.fail(f'C03|{r["sigop"]}|{r["fam"]}|{r["fail"]}', f'{r["op"]} on {r["fam"]}: {r["fail"]} {r.get("detail", "")}', r)
        return
    if w.get('compare_args'):
        for r in c03_edits.run_compare_product_case(tuple(w['compare_args'])):
            if 'fail' in r and (r['a'], r['b'], r['new'], r['op']) == (w['a'], w['b'], w['new'], w['op']):
                ctx.fail(f'C03|{r["sigop"]}|{r["fam"]}|{r["fail"]}', f'{r["op"]} on {r["fam"]}: {r["fail"]} {r.get("detail", "")}', r)
        return
    if w.get('raw_args') is not None:
        for r in c03_edits.run_raw_product_case(w['raw_args']):
            if 'fail' in r and (r['a'], r['b'], r['new'], r['op']) == (w['a'], w['b'], w['new'], w['op']):
                ctx.fail(f'C03|{r["sigop"]}|{r["fam"]}|{r["fail"]}', f'{r["op"]} on {r["fam"]}: {r["fail"]} {r.get("detail", "")}', r)
        return
    if w.get('refusal_args'):
        for r in c03_edits.run_refusal_case(tuple(w['refusal_args'])):
            if 'fail' in r and (r['src'], r['new'], r['op']) == (w['src'], w['new'], w['op']):
                ctx.fail(f'C03|{r["sigop"]}|{r["fam"]}|{r["fail"]}', f'{r["op"]} on {r["fam"]}: {r["fail"]} {r.get("detail", "")}', r)
        return
    if w.get('query_args'):
        for r in c03_edits.run_view_query_case(tuple(w['query_args'])):
            if 'fail' in r and (r['a'], r['b'], r['new'], r['op']) == (w['a'], w['b'], w['new'], w['op']):
                ctx.fail(f'C03|{r["sigop"]}|{r["fam"]}|{r["fail"]}', f'{r["op"]} on {r["fam"]}: {r["fail"]} {r.get("detail", "")}', r)
        return
    if w.get('product'):
        fi = next(i for i, f in enumerate(c03_edits.FAMILIES) if f.name == w['fam'] and f.tag == tag)
        for r in c03_edits.run_form_product_case(fi):
            if 'fail' in r and (r['a'], r['b'], r['new'], r['op']) == (w['a'], w['b'], w['new'], w['op']):
                ctx.fail(f'C03|{r["op"]}|{r["fam"]}|{r["fail"]}', f'{r["op"]} on {r["fam"]}: {r["fail"]} {r.get("detail", "")}', r)
        return
    if tag == 'interleaved':
        r = c03_edits.replay_interleaved(w)
        if 'fail' in r:
            ctx.fail(f'C03|{r["sigop"]}|{r["fam"]}|{r["fail"]}', f'{r["op"]} on {r["fam"]}: {r["fail"]} {r.get("detail", "")}', r)
        return
    if w.get('op') == 'view-sequence' and 'hist' in w:
        r = c03_edits.replay_view_history(w)
        if r and 'fail' in r:
            ctx.fail(f'C03|view-sequence|{r["fam"]}|{r["fail"]}', f'{r["op"]} on {r["fam"]}: {r["fail"]} {r.get("detail", "")}', r)
        return
    if tag == 'optional':
        oi = next(i for i, o in enumerate(c03_edits.OPTIONALS) if f'{o[0]}.{o[1]}' == w['fam'])
        for seed in range(40):
            for r in c03_edits.run_optional_case((oi, seed, 20)):
                if 'fail' in r and r['op'] == w['op']:
                    ctx.fail('replay', f'{r["op"]} on {r["fam"]}: {r["fail"]} {r.get("detail", "")}', r)
                    return
        return
    if tag == 'corpus':
        for seed in range(60):
            for r in c03_edits.run_corpus_case((w['src'], seed, 10)):
                if 'fail' in r:
                    ctx.fail('replay', f'{r["op"]} on {r["fam"]}: {r["fail"]} {r.get("detail", "")}', r)
                    return
        return
    fi = next(i for i, f in enumerate(c03_edits.FAMILIES) if f.name == w['fam'] and f.tag == tag)
    if w.get('op') == 'view-sequence':
        for seed in range(60):
            for r in c03_edits.run_view_seq_case((fi, seed, 30)):
                if 'fail' in r:
                    ctx.fail('replay', f'{r["op"]} on {r["fam"]}: {r["fail"]} {r.get("detail", "")}', r)
                    return
        return
    for seed in range(60):
        for r in c03_edits.run_family_case((fi, seed, 30)):
            if 'fail' in r and r['op'] == w['op']:
                ctx.fail('replay', f'{r["op"]} on {r["fam"]}: {r["fail"]} {r.get("detail", "")}', r)
                return
