"""C14 — traversal visits every node once, in source order, consistently across APIs."""

import ast
import random

import corpus
import c14_extract
import c14_shapes
import framework
from framework import pmap

ID = 'C14'
LEAN_MODULES = ['Pfst.Props.C14']
LEAN_DEPS = ['Pfst.Props.C14Tables', 'Pfst.Props.C14TablesB', 'Pfst.Props.C14Covers', 'Pfst.Props.C14Static', 'Pfst.Props.C14StaticB', 'Pfst.WalkLemmas', 'Pfst.NavLemmas', 'Pfst.SynOrderLemmas',
             'Pfst.Walk', 'Pfst.SynOrder', 'Pfst.TableCheck', 'Pfst.Drv.C14']
THEOREMS = [
    'Pfst.C14.walkEnter_preorder', 'Pfst.C14.walkEnter_norecurse', 'Pfst.C14.walkLeave_postorder',
    'Pfst.C14.walkLeave_postorder_self', 'Pfst.C14.walkBoth_bracket', 'Pfst.C14.walkBoth_bracket_noself',
    'Pfst.C14.walkLeave_norecurse', 'Pfst.C14.walkBoth_norecurse', 'Pfst.C14.leave_is_reversed_enter',
    'Pfst.C14.walk_nodup_perm', 'Pfst.C14.walkBoth_each_twice', 'Pfst.C14.back_sibling_only', 'Pfst.C14.step_iter',
    'Pfst.C14.step_iter_back', 'Pfst.C14.step_fwd_first', 'Pfst.C14.next_prev_inverse',
    'Pfst.C14.children_agree_with_walk', 'Pfst.C14.path_bijection', 'Pfst.C14.merge_sorted',
    'Pfst.C14.table_consistent', 'Pfst.C14.order_covers', 'Pfst.C14.static_field_order', 'Pfst.C14.non_static_classes',
    'Pfst.C14.field_order_pinned',
]
RULE = ('corpus programs (hand-written snippets covering every node type, random ASTs unparsed by CPython, layout mutants, '
        'stdlib chunks).  Per program: the tree is serialised (ids in preorder, children = syntax_ordered_children, pfield '
        'labels, filter category from CPython\'s class hierarchy) and (a) walk() on the root and on random inner nodes for all '
        '24 on x back x recurse x self_ combinations x 6 `all` variants (True, False, "loc", one type, a set of types, a '
        'callable) is compared yield-for-yield with the Lean stack machines; (b) next/prev/first_child/last_child/next_child/'
        'prev_child/step_fwd/step_back results and whole chains, (c) child_path/child_from_path round trips incl. invalid '
        'pairs, (d) the six interleaved child orders on the real positions are compared with the Lean model; (e) an oracle '
        'that shares no code with pfst (ast.walk, ast.iter_child_nodes, CPython positions, own recursion) checks the '
        'property itself: node set, once each, parents first, siblings in start-position order, back/leave/both laws, '
        'filters, step chains, next/prev inverse, path bijection; (f) the same oracle on one tiny program for EVERY small shape '
        'of the six interleaved kinds (Call/ClassDef with <=3 keywords and <=3 positional/starred arguments in every gap, '
        'Dict with ** at all positions, all argument-group combinations, MatchMapping with rest, Compare chains) and of every '
        'node class built by CPython with 0/1/2/3 elements in each list field and optional fields present/absent (every '
        '(class, field) transition of the NEXT/PREV tables realised by a program), plus corpus.hard_snippets().  distinct = distinct (tree, call parameters); '
        'non-trivial = tree with more than 3 nodes')
TRUSTED = [
    'modelled: fst_traverse.walk (three loops; all/self_/recurse/back), next, prev, first_child, last_child, next_child, '
    'prev_child, step_fwd, step_back (without top), FST.child_path, FST.child_from_path, astutil._syntax_ordered_children_'
    '{Call,ClassDef,Dict,Compare,arguments,MatchMapping}; extracted every run: syntax_ordered_children on 2k synthetic parent '
    'shapes of every class, NEXT_FUNCS/PREV_FUNCS on the same shapes',
    'scope=True walks: not modelled in Lean; the oracle checks their ORDER laws (each node once, forward/backward yields are subsequences of the full forward/backward walk order, same node set in both directions) for every scope root of every program and shape; which nodes belong to a scope is C16',
    'not modelled: send() to the walk generator, asts=, tree modification during a walk (C15), step_*(top=), '
    'last_header_child, as_str paths, None entries on the walk stack (dropped when the tree is serialised; the real code runs on them)',
    'oracle exclusion: in f"{expr = }" CPython places the debug-text Constant before the FormattedValue although it starts inside its braces; that pair is not required to be in start-position order',
    'field kinds of the synthetic shapes come from CPython class docstrings; list lengths 0..3 (0..2 where a class has >3 list '
    'fields); Call/ClassDef arrangements restricted to the ones Python\'s grammar allows',
]
ASSUMPTIONS = [
    'node identity in the model is the preorder id; ids are distinct (checked: the serialiser numbers nodes itself)',
    'sibling pfields are distinct and pfield.get(parent) is the child (evaluated on every real tree by the oracle)',
    'CPython start positions of positional arguments and of keywords are each increasing and respect the grammar rule of '
    'merge_sorted (evaluated on every Call/ClassDef of the corpus)',
    'a walk is not interleaved with tree modifications',
]
LEVEL_TEXT = ('Lean 4 theorems about an executable model of FST.walk (explicit-stack loops for enter/leave/both = recursive '
              'pre/post/bracketed order for every tree, filter, direction), each node exactly once, back = mirrored tree, '
              'step_fwd/step_back iteration = walk, next/prev inverse, child navigation = walk(recurse=False), path '
              'bijection, sorted merge of args/keywords; decide-checked tables extracted from the generated '
              'traverse_next/prev code and syntax_ordered_children on every run (NEXT = successor, PREV = predecessor, '
              'every AST child exactly once, static field orders pinned); model tied to /repo by per-run correspondence.')
LEVEL_NOTE = ('Theorems are about the model; the tie is extraction (tables, exhaustive on the tabulated shapes) plus '
              'differential runs on real trees.  "Order their text appears" is tied to CPython positions by the per-run '
              'oracle, not by a theorem.  Finding C14-F1 (on=leave/both yielded the walk root regardless of the `all` '
              'filter) is repaired in /repo; model and theorems describe the repaired code at full strength.')
TECHNIQUE = 'Lean 4 proof (well-founded stack machines vs structural specs, zipper navigation, decide +kernel on extracted tables) + model-implementation correspondence + CPython oracle'

GEN = framework.LEAN / 'Pfst' / 'Gen'


# ---------------------------------------------------------------------------------------------------------------------
# extraction

def extract(ctx):
    so, np_, problems, stats = c14_extract.render()
    framework.write_if_changed(GEN / 'SyntaxOrder.lean', so)
    framework.write_if_changed(GEN / 'NextPrev.lean', np_)
    ctx.notes['extraction'] = stats
    for p in problems[:5]:
        ctx.brk('extraction', 'tabulate', p)


# ---------------------------------------------------------------------------------------------------------------------
# serialisation (independent of pfst except for syntax_ordered_children, which is the thing being serialised)

_FIELDNAMES = {}


def _field_no(name):
    if name not in _FIELDNAMES:
        names = set()
        for c in vars(ast).values():
            if isinstance(c, type) and issubclass(c, ast.AST):
                names.update(c._fields)
        for i, n in enumerate(sorted(names)):
            _FIELDNAMES[n] = i + 1
    return _FIELDNAMES.setdefault(name, 900 + len(name))


def lab_of(field, idx):
    return _field_no(field) * 100000 + (0 if idx is None else idx + 1)


_KINDS = {}


def kind_of(cls):
    if not _KINDS:
        for i, n in enumerate(sorted(n for n, c in vars(ast).items() if isinstance(c, type) and issubclass(c, ast.AST))):
            _KINDS[n] = i + 1
    return _KINDS.get(cls.__name__, 0)


def cat_of(a):
    """filter category, from CPython's class hierarchy"""
    if isinstance(a, ast.expr_context):
        return 1
    if isinstance(a, ast.boolop):
        return 2
    if isinstance(a, (ast.operator, ast.unaryop, ast.cmpop)):
        return 3
    if isinstance(a, ast.arguments):
        return 5 if (a.posonlyargs or a.args or a.vararg or a.kwonlyargs or a.kwarg) else 4
    return 0


def passes(a, flt):
    """the documented meaning of `all`, on an AST node"""
    if flt is True:
        return True
    c = cat_of(a)
    if flt is False:
        return c not in (1, 2, 3, 4)
    if flt == 'loc':
        return c not in (1, 2)
    if isinstance(flt, type):
        return a.__class__ is flt
    return a.__class__ in flt


def ser(root_ast):
    """-> (tree json, ids {id(ast): n}, nodes [ast by n])"""
    from fst.astutil import syntax_ordered_children
    ids, nodes = {}, []

    def go(a):
        i = len(nodes)
        ids[id(a)] = i
        nodes.append(a)
        pf = a.f.pfield
        lab = lab_of(pf.name, pf.idx) if pf else 0
        return [i, lab, cat_of(a), kind_of(a.__class__), [go(c) for c in syntax_ordered_children(a) if c is not None]]

    return go(root_ast), ids, nodes


TYPESET = frozenset([ast.Name, ast.Constant, ast.Call, ast.arguments, ast.Load, ast.Add, ast.keyword, ast.And])
FILTERS = [('True', True), ('False', False), ('loc', 'loc'), ('type', ast.Name), ('set', TYPESET), ('callable', TYPESET)]
COMBOS = [(on, back, rec, self_) for on in ('enter', 'leave', 'both') for back in (False, True) for rec in (True, False)
          for self_ in (True, False)]


def lean_all(name, flt):
    if flt is True:
        return 'all'
    if flt is False:
        return 'dflt'
    if flt == 'loc':
        return 'loc'
    if isinstance(flt, type):
        return [kind_of(flt)]
    return sorted(kind_of(c) for c in flt)


def real_all(name, flt):
    if name == 'callable':
        return lambda f: f.a.__class__ in flt
    return flt


def _fid(ids, f):
    return None if not f else ids[id(f.a)]


def _real_walk(f, ids, flt, on, back, rec, self_):
    if on == 'both':
        return [2 * ids[id(g.a)] + (1 if lv else 0) for g, lv in f.walk(flt, on, self_=self_, recurse=rec, back=back)]
    return [ids[id(g.a)] for g in f.walk(flt, on, self_=self_, recurse=rec, back=back)]


def _chain(start, step, limit):
    out = []
    g = step(start)
    while g and len(out) <= limit:
        out.append(g)
        g = step(g)
    return out


# ---------------------------------------------------------------------------------------------------------------------
# one program: correspondence cases + oracle

def _order_case(a, ids):
    """Lean case for one of the six interleaved child orders + the real answer"""
    from fst.astutil import syntax_ordered_children
    real = [ids[id(c)] for c in syntax_ordered_children(a) if c is not None]
    pn = lambda n: [n.lineno, n.col_offset, ids[id(n)], isinstance(n, ast.Starred)]
    if isinstance(a, ast.Call):
        case = {'k': 'call', 'func': ids[id(a.func)], 'args': [pn(x) for x in a.args], 'kws': [pn(x) for x in a.keywords]}
    elif isinstance(a, ast.ClassDef):
        case = {'k': 'classdef', 'decos': [ids[id(x)] for x in a.decorator_list], 'tparams': [ids[id(x)] for x in a.type_params],
                'args': [pn(x) for x in a.bases], 'kws': [pn(x) for x in a.keywords], 'body': [ids[id(x)] for x in a.body]}
    elif isinstance(a, ast.Dict):
        case = {'k': 'dict', 'keys': [None if x is None else ids[id(x)] for x in a.keys], 'values': [ids[id(x)] for x in a.values]}
    elif isinstance(a, ast.MatchMapping):
        case = {'k': 'dict', 'keys': [ids[id(x)] for x in a.keys], 'values': [ids[id(x)] for x in a.patterns]}
    elif isinstance(a, ast.Compare):
        case = {'k': 'compare', 'left': ids[id(a.left)], 'ops': [ids[id(x)] for x in a.ops], 'comps': [ids[id(x)] for x in a.comparators]}
    elif isinstance(a, ast.arguments):
        o = lambda x: None if x is None else ids[id(x)]
        case = {'k': 'arguments', 'posonlyargs': [o(x) for x in a.posonlyargs], 'args': [o(x) for x in a.args],
                'defaults': [o(x) for x in a.defaults], 'vararg': o(a.vararg), 'kwonlyargs': [o(x) for x in a.kwonlyargs],
                'kw_defaults': [o(x) for x in a.kw_defaults], 'kwarg': o(a.kwarg)}
    else:
        return None
    case['f'] = 'C14.order'
    return case, real


def _start(a):
    """start position used for the sibling-order oracle: CPython's where the node has one, else pfst's computed `.loc`"""
    if getattr(a, 'lineno', None) is not None and getattr(a, 'col_offset', None) is not None:
        return (a.lineno - 1, a.col_offset, 'cpython')
    try:
        loc = a.f.loc
    except Exception:
        return None
    if loc is None:
        return None
    # .loc columns are characters, CPython's are bytes: only lines are comparable across the two kinds
    return (loc.ln, loc.col, 'pfst')


def _program(arg):
    """-> {'cases': [(lean case, impl out)], 'fails': [(sig, what, witness)], 'n': nodes, 'kinds': set}"""
    src, seed, quick = arg[:3]
    oracle_only = len(arg) > 3 and arg[3]
    rng = random.Random(seed)
    out = {'cases': [], 'fails': [], 'n': 0, 'kinds': set(), 'mixed_calls': 0, 'exc': None}
    from fst import FST
    try:
        root = FST(src, 'exec')
    except Exception:
        return out
    ra = root.a
    tree, ids, nodes = ser(ra)
    n = len(nodes)
    out['n'] = n
    out['kinds'] = {a.__class__.__name__ for a in nodes}
    fails = out['fails']

    def fail(api, kind, cls, what, extra=None):
        w = {'src': src, 'api': api}
        if extra:
            w.update(extra)
        fails.append((f'C14|{api}|{kind}|{cls}', what, w))

    # ---- oracle structures from CPython only ------------------------------------------------------------------
    cp_nodes = list(ast.walk(ra))
    cp_parent = {}
    for p in cp_nodes:
        for c in ast.iter_child_nodes(p):
            cp_parent[id(c)] = p
    # ---- (e) oracle on the real walk ------------------------------------------------------------------------------
    try:
        fwd = [g.a for g in root.walk(True)]
    except Exception as e:
        fail('walk', 'Module', 'raised', f'walk(True) raised {e!r}')
        return out
    fwd_ids = [id(a) for a in fwd]
    if len(set(fwd_ids)) != len(fwd_ids):
        dup = next(a for i, a in enumerate(fwd) if id(a) in set(fwd_ids[:i]))
        fail('walk', dup.__class__.__name__, 'node-yielded-twice', 'walk(all=True) yields a node twice')
    if set(fwd_ids) != {id(a) for a in cp_nodes}:
        miss = [a for a in cp_nodes if id(a) not in set(fwd_ids)]
        k = miss[0].__class__.__name__ if miss else 'extra'
        fail('walk', k, 'set!=ast.walk', f'walk(all=True) node set differs from ast.walk: missing {len(miss)}')
    seen = set()
    kids_of = {}
    for a in fwd:
        p = cp_parent.get(id(a))
        if p is not None:
            if id(p) not in seen:
                fail('walk', a.__class__.__name__, 'child-before-parent', 'walk(all=True) yields a child before its parent')
            kids_of.setdefault(id(p), []).append(a)
        seen.add(id(a))
    # siblings in start-position order
    for pid, ks in kids_of.items():
        prev = None
        for c in ks:
            if isinstance(c, (ast.expr_context, ast.boolop)):
                continue            # no location / location not well defined (documented)
            s = _start(c)
            if s is None:
                continue
            if prev is not None:
                ps, pc = prev
                if ps[2] == s[2]:
                    bad = (s[0], s[1]) <= (ps[0], ps[1]) if s[2] == 'cpython' else (s[0], s[1]) < (ps[0], ps[1])
                else:
                    bad = s[0] < ps[0]
                if bad and isinstance(c, ast.FormattedValue) and isinstance(pc, ast.Constant) and s[2] == 'cpython' \
                        and (c.lineno, c.col_offset) <= (pc.lineno, pc.col_offset) <= (c.end_lineno, c.end_col_offset):
                    bad = False         # CPython's own layout of f"{expr = }": the debug text Constant lies inside the braces of the FormattedValue that follows it
                if bad:
                    par = cp_parent[id(c)]
                    fail('walk', par.__class__.__name__, 'siblings-out-of-source-order',
                         f'children of {par.__class__.__name__} not in start-position order: {pc.__class__.__name__}@{ps[:2]} before {c.__class__.__name__}@{s[:2]}')
                    break
            prev = (s, c)

    def rec_pre(a, back, acc):
        acc.append(a)
        ks = kids_of.get(id(a), [])
        for c in (reversed(ks) if back else ks):
            rec_pre(c, back, acc)
        return acc

    def rec_post(a, back, acc):
        ks = kids_of.get(id(a), [])
        for c in (reversed(ks) if back else ks):
            rec_post(c, back, acc)
        acc.append(a)
        return acc

    def rec_brk(a, back, flt, acc):
        ok = passes(a, flt)
        if ok:
            acc.append((id(a), False))
        ks = kids_of.get(id(a), [])
        for c in (reversed(ks) if back else ks):
            rec_brk(c, back, flt, acc)
        if ok:
            acc.append((id(a), True))
        return acc

    import sys
    sys.setrecursionlimit(10000)
    ofilters = [('True', True), ('False', False), ('loc', 'loc'), ('type', ast.Name)]
    for back in (False, True):
        exp_pre = rec_pre(ra, back, [])
        exp_post = rec_post(ra, back, [])
        for fname, flt in ofilters:
            try:
                got = [id(g.a) for g in root.walk(flt, back=back)]
                if got != [id(a) for a in exp_pre if passes(a, flt)]:
                    fail('walk-back' if back else 'walk-enter', 'Module', 'order' if flt is True else f'filter-{fname}',
                         f'walk(all={fname}, back={back}) differs from the recursive preorder' + (' with reversed child lists' if back else ''))
                got = [id(g.a) for g in root.walk(flt, 'leave', back=back)]
                exp = [id(a) for a in exp_post if passes(a, flt)]
                if got != exp:
                    if not passes(ra, flt) and got == exp + [id(ra)]:
                        fail('walk-leave', 'root', 'yielded-despite-all-filter',
                             f'walk(all={fname}, on="leave") yields the walk root although it does not pass the filter')
                    else:
                        fail('walk-leave', 'Module', 'order' if flt is True else f'filter-{fname}',
                             f'walk(all={fname}, "leave", back={back}) differs from the recursive postorder')
                got = [(id(g.a), lv) for g, lv in root.walk(flt, 'both', back=back)]
                exp = rec_brk(ra, back, flt, [])
                if got != exp:
                    if not passes(ra, flt) and got == exp + [(id(ra), True)]:
                        fail('walk-both', 'root', 'leave-without-enter',
                             f'walk(all={fname}, on="both") yields (root, True) without (root, False) when the root does not pass the filter')
                    else:
                        fail('walk-both', 'Module', 'order' if flt is True else f'filter-{fname}',
                             f'walk(all={fname}, "both", back={back}) is not the bracketed order')
            except Exception as e:
                fail('walk', 'Module', 'raised', f'walk(all={fname}, back={back}) raised {e!r}')
    # step chains
    for fname, flt in ofilters:
        try:
            ch = [id(g.a) for g in _chain(root, lambda g: g.step_fwd(flt), n + 2)]
            if ch != [id(a) for a in rec_pre(ra, False, [])[1:] if passes(a, flt)]:
                fail('step_fwd', 'Module', 'chain!=walk', f'repeated step_fwd(all={fname}) from the root differs from the walk order')
            ch = [id(g.a) for g in _chain(root, lambda g: g.step_back(flt), n + 2)]
            if ch != [id(a) for a in rec_pre(ra, True, [])[1:] if passes(a, flt)]:
                fail('step_back', 'Module', 'chain!=walk', f'repeated step_back(all={fname}) from the root differs from the backward walk order')
        except Exception as e:
            fail('step', 'Module', 'raised', f'step chain (all={fname}) raised {e!r}')
    # single steps from every node: step_fwd/step_back with and without recurse_self, and restricted by top=
    for back in (False, True):
        order = rec_pre(ra, back, [])
        posn = {id(a): i for i, a in enumerate(order)}
        size = {}
        for a in reversed(order):
            size[id(a)] = 1 + sum(size[id(c)] for c in kids_of.get(id(a), []))
        api = 'step_back' if back else 'step_fwd'
        for fname, flt in (('True', True), ('False', False)):
            for a in (fwd if len(fwd) <= 60 else rng.sample(fwd, 60)):
                try:
                    step = a.f.step_back if back else a.f.step_fwd
                    for rs in (True, False):
                        j = posn[id(a)] + (1 if rs else size[id(a)])
                        want = next((id(x) for x in order[j:] if passes(x, flt)), None)
                        got = step(flt, rs)
                        if (id(got.a) if got else None) != want:
                            fail(api, a.__class__.__name__, 'single-step' if rs else 'single-step-norecurse',
                                 f'{api}(all={fname}, recurse_self={rs}) from a {a.__class__.__name__} is not the next node of the walk order')
                    if flt is True and size[id(a)] <= 40:
                        sub = [id(x) for x in order[posn[id(a)] + 1:posn[id(a)] + size[id(a)]]]
                        got, g = [], a.f
                        while (g := (g.step_back if back else g.step_fwd)(True, top=a.f)) and len(got) <= len(sub):
                            got.append(id(g.a))
                        if got != sub:
                            fail(api, a.__class__.__name__, 'top-restricted-chain', f'{api}(top=node) chain is not the walk order of the node\'s subtree')
                except Exception as e:
                    fail(api, a.__class__.__name__, 'raised', f'{api} raised {e!r}')
    # walk(asts=[...]): the given nodes are walked as they are, in the given order (reversed with back), self_ ignored
    BLOCK_FIELDS = ('body', 'orelse', 'finalbody', 'handlers', 'cases')
    BLOCK_CLASSES = (ast.FunctionDef, ast.AsyncFunctionDef, ast.ClassDef, ast.For, ast.AsyncFor, ast.While, ast.If, ast.With,
                     ast.AsyncWith, ast.Match, ast.ExceptHandler, ast.match_case)
    try:
        if [g for g in root.walk(True, asts=[])] != []:
            fail('walk-asts', 'Module', 'empty-list', 'walk(asts=[]) yields nodes')
        for a in (fwd if len(fwd) <= 30 else rng.sample(fwd, 30)):
            ks = kids_of.get(id(a), [])
            if len(ks) >= 2:
                sel = ks[1:]
                for back in (False, True):
                    want = [id(x) for k in (reversed(sel) if back else sel) for x in rec_pre(k, back, [])]
                    if [id(g.a) for g in a.f.walk(True, asts=sel, back=back)] != want:
                        fail('walk-asts', a.__class__.__name__, 'order', f'walk(asts=children[1:], back={back}) is not the walk of these nodes in the given order')
                want = [id(k) for k in sel]
                if [id(g.a) for g in a.f.walk(True, asts=sel, recurse=False)] != want:
                    fail('walk-asts', a.__class__.__name__, 'norecurse', 'walk(asts=children[1:], recurse=False) is not the list itself')
    except Exception as e:
        fail('walk-asts', 'Module', 'raised', f'walk(asts=...) raised {e!r}')
    # last_header_child(True): the last child in walk order that is not part of a block field
    for a in fwd:
        try:
            got = a.f.last_header_child(True)
            want = None
            if isinstance(a, BLOCK_CLASSES):
                blk = {id(x) for fld in BLOCK_FIELDS for x in (getattr(a, fld, None) or []) if isinstance(x, ast.AST)}
                hdr = [c for c in kids_of.get(id(a), []) if id(c) not in blk]
                want = id(hdr[-1]) if hdr else None
            if (id(got.a) if got else None) != want:
                fail('last_header_child', a.__class__.__name__, 'not-last-in-walk-order',
                     'last_header_child(True) is not the last child of the block header in walk order')
        except Exception as e:
            fail('last_header_child', a.__class__.__name__, 'raised', f'last_header_child raised {e!r}')
    # scope=True walks are walks too: whatever set of nodes a scope walk yields (that set is C16's business), it yields each once,
    # forward in the relative order of the full forward walk (parents first, siblings in text order), with back=True in the
    # relative order of the full backward walk, and both directions yield the same nodes
    SCOPES = (ast.Module, ast.FunctionDef, ast.AsyncFunctionDef, ast.ClassDef, ast.Lambda, ast.ListComp, ast.SetComp, ast.DictComp,
              ast.GeneratorExp)
    pos_f = {id(a): i for i, a in enumerate(rec_pre(ra, False, []))}
    pos_b = {id(a): i for i, a in enumerate(rec_pre(ra, True, []))}
    scope_roots = [a for a in fwd if isinstance(a, SCOPES)]

    def lca(x, y):
        anc = set()
        while x is not None:
            anc.add(id(x))
            x = cp_parent.get(id(x))
        while y is not None and id(y) not in anc:
            y = cp_parent.get(id(y))
        return y

    for a in (scope_roots if len(scope_roots) <= 12 else scope_roots[:4] + rng.sample(scope_roots[4:], 8)):
        cls = a.__class__.__name__
        for fname, flt in (('True', True), ('False', False)):
            try:
                sf = [g.a for g in a.f.walk(flt, scope=True)]
                sb = [g.a for g in a.f.walk(flt, scope=True, back=True)]
            except Exception as e:
                fail('walk-scope', cls, 'raised', f'walk(all={fname}, scope=True) raised {e!r}')
                continue
            if len({id(x) for x in sf}) != len(sf) or len({id(x) for x in sb}) != len(sb):
                fail('walk-scope', cls, 'node-yielded-twice', f'walk(all={fname}, scope=True) of a {cls} yields a node twice')
            for api, seq, pos in (('walk-scope', sf, pos_f), ('walk-scope-back', sb, pos_b)):
                ps = [pos.get(id(x), -1) for x in seq]
                i = next((i for i in range(len(ps) - 1) if ps[i] >= ps[i + 1] or ps[i] < 0), None)
                if i is not None:
                    x, y = seq[i], seq[i + 1]
                    where = lca(x, y)
                    fail(api, where.__class__.__name__ if where is not None else cls, 'not-in-walk-order',
                         f'walk(all={fname}, scope=True{", back=True" if api.endswith("back") else ""}) of a {cls} yields '
                         f'{x.__class__.__name__}@{getattr(x, "lineno", "?")}:{getattr(x, "col_offset", "?")} before '
                         f'{y.__class__.__name__}@{getattr(y, "lineno", "?")}:{getattr(y, "col_offset", "?")} (both inside a '
                         f'{where.__class__.__name__ if where is not None else "?"}), against the order of the full walk')
            if {id(x) for x in sf} != {id(x) for x in sb}:
                fail('walk-scope', cls, 'fwd-back-sets-differ', f'walk(all={fname}, scope=True) and its back=True variant yield different nodes')
    # next/prev inverse, children vs walk(recurse=False), pfield consistency, paths
    paths_seen = {}
    for a in fwd:
        f = a.f
        cls = a.__class__.__name__
        try:
            for fname, flt in (('True', True), ('False', False)):
                if not passes(a, flt):
                    continue
                m = f.next(flt)
                if m and m.prev(flt) is not f:
                    fail('next-prev', cp_parent[id(a)].__class__.__name__, 'not-inverse', f'x.next({fname}).prev({fname}) is not x')
                m = f.prev(flt)
                if m and m.next(flt) is not f:
                    fail('next-prev', cp_parent[id(a)].__class__.__name__, 'not-inverse', f'x.prev({fname}).next({fname}) is not x')
            ks = kids_of.get(id(a), [])
            for fname, flt in (('True', True), ('False', False)):
                want = [id(c) for c in ks if passes(c, flt)]
                if [id(g.a) for g in f.walk(flt, self_=False, recurse=False)] != want:
                    fail('walk-norecurse', cls, 'children', f'walk(all={fname}, self_=False, recurse=False) is not the child list')
                got, g = [], f.next_child(None, flt)
                while g and len(got) <= len(ks):
                    got.append(id(g.a))
                    g = f.next_child(g, flt)
                if got != want:
                    fail('next_child', cls, 'chain!=children', f'next_child(all={fname}) chain differs from walk(recurse=False)')
                got, g = [], f.prev_child(None, flt)
                while g and len(got) <= len(ks):
                    got.append(id(g.a))
                    g = f.prev_child(g, flt)
                if got != want[::-1]:
                    fail('prev_child', cls, 'chain!=children', f'prev_child(all={fname}) chain differs from reversed walk(recurse=False)')
                fc, lc = f.first_child(flt), f.last_child(flt)
                if (id(fc.a) if fc else None) != (want[0] if want else None) or (id(lc.a) if lc else None) != (want[-1] if want else None):
                    fail('first-last-child', cls, 'mismatch', f'first_child/last_child(all={fname}) are not the ends of the child list')
            if f.pfield and f.pfield.get(f.parent.a) is not a:
                fail('pfield', cls, 'inconsistent', 'pfield.get(parent) is not the node')
            path = root.child_path(f)
            key = tuple(path)
            if key in paths_seen:
                fail('child_path', cls, 'not-injective', 'two nodes have the same path from the root')
            paths_seen[key] = a
            if root.child_from_path(path) is not f:
                fail('child_from_path', cls, 'roundtrip', 'root.child_from_path(root.child_path(n)) is not n')
            if root.child_from_path(root.child_path(f, True)) is not f:
                fail('child_from_path', cls, 'roundtrip-str', 'string path round trip does not return the node')
            if path and path[-1].idx is not None:
                from fst.common import astfield
                for bidx in (len(getattr(f.parent.a, path[-1].name)), 10 ** 6):      # first index past the end, and a far one
                    bad = path[:-1] + [astfield(path[-1].name, bidx)]
                    if root.child_from_path(bad) is not False or root.child_from_path(bad, last_valid=True) is not f.parent:
                        fail('child_from_path', cls, 'invalid-path', 'an out-of-range path is not refused / last_valid does not return the last valid node')
        except Exception as e:
            fail('nav', cls, 'raised', f'navigation raised {e!r}')
    if oracle_only:
        return out
    try:
        _corr_cases(out, src, root, tree, ids, nodes, rng, quick)
    except Exception:
        import traceback
        out['exc'] = traceback.format_exc()[-1200:]
        out['cases'] = []
    return out


def _corr_cases(out, src, root, tree, ids, nodes, rng, quick):
    """correspondence cases of one program (appended to out['cases'])"""
    n = len(nodes)
    fails = out['fails']
    cases = out['cases']
    ats = [0] + ([rng.randrange(n) for _ in range(2 if quick else 4)] if n > 1 else [])
    for at in dict.fromkeys(ats):
        f = nodes[at].f
        for fname, flt in FILTERS:
            impl = []
            for on, back, rec, self_ in COMBOS:
                try:
                    impl.append(_real_walk(f, ids, real_all(fname, flt), on, back, rec, self_))
                except Exception as e:
                    impl.append({'exc': repr(e)[:80]})
            cases.append(({'f': 'C14.walks', 'tree': tree, 'all': lean_all(fname, flt), 'at': at,
                           'combos': [list(c) for c in COMBOS]}, impl, n))
    # navigation
    sample = list(range(n)) if n <= 40 else sorted(rng.sample(range(n), 40))
    for fname, flt in FILTERS[:5]:
        ops, impl = [], []

        def op(o, r):
            ops.append(o)
            impl.append(r)

        rf = flt
        for i in (sample if fname in ('True', 'False') else sample[:12]):
            f = nodes[i].f
            try:
                op(['next', i], _fid(ids, f.next(rf)))
                op(['prev', i], _fid(ids, f.prev(rf)))
                op(['first_child', i], _fid(ids, f.first_child(rf)))
                op(['last_child', i], _fid(ids, f.last_child(rf)))
                op(['step_fwd', i, True], _fid(ids, f.step_fwd(rf)))
                op(['step_fwd', i, False], _fid(ids, f.step_fwd(rf, False)))
                op(['step_back', i, True], _fid(ids, f.step_back(rf)))
                op(['step_back', i, False], _fid(ids, f.step_back(rf, False)))
                op(['up', i], _fid(ids, f.parent))
                par = f.parent
                if par:
                    op(['next_child', ids[id(par.a)], i], _fid(ids, par.next_child(f, rf)))
                    op(['prev_child', ids[id(par.a)], i], _fid(ids, par.prev_child(f, rf)))
                op(['next_child', i, None], _fid(ids, f.next_child(None, rf)))
                op(['prev_child', i, None], _fid(ids, f.prev_child(None, rf)))
            except Exception as e:
                op(['next', i], {'exc': repr(e)[:80]})
        for i in sample[:6]:
            f = nodes[i].f
            try:
                op(['chain_fwd', i], [ids[id(g.a)] for g in _chain(f, lambda g: g.step_fwd(rf), n + 2)])
                op(['chain_back', i], [ids[id(g.a)] for g in _chain(f, lambda g: g.step_back(rf), n + 2)])
                op(['chain_next', i], [ids[id(g.a)] for g in _chain(f, lambda g: g.next(rf), n + 2)])
                op(['chain_prev', i], [ids[id(g.a)] for g in _chain(f, lambda g: g.prev(rf), n + 2)])
                op(['children_fwd', i], [ids[id(g.a)] for g in _chain(None, lambda g: f.next_child(g, rf), n + 2)])
                op(['children_back', i], [ids[id(g.a)] for g in _chain(None, lambda g: f.prev_child(g, rf), n + 2)])
            except Exception as e:
                op(['chain_fwd', i], {'exc': repr(e)[:80]})
        cases.append(({'f': 'C14.nav', 'tree': tree, 'all': lean_all(fname, flt), 'ops': ops}, impl, n))
    # paths
    pairs, impl = [], []
    for _ in range(min(30, 3 * n)):
        c = rng.randrange(n)
        if rng.random() < 0.75:        # an ancestor-or-self of c
            chain, g = [], nodes[c].f
            while g:
                chain.append(g)
                g = g.parent
            s = ids[id(rng.choice(chain).a)]
        else:
            s = rng.randrange(n)
        sf, cf = nodes[s].f, nodes[c].f
        try:
            path = sf.child_path(cf)
            back_ = sf.child_from_path(path)
            impl.append({'path': [lab_of(p.name, p.idx) for p in path], 'back': _fid(ids, back_)})
        except ValueError:
            impl.append({'path': None, 'back': None})
        except Exception as e:
            impl.append({'exc': repr(e)[:80]})
        pairs.append([s, c])
    cases.append(({'f': 'C14.paths', 'tree': tree, 'pairs': pairs}, impl, n))
    # child_from_path on perturbed paths (index shifted): valid AST list fields only
    queries, impl = [], []
    from fst.common import astfield
    for _ in range(min(20, 2 * n)):
        c = rng.randrange(n)
        path = root.child_path(nodes[c].f)
        if not path:
            continue
        j = rng.randrange(len(path))
        p = path[j]
        if p.idx is None:
            continue
        newidx = max(0, p.idx + rng.choice([-1, 1, 2, 50]))
        npath = path[:j] + [astfield(p.name, newidx)] + (path[j + 1:] if rng.random() < 0.5 else [])
        try:
            r = root.child_from_path(npath)
            impl.append(_fid(ids, r) if r is not False else None)
        except (AttributeError, IndexError, TypeError):
            continue                   # path leads through a None entry / non-AST: outside the model
        queries.append([0, [lab_of(q.name, q.idx) for q in npath]])
    if queries:
        cases.append(({'f': 'C14.from_path', 'tree': tree, 'queries': queries}, impl, n))
    # the six interleaved orders on real positions (+ hypotheses of merge_sorted on real positions)
    for a in nodes:
        oc = _order_case(a, ids)
        if oc:
            cases.append((oc[0], oc[1], len(oc[1])))
            if isinstance(a, (ast.Call, ast.ClassDef)):
                args = a.args if isinstance(a, ast.Call) else a.bases
                pos = lambda x: (x.lineno, x.col_offset)
                if args and a.keywords and isinstance(args[-1], ast.Starred) and pos(a.keywords[0]) < pos(args[-1]):
                    out['mixed_calls'] += 1
                srt = lambda l: all(pos(l[i]) < pos(l[i + 1]) for i in range(len(l) - 1))
                sep = not args or not a.keywords or isinstance(args[-1], ast.Starred) or pos(args[-1]) < pos(a.keywords[0])
                if not (srt(args) and srt(a.keywords) and sep):
                    fails.append((f'C14|hypothesis|{a.__class__.__name__}|positions-not-sorted',
                                  'CPython positions violate the hypotheses of merge_sorted', {'src': src}))


# ---------------------------------------------------------------------------------------------------------------------

EXTRA_SNIPPETS = [
    'f(a, k=1, *b)', 'f(*a, k=1, *b, j=2, *c)', 'f(k=1, *a)', 'f(a, *b, k=1, **d)', 'f(*a, b, *c, d=e, **f, g=h)',
    'f(x, *y, k=v, *z, **w)', 'class A(B, k=1, *C): pass', 'class A(*B, k=1, *C, j=2): pass', 'class A(k=1, *B): x = 1',
    '@d1\n@d2(3)\nclass A[T: int, *Ts, **P](B, *C, m=M, **kw):\n    x: int = 1\n    def f(self): pass\n',
    'd = {**a, 1: 2, **b, c: d, **e}', 'd = {**a}', 'd = {}',
    'def f(a, b=1, /, c=2, *d, e, f=3, g, **h): pass', 'def f(a, /, b, c=1, *, d, e=2): pass', 'def f(a=1, /): pass',
    'def f(a=1, b=2, /, c=3): pass', 'l = lambda a, b=1, /, c=2, *, d=3, e, **f: 0', 'l = lambda *, a, b=1: 0',
    'x = a < b <= c != d is not e not in f in g', 'x = a if (b := c) else d',
    'match x:\n    case {1: a, 2: b, **r}: pass\n    case {}: pass\n    case {"k": [a, *b]}: pass\n    case C(a, b, k=c, j=d): pass\n',
    'x = f"{a!r:>{w}.{p}} {b=} {c:{d}{e}}"', 'def f[T: int, *Ts, **P](x: T, *a: *Ts, **k: P.kwargs) -> T: ...',
    'type X[T: (int, str), *Ts, **P] = dict[T, tuple[*Ts]]',
    'async def f():\n    async with a as b, c as (d, e):\n        async for i in x:\n            await y\n    return [j async for j in z if j if k]\n',
    'try:\n    a\nexcept* (A, B) as e:\n    b\nelse:\n    c\nfinally:\n    d\n',
    'with (a as b, c, d as [e, f]): pass', 'x = [i for i in a for j in b if c if d for k in e]',
    'x = {k: v for k, v in a if b}', 'x = a[b:c:d, ::e, f]', 'x = a.b[c](d).e', 'x = -a ** ~b + (not c)', 'x = a and b or c and d',
    'global a, b\nnonlocal_ = 1', 'from a.b import (c as d, e)\nimport f.g as h, i', 'del a, b[c], d.e', 'x: int', 'x: int = 1',
    'raise\n', 'raise A from b', 'assert a, b', 'while a:\n    break\nelse:\n    continue_ = 1', 'x = yield', 'x = yield a, b', 'x = yield from a',
    'x = (a, *b), [c, *d], {e, *f}', 'x = 1_0 + 0x1f + 1e3 + 1j', "x = 'a' \"b\" f'c{d}' ", 'x = b"a" b\'b\'', 'x = ...; y = None',
]


def _programs(ctx, n, stdlib):
    rng = random.Random(ctx.rng.random())
    progs = list(corpus.SNIPPETS) + list(EXTRA_SNIPPETS)
    progs += corpus.programs(rng, n, stdlib=stdlib)
    for lst in c14_shapes.sources().values():           # a sample of the exhaustive interleaved shapes (all go through the oracle in sweep)
        progs += rng.sample(lst, min(len(lst), max(10, n // 8)))
    for lst in c14_shapes.transition_sources().values():
        progs += rng.sample(lst, min(len(lst), 4))
    progs += list(getattr(corpus, 'hard_snippets', lambda: [])())
    return progs


def _run(ctx, progs, quick, tag):
    res = pmap(_program, [(p, ctx.rng.randrange(1 << 30), quick) for p in progs])
    cases, impls, sizes = [], [], []
    kinds = set()
    mixed = 0
    for r in res:
        if r['exc']:
            ctx.brk('correspondence', 'serialisation', 'the tree could not be put into correspondence with the model: ' + r['exc'])
        kinds |= r['kinds']
        mixed += r['mixed_calls']
        for c, i, sz in r['cases']:
            cases.append(c)
            impls.append(i)
            sizes.append(sz)
        for sig, what, w in r['fails']:
            ctx.fail(sig, what, w)
            ctx.tally('oracle_failures', sig)
    ctx.notes[f'{tag}_programs'] = len(progs)
    ctx.notes[f'{tag}_nodes'] = sum(r['n'] for r in res)
    ctx.notes[f'{tag}_node_kinds'] = len(kinds)
    ctx.notes[f'{tag}_mixed_star_keyword_calls'] = mixed
    ctx.count(None, False, n=sum(r['n'] for r in res))
    return cases, impls, sizes, kinds


def _compare(ctx, cases, impls, sizes):
    groups = {}
    for c, i, sz in zip(cases, impls, sizes):
        groups.setdefault(c['f'] + ('/' + c['k'] if 'k' in c else ''), []).append((c, i, sz))
    for name, items in sorted(groups.items()):
        cs = [x[0] for x in items]
        try:
            outs = ctx.lean(cs)
        except Exception as e:
            ctx.brk('correspondence', name, f'driver error: {e}')
            continue
        bad = 0
        for (c, io, sz), mo in zip(items, outs):
            ctx.corr_cases += 1
            m = mo.get('out', mo)
            key = {k: v for k, v in c.items()}
            ctx.count(key, sz > 3)
            if m != io:
                bad += 1
                if len(ctx.corr_disagreements) < 20:
                    d = {'corr': name, 'all': c.get('all'), 'at': c.get('at')}
                    if isinstance(m, list) and isinstance(io, list):
                        for j, (a, b) in enumerate(zip(io, m)):
                            if a != b:
                                d['first_diff'] = {'index': j, 'what': (c.get('combos') or c.get('ops') or c.get('pairs') or c.get('queries') or [None] * (j + 1))[j]
                                                   if not c['f'].endswith('order') else None, 'impl': a, 'model': b}
                                break
                    else:
                        d['impl'], d['model'] = io, m
                    d['tree_nodes'] = sz
                    ctx.corr_disagreements.append(d)
                ctx.hints.append((name, c))
        ctx.tally('correspondence_cases', name)
        ctx.dist['correspondence_cases'][name] = len(cs)
        if cs:
            c0 = cs[0]
            ctx.sample({'corr': name, 'case': {k: (v if k != 'tree' else '...') for k, v in c0.items()}, 'impl': str(items[0][1])[:200]})
        if bad:
            ctx.brk('correspondence', name, f'{bad}/{len(cs)} cases differ; first: ' + str(ctx.corr_disagreements[0])[:1200])


def correspondence(ctx):
    q = ctx.quick
    progs = _programs(ctx, 120 if q else 1500, 8 if q else 150)
    cases, impls, sizes, kinds = _run(ctx, progs, q, 'corr')
    _compare(ctx, cases, impls, sizes)
    # every node type of the running Python must have been walked
    want = {n for n, c in vars(ast).items() if isinstance(c, type) and issubclass(c, ast.AST) and c.__subclasses__() == []
            and n not in ('AST', 'Interactive', 'Expression', 'FunctionType', 'TypeIgnore', 'Suite', 'AugLoad', 'AugStore', 'Param',
                          'Index', 'ExtSlice', 'Num', 'Str', 'Bytes', 'NameConstant', 'Ellipsis', 'slice', 'mod', 'TemplateStr', 'Interpolation')}
    ctx.notes['node_kinds_not_covered'] = sorted(want - kinds)


def sweep(ctx):
    """The oracle part runs inside `_program` together with the correspondence (same executions); nothing more here
    except Expression / Interactive roots and single-node roots, oracle only."""
    from fst import FST
    n = 0
    for src, mode in [('a + b', 'eval'), ('f(a, k=1, *b)', 'eval'), ('x = 1', 'single'), ('a', 'Name'), ('a, b', 'Tuple'),
                      ('*a, b', 'Tuple'), ('a: int = 1', 'arg'), ('a, b=1, /, *c, d, **e', 'arguments'), ('k=v', 'keyword'),
                      ('a as b', 'withitem'), ('case 1: pass', 'match_case'), ('for i in x if y', 'comprehension')]:
        try:
            root = FST(src, mode)
        except Exception:
            continue
        n += 1
        fwd = [g.a for g in root.walk(True)]
        if {id(a) for a in fwd} != {id(a) for a in ast.walk(root.a)} or len(fwd) != len(set(map(id, fwd))):
            ctx.fail(f'C14|walk|{root.a.__class__.__name__}|set!=ast.walk', f'walk(True) of a {mode} root differs from ast.walk',
                     {'src': src, 'mode': mode})
        ch = [id(g.a) for g in _chain(root, lambda g: g.step_fwd(True), len(fwd) + 2)]
        if ch != [id(a) for a in fwd[1:]]:
            ctx.fail(f'C14|step_fwd|{root.a.__class__.__name__}|chain!=walk', 'step_fwd chain differs from walk', {'src': src, 'mode': mode})
    ctx.notes['sweep_special_roots'] = n
    _shapes_oracle(ctx)
    # report the smallest witness first
    ctx.failures.sort(key=lambda f: (len((f.witness or {}).get('src', '')) if isinstance(f.witness, dict) else 0, '|Module|' in f.sig))


def _shapes_oracle(ctx):
    """The six interleaved child orders, exhaustively for small sizes, through the ORACLE (one tiny program per shape):
    children in walk order sorted by CPython start position, node set == ast.walk, next/prev/next_child/prev_child/
    step chains == walk.  Every run, both tiers."""
    fams = dict(c14_shapes.sources())
    for k, lst in c14_shapes.transition_sources().items():      # every class x 0/1/2/3 elements per list field x optional fields
        fams['T:' + k] = lst
    try:
        fams['hard_snippets'] = list(corpus.hard_snippets())
    except AttributeError:
        pass
    items = [(src, 1, True, True) for lst in fams.values() for src in lst]
    res = pmap(_oracle_only, items, chunksize=64)
    nfail = 0
    for (src, *_), fl in zip(items, res):
        ctx.count('shape:' + src, True)
        for sig, what, w in fl:
            nfail += 1
            ctx.fail(sig, what, w)
            ctx.tally('oracle_failures', sig)
    ctx.notes['interleaved_shapes_oracle'] = {k: len(v) for k, v in fams.items() if not k.startswith('T:')}
    ctx.notes['transition_shapes_oracle'] = sum(len(v) for k, v in fams.items() if k.startswith('T:'))
    return nfail


def search(ctx):
    """Something broke: run the oracle (and only the oracle) on a wider set of programs: the exhaustive small shapes of
    the six interleaved kinds first (if the sweep did not get to them), then snippets and generated programs."""
    if 'interleaved_shapes_oracle' not in ctx.notes and _shapes_oracle(ctx):
        return
    progs = list(EXTRA_SNIPPETS) + list(corpus.SNIPPETS)
    rng = random.Random(ctx.rng.random())
    progs += corpus.programs(rng, 2500, stdlib=250)
    res = pmap(_oracle_only, [(p, ctx.rng.randrange(1 << 30), True, True) for p in progs])
    nfail = 0
    for fl in res:
        for sig, what, w in fl:
            nfail += 1
            ctx.fail(sig, what, w)
    ctx.notes['search_programs'] = len(progs)
    ctx.notes['search_failures'] = nfail


def _oracle_only(arg):
    return _program(arg)['fails']


def replay(ctx, data):
    w = data.get('witness')
    if not w or 'src' not in w:
        print('replay file names a broken obligation, not an input:', [b for b in data.get('broken', [])][:3])
        return
    r = _program((w['src'], 1, True, True))
    for sig, what, wit in r['fails']:
        if sig == data.get('signature') or not data.get('signature'):
            ctx.fail('replay', what, wit)
            return
    for sig, what, wit in r['fails'][:1]:
        ctx.fail('replay', what, wit)
