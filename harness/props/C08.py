"""C08 — putting back what was taken restores the tree; accessors read back writes."""

import ast
import io
import itertools
import random
import re
import tokenize

import c08_blocks as blks
import c08_headers as hdrs
import c08_literals as lits
import corpus
import util
from framework import pmap, write_if_changed, LEAN

ID = 'C08'
LEAN_MODULES = ['Pfst.Props.C08']
THEOREMS = [
    'Pfst.C08.quote_roundtrip', 'Pfst.C08.quote_lex_end', 'Pfst.C08.quote_clean',
    'Pfst.C08.docstr_dedent_roundtrip', 'Pfst.C08.docstr_roundtrip_partial',
    'Pfst.C08.comment_roundtrip', 'Pfst.C08.comment_roundtrip_full', 'Pfst.C08.comment_delete',
    'Pfst.C08.comment_put_refuses', 'Pfst.C08.comment_put_one_line',
    'Pfst.C08.reindent_roundtrip', 'Pfst.C08.indentBlock_fixed', 'Pfst.C08.bytes_never_indentable',
    'Pfst.C08.strict_only_first',
    'Pfst.C08.header_untouched', 'Pfst.C08.toElif_sound', 'Pfst.C08.toElif_complete',
    'Pfst.C08.identifier_forms_normalised', 'Pfst.C08.posAfter_spec', 'Pfst.C08.annSimple_correct', 'Pfst.C08.twins_same_fixup', 'Pfst.C08.with_family_fixed',
    'Pfst.C08.put_back', 'Pfst.C08.put_copy', 'Pfst.C08.replace_self',
]
RULE = ('(a) repr_str_multiline on ALL strings over the 12-character alphabet {\' " \\ LF TAB CR NUL a SPACE e-acute NBSP '
        'U+1F600} up to length 4 (quick) / 5 (thorough), all concatenations of up to 4/5 fragments of {\'\'\' \"\"\" \\ n LF \' \" NUL x} '
        '(the branch for texts holding both triple quotes), plus random long strings over a wider alphabet (other controls, '
        'Zl/Zp/Cf/unassigned/astral characters): real output vs Lean model byte-exact, Lean decoder on the output vs '
        'ast.literal_eval; the Lean decoder vs ast.literal_eval on random triple-quoted literals; get_docstr / put_docstr '
        'indentation and get/put_line_comment vs the model on generated lines. (b) property on the real code: put_docstr '
        'then get_docstr on def / async method / tab-indented class / module / existing docstring for the same strings '
        '(CPython tokenizer + literal_eval + full reparse as judges); put/get_line_comment on statements of corpus '
        'programs; replace every sampled node by its copy / pure AST / own source, cut and put back elements and slices '
        'of list fields, k times, ast.dump before = after; own_src reparsed; a deterministic family of programs with '
        'multi-line str / bytes / raw-bytes expression statements (triple-quoted, backslash-continued, parenthesised; first / '
        'middle / last in def, class, if, try and nested blocks; continuation lines indented not at all / less / as / more '
        'than the block): own_src, copy, cut + put back, replace-by-copy of the statement and of every enclosing statement, '
        'literal values compared through CPython (only docstring text may differ), pieces must be what their source denotes; '
        'a deterministic product over every statement position of every block kind (else blocks of if / for / while / try with '
        '1-3 statements whose moved statement is an if, elif chains, handlers, finally; top level and inside a def): the '
        'statement put back onto itself as copy / copy().src / own_src() / pure AST via replace / put / put_slice / view '
        'assignment / cut + put, elif_ default / True / False, judged by ast.parse of the new source, ast.dump and the full '
        'reparse; 183 statements whose expression slots share delimiters with the statement, sync and async (sole with-item '
        'tuples, for / async for iterables, return / yield / await, sole call arguments, subscripts, del, assert, decorators, '
        'class bases, match subjects and patterns, raise / from, if / while tests, assignments): every expression and pattern '
        'replaced by its own copy / pure AST / own_src / copy().src, twice, judged by ast.parse + dump + full reparse; the '
        'same with one more pair of parentheses around every expression (892 variants, incl. parenthesised AnnAssign targets, '
        'import levels, u-strings, async comprehensions: scalar fields derived from the spelling); '
        'every identifier slot (Name.id, Attribute.attr, arg, keyword, import names / asnames / module, def and class names, '
        'global / nonlocal, except-as, match captures, type parameters) put as str / list of lines / FST node / pure AST with '
        'non-NFKC spellings (fraktur, fi-ligature, micro sign, fullwidth; dotted where allowed): stored value = NFKC = what '
        'ast.parse reads from the new source; '
        'Constant.value / MatchSingleton.value given every primitive type (int, float, complex, str, bytes, None, bool, '
        'Ellipsis, big int, multi-line str) on u-strings, plain / bytes / numeric / singleton constants in five hosts; every '
        'slice [s:e] of every list field — AST or identifier elements (Global / Nonlocal names, kwd_attrs) — of 33 statement '
        'shapes written with non-ASCII identifiers, also after a multi-byte string on the same line and inside a def: cut + put '
        'back and replace-by-copy, twice, full reparse incl. positions; '
        'line comments (get against the tokenizer, put, read back, reparse, stale caches) on 348 block statements whose header '
        'spans lines in every break position and continuation indent (also column 0) and whose header children contain colons '
        '(slices, dicts, lambdas, annotations): class bases / keywords / starred in every order, def parameters and returns, '
        'if / elif / while / for / with / except / case headers, else blocks; '
        'read accessors (own_src / own_lines with docstr None / True / False / strict, whole=False, get_docstr, '
        'get_line_comment, copy().src) called in all 24 orders and rotations on ONE unmodified node under rotating '
        'FST.options(docstr=...) defaults, each answer = the answer of a fresh tree under the same effective options; '
        '_get_indentable_lns / _indent_lns / _dedent_lns vs the Lean predicate on these and on corpus programs. distinct = distinct (operation, input); '
        'non-trivial = the written text needs quoting/escaping decisions or the operation changes the source')
TRUSTED = [
    'modelled: astutil.repr_str_multiline and _escape_char (unicode_escape codec and repr() written out; str.isprintable, '
    'repr printability and str.isspace are per-character parameters computed with CPython by the harness), the loop of '
    'FST.get_docstr, the non-empty-line indentation _indent_lns applies to a put docstring, _getput_line_comment on the '
    'text after the statement end (regex _re_stmt_line_comment, strip rules, the refusal of \\n / \\r / NUL, the '
    'no-other-statement-follows put path)',
    'modelled as specification (not pfst code): CPython reading of a triple-quoted literal (newline normalisation, '
    'closing-quote search, escapes \\\\ \\\' \\" \\n \\r \\t \\<newline> \\xNN \\uNNNN \\UNNNNNNNN); checked against '
    'ast.literal_eval on random literals every run',
    'modelled: fst_core._get_indentable_lns (which lines of a node may be re-indented: all but the continuation lines of '
    'multi-line string tokens that are not docstrings; docstr False / True / strict) and the line edits of _indent_lns / '
    '_dedent_lns; the list of multi-line string tokens and their kinds is computed with CPython tokenize + ast',
    'extracted (by running the code): for code_as_identifier / _dotted / _star / _alias and each code form, whether the result is '
    'the NFKC form on non-NFKC probe names (Gen/C08Ident.lean; theorem identifier_forms_normalised is rebuilt against it each run)',
    'extracted: membership of every statement kind in ASTS_LEAF_WITH / _FOR / _FUNCDEF / _TRY (Gen/C08Families.lean, each run); '
    'modelled: the decision that _fix_With_items follows a put into withitem.context_expr (parent in ASTS_LEAF_WITH), observed '
    'on sync / async twins',
    'not modelled: where pfst finds the end of a statement / block header (the model gets line[end_col:] from pfst), the '
    'put_line_comment path that splits a logical line when another statement follows, _put_slice / code_as / reparse '
    'behind put_docstr and behind the structural round trips (these are exercised by the sweep only, with ast.dump and a '
    'CPython reparse as judges); lone surrogates are outside Lean Char (swept on the real code only)',
    'own_src is compared with docstr=False (the default dedents docstrings, which changes their value by design) and '
    'modulo expr_context; nodes inside f-strings are excluded (documented as unparsable); exceptions NotImplementedError / '
    'ValueError / NodeError / SyntaxError from a round-trip step count as refusals, not failures (tallied)',
    'after every put_line_comment / put_docstr the read accessors (own_src, bloc, loc, get_line_comment, get_docstr, '
    'copy().src) of the written node and of all its ancestors — looked at once BEFORE the write so that caches are warm — '
    'must answer what a fresh tree built from the new source answers',
    'line comments are read back stripped of surrounding whitespace with full=False (documented); the sweep expects '
    'comment.strip()',
]
ASSUMPTIONS = [
    "str.isprintable('\\r') and str.isprintable('\\0') are False; str.isspace(' ') is True, str.isspace('#'), "
    "str.isspace(';') are False (evaluated on CPython each run)",
    'one accessor call is one atomic step; the docstring block indentation consists of spaces and tabs',
]
LEVEL_TEXT = ('Lean 4 theorems about an executable model of repr_str_multiline/_escape_char, CPython triple-quoted literal '
              'lexing, docstring indent/dedent and line-comment get/put: every string round-trips through the quoting '
              '(induction over the string with the lexer state, all four quote-selection branches, the three str.replace '
              'calls of the repr branch), the literal cannot terminate early, docstring and comment read back the write; '
              'list/tree laws of cut-and-put-back. Tied to /repo by exhaustive + random differential runs each time.')
LEVEL_NOTE = ('Theorems are about the model; the tie is differential (exhaustive over a 12-character adversarial alphabet '
              'to length 4/5). Structural round trips on whole programs are swept, not proved (the operations behind them '
              'are the subject of C01/C03/C04); the list and tree laws are the specification they are compared with.')
TECHNIQUE = 'Lean 4 proof (token-wise induction, lexer state machine) + exhaustive model-implementation correspondence + oracle sweep'

ALPHA = ["'", '"', '\\', '\n', '\t', '\r', '\0', 'a', ' ', '\xe9', '\xa0', '\U0001F600']
WIDE = ALPHA + ['#', ';', 'x', 'n', 'u', 'U', '0', '7', 'N', '{', '}', '\x0b', '\x0c', '\x1b', '\x1c', '\x1f', '\x7f',
                '\x85', '\xad', '\u0378', '\u200b', '\u2028', '\u2029', '\u3000', '\ufeff', '\uffff', '\U000E0001',
                '\U0010FFFF', '\u00df', '\u4e2d']
REFUSALS = ('NotImplementedError', 'ValueError', 'NodeError', 'SyntaxError', 'ParseError', 'IndentationError')


def _cls(chars):
    return [[ord(c), int(c.isprintable()), int(repr(c)[1:-1] == c), int(c.isspace())] for c in sorted(set(chars))]


def _cps(s):
    return [ord(c) for c in s]


def _str(cps):
    return None if cps is None else ''.join(map(chr, cps))


def _strclass(s):
    """character class of a text for failure signatures"""
    if "'''" in s and '"""' in s:
        return 'both-triples'
    if s[-1:] in ('"', "'"):
        return 'trailing-quote'
    if '"""' in s or "'''" in s:
        return 'triple'
    if '\\' in s:
        return 'backslash'
    if '\r' in s:
        return 'CR'
    if '\0' in s:
        return 'NUL'
    if any(ord(c) < 32 and c not in '\n\t' or ord(c) == 127 for c in s):
        return 'control'
    if any(not c.isprintable() and c not in '\n\t' for c in s):
        return 'nonprintable'
    if '"' in s or "'" in s:
        return 'quote'
    if '\n' in s:
        return 'multiline'
    if not s.isascii():
        return 'nonascii'
    return 'plain'


def _all_strings(maxlen):
    out = ['']
    for n in range(1, maxlen + 1):
        out.extend(''.join(t) for t in itertools.product(ALPHA, repeat=n))
    return out


FRAGS = ["'''", '"""', '\\', 'n', '\n', "'", '"', '\0', 'x']


def _fragment_strings(maxlen):
    """all concatenations of up to `maxlen` fragments: both triple quotes as units, so that the repr branch of
    repr_str_multiline (text contains both) meets backslashes followed by escape letters, real newlines and NUL"""
    out = []
    for n in range(2, maxlen + 1):
        out.extend(''.join(t) for t in itertools.product(FRAGS, repeat=n))
    return out


def _random_strings(rng, n, alphabet=WIDE, lo=5, hi=40):
    out = []
    for _ in range(n):
        k = rng.randint(lo, hi)
        w = rng.random()
        if w < 0.3:      # quote-heavy
            al = ["'", '"', '\\', 'a', '\n']
        elif w < 0.5:
            al = ALPHA
        else:
            al = alphabet
        out.append(''.join(rng.choice(al) for _ in range(k)))
    return out


# ---- correspondence ------------------------------------------------------------------------------------------------

def _batched(ctx, name, f, key, items, cls=None, size=400):
    cases = []
    for i in range(0, len(items), size):
        c = {'f': f, key: items[i:i + size]}
        if cls is not None:
            c['cls'] = cls
        cases.append(c)
    try:
        outs = ctx.lean(cases)
    except Exception as e:
        ctx.brk('correspondence', name, f'driver error: {e}')
        return None
    flat = []
    for o in outs:
        o = o.get('out', o)
        if not isinstance(o, list):
            ctx.brk('correspondence', name, f'driver answered {str(o)[:200]}')
            return None
        flat.extend(o)
    return flat


_FIRST = {}


def _disagree(ctx, name, case, impl, model):
    rec = {'corr': name, 'case': case, 'impl': impl, 'model': model}
    _FIRST.setdefault(name, rec)
    if sum(1 for d in ctx.corr_disagreements if d.get('corr') == name) < 4:
        ctx.corr_disagreements.append(rec)
    ctx.hints.append((name, case))


def _corr_repr(ctx, strs):
    from fst.astutil import repr_str_multiline
    name = 'repr_str_multiline vs Pfst.Quote.reprMultiline (+ decodeTriple vs ast.literal_eval)'
    chars = set(''.join(strs))
    outs = _batched(ctx, name, 'C08.repr', 'ss', [_cps(s) for s in strs], _cls(chars))
    if outs is None:
        return
    bad = 0
    for s, (r, d) in zip(strs, outs):
        ctx.corr_cases += 1
        real = repr_str_multiline(s)
        ctx.count('repr:' + repr(s), real[3:-3] != s)
        try:
            val = ast.literal_eval(real)
        except Exception as e:
            val = f'<{type(e).__name__}>'
        if _str(r) != real or _str(d) != val:
            bad += 1
            _disagree(ctx, name, {'s': s}, {'repr': real, 'literal_eval': val}, {'repr': _str(r), 'decode': _str(d)})
    ctx.tally('correspondence_cases', name)
    ctx.dist['correspondence_cases'][name] = len(strs)
    ctx.sample({'corr': name, 's': strs[min(len(strs) - 1, 777)], 'impl': repr_str_multiline(strs[min(len(strs) - 1, 777)])})
    if bad:
        ctx.brk('correspondence', name, f'{bad}/{len(strs)} strings differ; first: ' + repr(_FIRST.get(name))[:1200])


def _corr_decoder(ctx, n):
    """The specification decoder against CPython on literals it did not come from."""
    name = 'Pfst.Quote.decodeTriple vs ast.literal_eval on random triple-quoted literals'
    rng = random.Random(ctx.rng.random())
    al = ["'", '"', '\\', '\\', '\n', '\r', 'a', 'x', 'u', 'U', 'n', 'r', 't', '0', '4', '1', 'f', 'F', ' ', '\xe9', '\t',
          'd', '8']
    lits = []
    for _ in range(n):
        q = rng.choice(['"""', "'''"])
        body = ''.join(rng.choice(al) for _ in range(rng.randint(0, 14)))
        w = rng.random()
        if w < 0.15:
            lit = q + body        # unterminated
        elif w < 0.25:
            lit = q + body + q + rng.choice(['"', "'", 'a'])
        else:
            lit = q + body + q
        lits.append(lit)
    outs = _batched(ctx, name, 'C08.decode', 'ss', [_cps(s) for s in lits])
    if outs is None:
        return
    bad = unmod = 0
    for lit, d in zip(lits, outs):
        ctx.corr_cases += 1
        ctx.count('dec:' + repr(lit), '\\' in lit)
        try:
            import warnings
            with warnings.catch_warnings():
                warnings.simplefilter('error')      # invalid escape sequences are "not modelled", not values
                val = ast.literal_eval(lit)
            if not isinstance(val, str):
                val = None
        except Exception:
            val = None
        m = _str(d)
        if m is None and val is not None:
            unmod += 1            # an escape form outside the modelled set (\0 \a \f \N ..., surrogate \ud800)
            continue
        if m != val:
            bad += 1
            _disagree(ctx, name, {'literal': lit}, val, m)
    ctx.tally('correspondence_cases', name)
    ctx.dist['correspondence_cases'][name] = len(lits)
    ctx.notes['decoder_unmodelled_literals'] = unmod
    if bad:
        ctx.brk('correspondence', name, f'{bad}/{len(lits)} literals differ; first: ' + repr(_FIRST.get(name))[:800])


DOC_HOSTS = {
    'def': ('def f(a):\n    return a\n', lambda r: r.body[0], '    '),
    'async-method': ('class C:\n    x = 1\n    async def m(self):\n        pass\n', lambda r: r.body[0].body[1], '        '),
    'class-tab': ('class C:\n\tx = 1\n', lambda r: r.body[0], '\t'),
    'module': ('x = 1\n', lambda r: r, ''),
    'existing': ('def f():\n    """old\n    doc"""\n    pass\n', lambda r: r.body[0], '    '),
    'nested-mixed': ('if 1:\n  class C:\n  \tdef f(): pass\n', lambda r: r.body[0].body[0].body[0], '  \t    '),
}


def _mk(src):
    from fst import FST
    return FST(src, 'exec')


def _doc_src_of(root, node):
    """source text of the docstring Expr as it sits in the tree (first line from its column)"""
    b0 = node.a.body[0].f
    ln, col, end_ln, end_col = b0.loc
    lines = root.lines[ln:end_ln + 1]
    lines[-1] = lines[-1][:end_col]
    lines[0] = lines[0][col:]
    return '\n'.join(lines)


def _corr_doc(ctx, strs):
    from fst.astutil import repr_str_multiline
    rng = random.Random(ctx.rng.random())
    name = 'put_docstr indentation vs Pfst.Quote.putDocSrc'
    items, impls, meta = [], [], []
    vitems, vimpls, vmeta = [], [], []
    hosts = list(DOC_HOSTS)
    for i, s in enumerate(strs):
        h = hosts[i % len(hosts)]
        src, pick, _ = DOC_HOSTS[h]
        root = _mk(src)
        node = pick(root)
        ind = node.a.body[0].f._get_block_indent()
        val = None
        try:
            node.put_docstr(s)
            got = _doc_src_of(root, node)
            val = node.a.body[0].value.value
        except Exception as e:
            got = f'<{type(e).__name__}>'
        items.append([_cps(ind), _cps(repr_str_multiline(s))])
        impls.append(got)
        meta.append((h, s))
        if not any(0xd800 <= ord(c) <= 0xdfff for c in s):
            vitems.append([_cps(ind), _cps(s)])
            vimpls.append(val)
            vmeta.append((h, s))
    outs = _batched(ctx, name, 'C08.docput', 'items', items)
    if outs is not None:
        bad = 0
        for (h, s), io_, mo in zip(meta, impls, outs):
            ctx.corr_cases += 1
            ctx.count('docput:' + h + ':' + repr(s), '\n' in s)
            if _str(mo) != io_:
                bad += 1
                _disagree(ctx, name, {'host': h, 's': s}, io_, _str(mo))
        ctx.tally('correspondence_cases', name)
        ctx.dist['correspondence_cases'][name] = len(items)
        if bad:
            ctx.brk('correspondence', name, f'{bad}/{len(items)} differ; first: ' + repr(_FIRST.get(name))[:800])
    name = 'Constant value after put_docstr vs Pfst.Quote.indentVal (the specification docstr_dedent_roundtrip is about)'
    outs = _batched(ctx, name, 'C08.docval', 'items', vitems)
    if outs is not None:
        bad = 0
        for (h, s), io_, mo in zip(vmeta, vimpls, outs):
            ctx.corr_cases += 1
            ctx.count('docval:' + h + ':' + repr(s), '\n' in s)
            if _str(mo[0]) != io_ or (_precond(s) and s[:1] not in (' ', '\t') and _str(mo[1]) != s):
                bad += 1
                _disagree(ctx, name, {'host': h, 's': s}, io_, [_str(mo[0]), _str(mo[1])])
        ctx.tally('correspondence_cases', name)
        ctx.dist['correspondence_cases'][name] = len(vitems)
        if bad:
            ctx.brk('correspondence', name, f'{bad}/{len(vitems)} differ; first: ' + repr(_FIRST.get(name))[:800])
    # get_docstr on hand-written docstrings with irregular indentation
    name = 'get_docstr vs Pfst.Quote.getDocstr'
    items, impls, meta = [], [], []
    ws = ['', ' ', '  ', '    ', '      ', '\t', ' \t', '  \t ', '   ']
    for _ in range(len(strs) // 4 + 50):
        ind = rng.choice(['    ', '  ', '\t', ' \t', '        '])
        nl = rng.randint(1, 5)
        lines = [rng.choice(['', ' ']) + rng.choice(['a', 'doc', 'x y', ''])]
        for _ in range(nl - 1):
            lines.append(rng.choice(ws + [ind, ind, ind + '  ']) + rng.choice(['t', 'text é', '', '', '# c', '\\\\']))
        body = '\n'.join(lines)
        src = f'def f():\n{ind}"""{body}"""\n{ind}pass\n'
        try:
            root = _mk(src)
        except Exception:
            continue
        node = root.body[0]
        val = node.a.body[0].value.value
        real_ind = node.a.body[0].f._get_block_indent()
        items.append([_cps(real_ind), _cps(val)])
        impls.append(node.get_docstr())
        meta.append(src)
    outs = _batched(ctx, name, 'C08.docget', 'items', items)
    if outs is not None:
        bad = 0
        for src, io_, mo in zip(meta, impls, outs):
            ctx.corr_cases += 1
            ctx.count('docget:' + src, True)
            if _str(mo) != io_:
                bad += 1
                _disagree(ctx, name, {'src': src}, io_, _str(mo))
        ctx.tally('correspondence_cases', name)
        ctx.dist['correspondence_cases'][name] = len(items)
        if bad:
            ctx.brk('correspondence', name, f'{bad}/{len(items)} differ; first: ' + repr(_FIRST.get(name))[:800])


TAILS = ['## x', '  #  # y', '###', ' #;', '', ' ', '  ', '\t', '  # c', '# c', '#', '  #', '  #  c  ', ' # a # b', ';', ' ;', ';  ', ' ; # c', ';#c', '\t;\t#\tc\t',
         '; y = 2', ' ;y', ' y = 2', ' \\', '  # \xe9 \U0001F600', '\xa0# c', '  #\xa0c\xa0', '\x0c# c', ' #c\x0c', '  # "q" \'s\' \\', ' # type: ignore', ';;', '; ;']
COMMENTS = ['c', 'new', '', ' ', ' lead', 'trail ', '  both  ', '#', '# x', '#x', ' # y', '\t#\tz', 'a # b', "it's \"q\" \\ back\\",
            '\xe9 \xf1 \U0001F600', 'a\x0cb', '\x0cb', 'a\x1fb', '\x1fb', 'tab\there', 'a\xa0', '\xa0a', 'a;b', ';', 'type: ignore',
            '\u3000x', 'x\u2028y', 'a\x7f', '\\', '"""', "'''", 'a\nb', 'a\rb', '\rb', '# a\r', 'a\x00b', '\x00', 'a\r\nb']
CSTMTS = [('x = 1', False), ('f(a,\n  b)', False), ('if a:', True), ('while x :', True), ('class C(B)  :', True), ('return', False)]


def _comment_line(stmt, block, tail):
    if block:
        return f'{stmt}{tail}\n    pass\n'
    if stmt == 'return':
        return f'def g():\n    return{tail}\n'
    return f'{stmt}{tail}\n'


def _comment_node(root, stmt):
    return root.body[0].body[0] if stmt == 'return' else root.body[0]


def _end_of(f):
    a = f.a
    if isinstance(a, (ast.If, ast.While, ast.ClassDef, ast.For, ast.With, ast.Try, ast.FunctionDef, ast.AsyncFunctionDef,
                      ast.AsyncFor, ast.AsyncWith, ast.Match, ast.ExceptHandler, ast.match_case)):
        _, _, end_ln, end_col = f._loc_block_header_end('body')
    else:
        _, _, end_ln, end_col = f.bloc
    return end_ln, end_col


def _corr_comment(ctx):
    rng = random.Random(ctx.rng.random())
    name = 'get/put_line_comment vs Pfst.Quote.commentGet/commentPut'
    items, impls, meta = [], [], []
    combos = [(st, t, c, full) for st in CSTMTS for t in TAILS for c in COMMENTS + [None] for full in (False, True)]
    if ctx.quick:
        combos = rng.sample(combos, 2500)
    chars = set(''.join(TAILS) + ''.join(COMMENTS) + ' #;')
    for (stmt, block), tail, c, full in combos:
        src = _comment_line(stmt, block, tail)
        try:
            root = _mk(src)
        except Exception:
            continue
        f = _comment_node(root, stmt)
        end_ln, end_col = _end_of(f)
        t = root.lines[end_ln][end_col:]
        cc = c
        if full and c is not None and rng.random() < 0.8:
            cc = rng.choice(['  #', '#', ' # ', '\t#']) + c
        try:
            g = f.get_line_comment(full=full)
        except Exception as e:
            g = f'<{type(e).__name__}>'
        try:
            old = f.put_line_comment(cc, full=full)
            newt = root.lines[end_ln][end_col:]
            put = {'ok': newt} if old == g else {'old-differs': [old, g]}
            nlines = len(root.lines)
        except ValueError:
            put = 'ValueError'
        except Exception as e:
            put = f'<{type(e).__name__}: {e}>'
        items.append([_cps(t), None if cc is None else _cps(cc), full])
        impls.append({'get': g, 'put': put})
        meta.append({'src': src, 'comment': cc, 'full': full})
    outs = _batched(ctx, name, 'C08.comment', 'items', items, _cls(chars))
    if outs is None:
        return
    bad = unm = 0
    for m, io_, mo in zip(meta, impls, outs):
        ctx.corr_cases += 1
        ctx.count('comment:' + repr(m), True)
        mg = _str(mo['get'])
        mp = mo['put']
        if isinstance(mp, dict):
            mp = {'ok': _str(mp['ok'])}
        if mp == 'unmodelled':
            unm += 1
            mp = io_['put']
        if mg != io_['get'] or mp != io_['put']:
            bad += 1
            _disagree(ctx, name, m, io_, {'get': mg, 'put': mp})
    ctx.tally('correspondence_cases', name)
    ctx.dist['correspondence_cases'][name] = len(items)
    ctx.notes['comment_put_unmodelled_path'] = unm
    if bad:
        ctx.brk('correspondence', name, f'{bad}/{len(items)} differ; first: ' + repr(_FIRST.get(name))[:900])


def _assumptions(ctx):
    facts = {"'\\r'.isprintable()": '\r'.isprintable(), "'\\0'.isprintable()": '\0'.isprintable(),
             "' '.isspace()": not ' '.isspace(), "'#'.isspace()": '#'.isspace(), "';'.isspace()": ';'.isspace(),
             "'\\n'.isprintable()": '\n'.isprintable()}
    for k, v in facts.items():
        if v:
            ctx.brk('correspondence', 'classification hypothesis', f'{k} is not what the theorems assume')


def correspondence(ctx):
    _assumptions(ctx)
    rng = random.Random(ctx.rng.random())
    strs = _all_strings(4 if ctx.quick else 5) + _fragment_strings(4 if ctx.quick else 5) + \
        _random_strings(rng, 3000 if ctx.quick else 40000)
    ctx.exhaustive = True
    ctx.notes['exhaustive_alphabet'] = [hex(ord(c)) for c in ALPHA]
    ctx.notes['exhaustive_maxlen'] = 4 if ctx.quick else 5
    _corr_repr(ctx, strs)
    _corr_decoder(ctx, 6000 if ctx.quick else 60000)
    dstrs = _all_strings(3) + _random_strings(rng, 600 if ctx.quick else 6000, lo=1, hi=30)
    _corr_doc(ctx, dstrs)
    _corr_comment(ctx)
    lp = [s for _, s in lits.programs()]
    if ctx.quick:
        lp = rng.sample(lp, 500)
    _corr_indentable(ctx, lp + _programs(ctx, 120 if ctx.quick else 1200, 10 if ctx.quick else 150))


# ---- sweep: docstrings ---------------------------------------------------------------------------------------------

def _first_string_token(src, ln0):
    """text of the first STRING token starting on or after 0-based line ln0 (CPython tokenizer)"""
    for t in tokenize.generate_tokens(io.StringIO(src).readline):
        if t.type == tokenize.STRING and t.start[0] - 1 >= ln0:
            return t.string
    return None


def _precond(s):
    return not s.split('\n')[0][:1].isspace()


def hash_small(s):
    return sum((i + 1) * ord(c) for i, c in enumerate(s)) % 1009


def _doc_one(host, s):
    """returns (failure-class, detail) or None"""
    src, pick, _ = DOC_HOSTS[host]
    root = _mk(src)
    node = pick(root)
    npath = _ser_path(root.child_path(node)) if node is not root else []
    if len(s) <= 2 or hash_small(s) % 8 == 0:
        _read_set(root, npath)
    try:
        node.put_docstr(s)
    except Exception as e:
        return 'raised:' + type(e).__name__, str(e)[:200]
    try:
        got = node.get_docstr()
    except Exception as e:
        return 'get-raised:' + type(e).__name__, str(e)[:200]
    if _precond(s) and got != s:
        return 'get!=put', f'get_docstr() = {got!r}'
    d = util.tree_equals_parse(root)
    if d:
        return 'tree!=parse', d[:300]
    b0 = node.a.body[0]
    live = b0.value.value
    tok = _first_string_token(root.src, b0.lineno - 1)
    try:
        den = ast.literal_eval(tok)
    except Exception as e:
        return 'literal-unreadable', f'{tok!r}: {e}'
    if den != live:
        return 'value!=literal', f'Constant.value = {live!r}, source literal denotes {den!r}'
    if host == 'module' and live != s:
        return 'value!=text', f'Constant.value = {live!r}'
    if len(s) <= 2 or hash_small(s) % 8 == 0:       # the read-back of all ancestors is the expensive part: a fixed eighth
        st = _stale_after_write(root, npath)
        if st:
            return 'stale-after-write', st
    # independent reading of the value: what inspect-free dedent by the known indentation gives
    return None


def _doc_chunk(arg):
    hosts, strs = arg
    out = []
    for i, s in enumerate(strs):
        for h in hosts if len(hosts) < 3 else [hosts[i % len(hosts)]]:
            r = _doc_one(h, s)
            out.append((h, s, r))
    return out


def _sweep_doc(ctx, strs, all_hosts_strs):
    hosts = list(DOC_HOSTS)
    chunks = [(hosts, strs[i:i + 300]) for i in range(0, len(strs), 300)]
    chunks += [(hosts[:2], all_hosts_strs[i:i + 100]) for i in range(0, len(all_hosts_strs), 100)]
    chunks += [(hosts[2:4], all_hosts_strs[i:i + 100]) for i in range(0, len(all_hosts_strs), 100)]
    chunks += [(hosts[4:6], all_hosts_strs[i:i + 100]) for i in range(0, len(all_hosts_strs), 100)]
    n = 0
    for lst in pmap(_doc_chunk, chunks):
        for h, s, r in lst:
            n += 1
            ctx.count('doc:' + h + ':' + repr(s), len(s) > 0)
            ctx.tally('docstr_class', _strclass(s))
            if r:
                ctx.fail(f'C08|docstr|{_strclass(s)}|{r[0]}', f'put_docstr({s!r}) on host {h}: {r[0]}: {r[1]}',
                         {'op': 'docstr', 'host': h, 's': s})
    ctx.notes['docstr_roundtrips'] = n
    ctx.sample({'docstr': {'host': 'def', 's': 'a"""\'\'\'\\'}})


# ---- sweep: line comments on corpus statements --------------------------------------------------------------------

def _cclass(c):
    if '\r' in c:
        return 'CR'
    if '\0' in c:
        return 'NUL'
    if any(ord(ch) < 32 or ord(ch) == 127 for ch in c):
        return 'control'
    if not c.isascii():
        return 'nonascii'
    if '#' in c:
        return 'hash'
    return 'plain'


SWEEP_COMMENTS = [c for c in COMMENTS if '\n' not in c] + ['x' * 60]      # incl. '\r' / NUL texts: must be refused or harmless


def _read_set(root, path):
    """answers of the read accessors on the node at `path` and on every ancestor (what a user sees after a write; also
    fills the caches when called before it)"""
    out = []
    f = _de_path(root, path) if path else root
    while f is not None:
        rec = [f.a.__class__.__name__]
        for fn in (lambda: f.own_src(), lambda: tuple(f.bloc) if f.bloc else None, lambda: tuple(f.loc) if f.loc else None,
                   lambda: f.get_line_comment(full=True), lambda: f.get_docstr(), lambda: f.copy().src):
            try:
                rec.append(fn())
            except Exception as e:
                rec.append(f'<{type(e).__name__}>')
        out.append(rec)
        f = f.parent
    return out


def _stale_after_write(root, path, before_called=True):
    """compare the read accessors on the written tree with those of a fresh tree made from its source; None if equal"""
    try:
        fresh_root = _mk(root.src)
    except Exception:
        return None
    live = _read_set(root, path)
    fresh = _read_set(fresh_root, path)
    if live != fresh:
        for a, b in zip(live, fresh):
            if a != b:
                names = ['kind', 'own_src()', 'bloc', 'loc', 'get_line_comment(full=True)', 'get_docstr()', 'copy().src']
                k = next(i for i in range(len(a)) if a[i] != b[i])
                return f'{names[k]} of {a[0]} answers {a[k]!r:.160}, a fresh tree of the same source {b[k]!r:.160}'
        return 'ancestor chains differ'
    return None


def _comment_case(arg):
    src, seed, per = arg
    rng = random.Random(seed)
    out = []
    try:
        root = _mk(src)
    except Exception:
        return out
    d0 = ast.dump(root.a)
    paths = [root.child_path(f) for f in root.walk(True) if isinstance(f.a, (ast.stmt, ast.ExceptHandler, ast.match_case))]
    rng.shuffle(paths)
    for path in paths[:per]:
        c = rng.choice(SWEEP_COMMENTS)
        full = rng.random() < 0.3
        cc = (rng.choice(['  # ', '#', ' #']) + c) if full else c
        root = _mk(src)
        f = root.child_from_path(path)
        kind = f.a.__class__.__name__
        w = {'op': 'comment', 'src': src, 'path': _ser_path(path), 'comment': cc, 'full': full}
        _read_set(root, _ser_path(path))        # a user who has looked at the node and its parents before writing
        try:
            f.put_line_comment(cc, full=full)
        except Exception as e:
            cls = 'refused' if type(e).__name__ in REFUSALS else 'raised:' + type(e).__name__
            out.append((kind, _cclass(c), cls, str(e)[:200], w))
            continue
        k = rng.randint(1, 3)
        r = None
        s = _stale_after_write(root, _ser_path(path))       # right after the write, before anything else flushes caches
        if s:
            r = ('stale-after-write', s)
            k = 0
        for _ in range(k):
            got = f.get_line_comment(full=full)
            exp = cc if full else cc.strip()
            if got != exp:
                r = ('get!=put', f'get_line_comment() = {got!r}, expected {exp!r}')
                break
            f.put_line_comment(got, full=full)
        if r is None and ast.dump(root.a) != d0:
            r = ('ast-changed', 'ast.dump differs after writing a comment')
        if r is None:
            d = util.tree_equals_parse(root)
            if d:
                r = ('tree!=parse', d[:300])
        out.append((kind, _cclass(c), r[0] if r else None, r[1] if r else '', w))
    return out


def _ser_path(path):
    return [[p.name, p.idx] for p in path]


def _de_path(root, path):
    f = root
    for name, idx in path:
        v = getattr(f.a, name)
        f = (v[idx] if idx is not None else v).f
    return f


def _sweep_comments(ctx, progs, per):
    n = ref = 0
    res = pmap(_comment_case, [(p, ctx.rng.randrange(1 << 30), per) for p in progs])
    for lst in res:
        for kind, ccls, r, detail, w in lst:
            n += 1
            ctx.count('lc:' + repr(w), True)
            ctx.tally('comment_stmt_kind', kind)
            if r == 'refused':
                ref += 1
            elif r:
                # the character class decides for the two control characters CPython treats specially; else the kind
                who = ccls if ccls in ('CR', 'NUL') else kind
                ctx.fail(f'C08|line_comment|{who}|{r}', f'put_line_comment({w["comment"]!r}, full={w["full"]}) on {kind}: {r}: {detail}', w)
    ctx.notes['line_comment_roundtrips'] = n
    ctx.notes['line_comment_refused'] = ref


# ---- sweep: structural round trips --------------------------------------------------------------------------------

_CTX_RE = re.compile(r'ctx=(Load|Store|Del)\(\)')
_ANYWS_RE = re.compile(r'(?: |\\t)+')
_NLWS_RE = re.compile(r'\\n(?: |\\t)*')


def _underindented_docstr(src):
    """does the program have a multi-line string statement with a continuation line indented less than its block?
    (pfst treats such strings as re-indentable, so a copy cannot be put back unchanged: class of its own)"""
    try:
        tree = ast.parse(src)
    except SyntaxError:
        return False
    lines = src.split('\n')
    for n in ast.walk(tree):
        if isinstance(n, ast.Expr) and isinstance(n.value, ast.Constant) and isinstance(n.value.value, str) \
                and n.end_lineno > n.lineno:
            ind = lines[n.lineno - 1][:len(lines[n.lineno - 1]) - len(lines[n.lineno - 1].lstrip(' \t'))]
            if ind and any(l and not l.startswith(ind) for l in lines[n.lineno:n.end_lineno]):
                return True
    return False


def _diff_class(d1, d0, kind, src=None):
    """(node kind, failure class) of a structural difference: a difference only in the whitespace that follows newlines
    inside string constants is the re-indentation of a multi-line docstring (class of its own)"""
    if _NLWS_RE.sub(r'\\n', d1) == _NLWS_RE.sub(r'\\n', d0):
        if src is not None and _underindented_docstr(src):
            return 'Expr-str', 'docstr-underindented'
        return 'Expr-str', 'docstr-value-reindented'
    if src is not None and '\\\n' in src and _ANYWS_RE.sub('', d1) == _ANYWS_RE.sub('', d0):
        # a backslash-newline inside a docstring: the indentation of the next line is part of the value without a
        # newline before it; same mechanism, same classes
        if _underindented_docstr(src):
            return 'Expr-str', 'docstr-underindented'
        return 'Expr-str', 'docstr-value-reindented'
    return kind, 'dump-differs'



def _in_fstring(f):
    p = f
    while p is not None:
        if p.a.__class__.__name__ in ('JoinedStr', 'FormattedValue', 'TemplateStr', 'Interpolation'):
            return True
        p = p.parent
    return False


def _struct_case(arg):
    src, seed, per = arg
    rng = random.Random(seed)
    out = []        # (op, kind, failure-class|None|'refused', detail, witness)
    try:
        root = _mk(src)
    except Exception:
        return out
    d0 = ast.dump(root.a)
    nodes = [f for f in root.walk(True) if f is not root]
    paths = [root.child_path(f) for f in nodes]
    lfs = []
    for f in [root] + nodes:
        a = f.a
        for name in a._fields:
            v = getattr(a, name, None)
            if isinstance(v, list) and v and all(isinstance(x, (ast.AST, str)) for x in v) and name != 'type_ignores':
                lfs.append(([] if f is root else root.child_path(f), name, len(v)))
    rng.shuffle(paths)
    # (1) replace by own copy / pure AST / own source, k times
    for path in paths[:per]:
        for form in ('copy', 'ast', 'src'):
            root = _mk(src)
            f = root.child_from_path(path)
            kind = f.a.__class__.__name__
            if form != 'copy' and _in_fstring(f):
                continue    # pure AST / standalone source lose the spelling that a self-documenting `{expr=}` field records
            k = rng.randint(1, 3)
            w = {'op': 'replace-' + form, 'src': src, 'path': _ser_path(path), 'k': k}
            r = None
            for _ in range(k):
                try:
                    code = f.copy() if form == 'copy' else f.copy_ast() if form == 'ast' else f.own_src()
                    f.replace(code)
                except Exception as e:
                    nm = type(e).__name__
                    r = ('refused', str(e)[:120]) if nm in REFUSALS else ('crash:' + nm, str(e)[:200])
                    break
                d1 = ast.dump(root.a)
                if d1 != d0:
                    kind, fc = _diff_class(d1, d0, kind, src)
                    r = (fc, util.first_diff(d1, d0) + ' new source: ' + root.src[:300])
                    break
                d = util.tree_equals_parse(root)
                if d:
                    r = ('tree!=parse', d[:300] + ' new source: ' + root.src[:300])
                    break
                f = root.child_from_path(path)
                if not f:
                    r = ('path-lost', 'node no longer at its path')
                    break
            out.append(('replace-' + form, kind, r[0] if r else None, r[1] if r else '', w))
    # (2) cut / copy an element or a slice of a list field and put it back at the same place
    rng.shuffle(lfs)
    for path, name, n in lfs[:per]:
        s = rng.randrange(n)
        e = rng.randint(s + 1, n) if rng.random() < 0.5 else s + 1
        for mode in ('cut-slice', 'copy-slice', 'cut-one'):
            if mode == 'cut-one' and e != s + 1:
                continue
            root = _mk(src)
            f = root.child_from_path(path) if path else root
            if mode == 'cut-one' and isinstance(getattr(f.a, name)[s], str):
                continue        # identifier lists (Global.names ...) have no element nodes: slices only
            kind = f.a.__class__.__name__ + '.' + name
            k = rng.randint(1, 2)
            w = {'op': mode, 'src': src, 'path': _ser_path(path), 'field': name, 'start': s, 'stop': e, 'k': k}
            r = None
            for _ in range(k):
                stage = 'take'
                try:
                    if mode == 'cut-one':
                        piece = getattr(f.a, name)[s].f.cut()
                        stage = 'put'
                        if len(getattr(f.a, name)) == n:        # element position kept (set to None): plain put
                            f.put(piece, s, name)
                        else:
                            f.put_slice(piece, s, s, name, one=True)
                    elif mode == 'cut-slice':
                        piece = f.get_slice(s, e, name, cut=True)
                        stage = 'put'
                        f.put_slice(piece, s, s, name)
                    else:
                        piece = f.get_slice(s, e, name)
                        stage = 'put'
                        f.put_slice(piece, s, e, name)
                except Exception as ex:
                    nm = type(ex).__name__
                    r = ('refused', stage + ': ' + str(ex)[:120]) if nm in REFUSALS else \
                        ('crash:' + nm, stage + ': ' + str(ex)[:200])
                    break
                d1 = ast.dump(root.a)
                if d1 != d0:
                    kind, fc = _diff_class(d1, d0, kind, src)
                    r = (fc, util.first_diff(d1, d0) + ' new source: ' + root.src[:300])
                    break
                d = util.tree_equals_parse(root)
                if d:
                    if d.startswith('source no longer parses') and root.src.rstrip(' \t\n').endswith('\\'):
                        # a line continuation left dangling at the very end of the source (class of its own, any list)
                        kind, d = 'list-tail', 'eof-backslash ' + d
                        r = ('eof-backslash', d[:300] + ' new source: ' + root.src[-200:])
                    else:
                        r = ('tree!=parse', d[:300] + ' new source: ' + root.src[:300])
                    break
                f = root.child_from_path(path) if path else root
            out.append((mode, kind, r[0] if r else None, r[1] if r else '', w))
    # (3) own_src parses back to the node
    root = _mk(src)
    nodes = [f for f in root.walk(True)]
    rng.shuffle(nodes)
    for f in nodes[:per * 2]:
        kind = f.a.__class__.__name__
        if _in_fstring(f) or kind in ('Load', 'Store', 'Del'):
            continue
        w = {'op': 'own_src', 'src': src, 'path': _ser_path(root.child_path(f)) if f is not root else []}
        r = _own_src_check(f)
        out.append(('own_src', kind, r[0] if r else None, r[1] if r else '', w))
    return out


def _own_src_check(f):
    from fst import FST
    try:
        # statements: docstr=False (the default dedents docstrings, changing their value by design); a string
        # Constant is an expression, its own source is verbatim whatever the option (also the Constant of a docstring)
        s = f.own_src() if f.a.__class__ is ast.Constant else f.own_src(docstr=False)
    except Exception as e:
        return 'crash:' + type(e).__name__, str(e)[:200]
    want = _CTX_RE.sub('ctx=_', ast.dump(f.a))
    a = f.a
    got = None
    try:        # CPython first, where the fragment is something CPython can parse as it stands
        if isinstance(a, ast.Module):
            got = ast.parse(s)
        elif isinstance(a, ast.stmt):
            m = ast.parse(s)
            got = m.body[0] if len(m.body) == 1 else None
        elif isinstance(a, ast.expr) and not isinstance(a, (ast.Starred, ast.Slice)):
            got = ast.parse('(\n' + s + '\n)', mode='eval').body
            if isinstance(a, ast.Tuple) and not isinstance(got, ast.Tuple):
                got = None
    except SyntaxError:
        got = None
    if got is None:
        try:
            got = FST(s, a.__class__).a
        except Exception as e:
            if type(e).__name__ in REFUSALS:
                # statements and expressions always stand alone (possibly in parentheses); other kinds (alias in a
                # parenthesised import, comprehension, arguments ...) may depend on their surroundings: tallied only
                if isinstance(a, (ast.stmt, ast.expr)):
                    return 'unparsable', f'own_src {s!r} does not parse standalone: {e}'[:300]
                return 'refused', f'own_src {s!r} not parsable standalone: {e}'[:200]
            return 'crash:' + type(e).__name__, str(e)[:200]
    have = _CTX_RE.sub('ctx=_', ast.dump(got))
    if have != want:
        return 'dump-differs', util.first_diff(have, want) + f' own_src: {s[:200]!r}'
    return None


def _sweep_struct(ctx, progs, per):
    res = pmap(_struct_case, [(p, ctx.rng.randrange(1 << 30), per) for p in progs])
    n = 0
    refused = {}
    for lst in res:
        for op, kind, r, detail, w in lst:
            n += 1
            ctx.count('st:' + repr(w), True)
            ctx.tally('struct_op', op)
            if r == 'refused':
                refused[op] = refused.get(op, 0) + 1
            elif r:
                ctx.fail(f'C08|{op}|{kind}|{r}', f'{op} on {kind}: {r}: {detail}', w)
    ctx.notes['structural_roundtrips'] = n
    ctx.notes['structural_refused'] = refused
    if res and res[0]:
        ctx.sample({'struct': {k: v for k, v in res[0][0][4].items() if k != 'src'}, 'src': res[0][0][4]['src'][:200]})


# ---- indentable lines: correspondence with Pfst.Indentable, and value-level round trips of literal statements -----

_MODES = [(False, 0), (True, 1), ('strict', 2)]


def _indentable_items(src):
    """cases for one program: _get_indentable_lns of the root and of statements, every docstr mode, skip 0/1; plus the
    text after _indent_lns / _dedent_lns of the whole tree"""
    try:
        strs = lits.string_tokens(src)
        root = _mk(src)
    except Exception:
        return []
    out = []
    nodes = [root] + [f for f in root.walk(True) if isinstance(f.a, ast.stmt)][:12]
    for mode, mi in _MODES:
        items, real = [], []
        for f in nodes:
            for skip in (0, 1):
                if f is root:
                    lo, hi = 0, len(root.lines) - 1
                else:
                    lo, hi = f.bln, f.bend_ln
                items.append([lo, skip, hi])
                real.append(sorted(f._get_indentable_lns(skip, docstr=mode)))
        case = {'f': 'C08.indentable', 'mode': mi, 'strs': strs, 'items': items}
        impl = {'lns': real}
        # text: indent the whole program, then dedent it again
        r2 = _mk(src)
        try:
            r2._indent_lns('  \t', skip=0, docstr=mode)
            ind_lines = [str(l) for l in r2.lines]
            r2._dedent_lns('  \t', skip=0, docstr=mode)
            ded_lines = [str(l) for l in r2.lines]
            case.update({'ind': _cps('  \t'), 'lo': 0, 'lines': [_cps(l) for l in src.split('\n')]})
            impl.update({'indent': ind_lines, 'dedent_of_indent': ded_lines})
        except Exception as e:
            impl['text_exc'] = type(e).__name__
        out.append((case, impl, src, mode))
    return out


def _corr_indentable(ctx, progs):
    name = '_get_indentable_lns / _indent_lns / _dedent_lns vs Pfst.Indentable'
    triples = [x for lst in pmap(_indentable_items, progs) for x in lst]
    cases = [c for c, _, _, _ in triples]
    try:
        outs = ctx.lean(cases)
    except Exception as e:
        ctx.brk('correspondence', name, f'driver error: {e}')
        return
    bad = 0
    for (case, impl, src, mode), mo in zip(triples, outs):
        ctx.corr_cases += 1
        m = mo.get('out', mo)
        ctx.count('indentable:' + repr(mode) + repr(src), bool(case['strs']))
        ok = isinstance(m, dict) and m.get('lns') == impl['lns']
        if ok and 'indent' in impl:
            mi = [_str(l) for l in m.get('indent', [])]
            # dedent ∘ indent on the model side is the identity (theorem reindent_roundtrip); the implementation must agree
            ok = mi == impl['indent'] and impl['dedent_of_indent'] == src.split('\n')
        if not ok:
            bad += 1
            _disagree(ctx, name, {'src': src, 'docstr': mode, 'strs': case['strs']}, impl,
                      m if not isinstance(m, dict) else {'lns': m.get('lns'), 'indent': [_str(l) for l in m.get('indent', [])]})
    ctx.tally('correspondence_cases', name)
    ctx.dist['correspondence_cases'][name] = len(cases)
    if bad:
        ctx.brk('correspondence', name, f'{bad}/{len(cases)} differ; first: ' + repr(_FIRST.get(name))[:1200])


def _consistent(piece):
    """a copied / cut piece must be what its own source denotes (CPython), values included; None if so"""
    a = piece.a
    try:
        parsed = ast.parse(piece.src)
    except SyntaxError as e:
        return f'source of the piece does not parse: {e}'
    if not isinstance(a, ast.Module):
        if len(parsed.body) != 1:
            return None
        parsed = parsed.body[0]
    d1, d2 = ast.dump(a), ast.dump(parsed)
    if d1 != d2:
        return 'piece AST is not what its source denotes: ' + util.first_diff(d1, d2)
    return None


def _piece_stmt(piece):
    a = piece.a
    return a.body[0] if isinstance(a, ast.Module) and len(a.body) == 1 else a


def _lit_one(src, path, op, lk, d0):
    """one value-level round trip; returns (kind, (failure-class, detail) | None)"""
    root = _mk(src)
    f = _de_path(root, path)
    want = lits.nodoc_dump(f.a)
    kind = lk
    try:
        if op == 'own_src':
            s = f.own_src()
            got = ast.parse(s)
            if len(got.body) != 1 or lits.nodoc_dump(got.body[0]) != want:
                return kind, ('value-changed', f'own_src() denotes another node: {s!r}')
        elif op == 'copy':
            c = f.copy()
            r0 = _consistent(c)
            if r0:
                return kind, ('piece-inconsistent', r0 + f' piece source: {c.src!r}')
            if lits.nodoc_dump(_piece_stmt(c)) != want:
                return kind, ('value-changed', f'copy() is another node: {c.src!r}')
        else:
            for _ in range(2):
                f = _de_path(root, path)
                parent = f.parent
                name, idx = path[-1]
                if op == 'cut-slice':
                    piece = parent.get_slice(idx, idx + 1, name, cut=True)
                    r0 = _consistent(piece)
                    if r0:
                        return kind, ('piece-inconsistent', r0 + f' piece source: {piece.src!r}')
                    parent.put_slice(piece, idx, idx, name)
                else:
                    f.replace(f.copy())
                d1 = ast.dump(root.a)
                if d1 != d0:
                    kind, fc = _diff_class(d1, d0, lk, src)
                    return kind, (fc, util.first_diff(d1, d0) + ' new source: ' + root.src[:300])
                d = util.tree_equals_parse(root)
                if d:
                    return kind, ('tree!=parse', d[:300] + ' new source: ' + root.src[:300])
    except Exception as ex:
        nm = type(ex).__name__
        return kind, (('refused', str(ex)[:120]) if nm in REFUSALS else ('crash:' + nm, str(ex)[:200]))
    return kind, None


def _lit_case(arg):
    """value-level round trips of one literal program: own_src / copy / cut+put back / replace-by-copy of the literal
    statement and of every enclosing statement"""
    meta, src = arg
    out = []       # (op, kind, failure-class|None|'refused', detail, witness, meta)
    lk = 'Expr-bytes' if meta['bytes'] else 'Expr-str'
    d0 = ast.dump(_mk(src).a)
    for path in lits.target_paths(meta):
        for op in ('own_src', 'copy', 'cut-slice', 'replace-copy'):
            w = {'op': 'lit-' + op, 'src': src, 'path': path, 'lk': lk}
            kind, r = _lit_one(src, path, op, lk, d0)
            out.append((op, kind, r[0] if r else None, r[1] if r else '', w, meta))
    return out


def _sweep_literals(ctx, progs):
    n = ref = 0
    for lst in pmap(_lit_case, progs):
        for op, kind, r, detail, w, meta in lst:
            n += 1
            ctx.count('lit:' + repr(w), True)
            ctx.tally('literal_stmt', ('bytes ' if meta['bytes'] else 'str ') + meta['form'])
            if r == 'refused':
                ref += 1
            elif r:
                # cut + put back / replace of str docstrings share the signatures of the structural sweep (C08-F5)
                sop = op if kind == 'Expr-str' and r.startswith('docstr-') else 'lit-' + op
                ctx.fail(f'C08|{sop}|{kind}|{r}', f'{op} around a multi-line {kind[5:]} expression statement '
                         f'({meta["form"]}, block {meta["block"]}, continuation indent {meta["ci"]!r}): {r}: {detail}', w)
    ctx.notes['literal_roundtrips'] = n
    ctx.notes['literal_refused'] = ref


# ---- take-out / put-back at every statement position of every block kind (deterministic product) ----------------------

def _blk_code(f, form):
    if form == 'copy':
        return f.copy()
    if form == 'src':
        return f.copy().src
    if form == 'own_src':
        return f.own_src()
    return f.copy_ast()


def _blk_one(src, path, field, idx, form, via, elif_, d0):
    """put the statement at (path, field, idx) back onto itself; returns (failure (class, detail) | None, observation)"""
    from fst import FST
    root = _mk(src)
    parent = _de_path(root, path)
    f = getattr(parent.a, field)[idx].f
    opts = {} if elif_ is None else {'elif_': elif_}
    obs = None
    try:
        if via == 'cut':
            piece = f.cut()
            parent.put_slice(piece, idx, idx, field, one=True, **opts)
        else:
            code = _blk_code(f, form)
            if via == 'replace':
                f.replace(code, **opts)
            elif via == 'put':
                parent.put(code, idx, field, **opts)
            elif via == 'put_slice':
                parent.put_slice(code, idx, idx + 1, field, one=True, **opts)
            else:
                with FST.options(**opts):
                    getattr(parent, field)[idx] = code
    except Exception as ex:
        nm = type(ex).__name__
        return (('refused', str(ex)[:120]) if nm in REFUSALS else ('crash:' + nm, str(ex)[:200])), None
    first = getattr(parent.a, field)[0]
    obs = bool(isinstance(first, ast.If) and field == 'orelse' and isinstance(parent.a, ast.If) and first.f.is_elif())
    new = root.src
    try:
        d2 = ast.dump(ast.parse(new))
    except SyntaxError as e:
        return ('unparsable', f'{e.msg} line {e.lineno}; new source: {new[:300]!r}'), obs
    if d2 != d0:
        return ('parse-differs', util.first_diff(d2, d0) + f' new source: {new[:300]!r}'), obs
    d1 = ast.dump(root.a)
    if d1 != d0:
        return ('dump-differs', util.first_diff(d1, d0)), obs
    d = util.tree_equals_parse(root)
    if d:
        return ('tree!=parse', d[:300]), obs
    return None, obs


def _blk_case(arg):
    meta, src = arg
    out = []       # (via, form, kind, failure|None|'refused', detail, witness, corr-record|None)
    d0 = ast.dump(ast.parse(src))
    root = _mk(src)
    for path, field, idx, n, pkind, skind in blks.positions(src):
        is_if = skind == 'If'
        elifs = (None, True, False) if (field == 'orelse' or is_if) else (None,)
        parent = _de_path(root, path)
        old_elif = bool(field == 'orelse' and pkind == 'If' and n == 1 and is_if and getattr(parent.a, field)[0].f.is_elif())
        if field == 'orelse' or is_if:
            combos = [(form, via) for form in blks.FORMS for via in blks.VIAS] + [('copy', 'cut')]
        else:
            combos = [('copy', 'replace'), ('ast', 'put_slice'), ('own_src', 'put'), ('src', 'view'), ('copy', 'cut')]
        for elif_ in elifs:
            for form, via in combos:
                w = {'op': 'blk', 'src': src, 'path': path, 'field': field, 'idx': idx, 'form': form, 'via': via, 'elif_': elif_}
                r, obs = _blk_one(src, path, field, idx, form, via, elif_, d0)
                corr = None
                if obs is not None and via in ('put_slice', 'replace'):
                    corr = ([int(idx > 0), int(idx < n - 1), int(field == 'orelse'), int(pkind == 'If'),
                             int(True if elif_ is None else elif_), int(old_elif), 1, int(is_if)], obs)
                out.append((via, form, f'{pkind}.{field}', r[0] if r else None, r[1] if r else '', w, corr))
    return out


def _sweep_blocks(ctx, progs):
    name = 'else/elif header after a statement replacement vs Pfst.PutBack.elifDecision'
    n = ref = 0
    items, observed, wits = [], [], []
    for lst in pmap(_blk_case, progs):
        for via, form, kind, r, detail, w, corr in lst:
            n += 1
            ctx.count('blk:' + repr(w), True)
            ctx.tally('block_position', kind)
            if corr is not None:
                items.append(corr[0])
                observed.append(corr[1])
                wits.append(w)
            if r == 'refused':
                ref += 1
            elif r:
                ctx.fail(f'C08|blk-{via}-{form}|{kind}|{r}',
                         f'statement {w["idx"]} of {kind} put back onto itself ({form} via {via}, elif_={w["elif_"]}): {r}: {detail}', w)
    ctx.notes['block_roundtrips'] = n
    ctx.notes['block_refused'] = ref
    outs = _batched(ctx, name, 'C08.elif', 'items', items)
    if outs is not None:
        bad = 0
        for it, ob, w, mo in zip(items, observed, wits, outs):
            ctx.corr_cases += 1
            if (mo == 1) != ob:
                bad += 1
                _disagree(ctx, name, {k: v for k, v in w.items()}, {'first statement of the block is an elif afterwards': ob},
                          {'decision': ['keep', 'toElif', 'toElse'][mo] if isinstance(mo, int) else mo, 'features': it})
        ctx.tally('correspondence_cases', name)
        ctx.dist['correspondence_cases'][name] = len(items)
        if bad:
            ctx.brk('correspondence', name, f'{bad}/{len(items)} differ; first: ' + repr(_FIRST.get(name))[:1000])


# ---- read accessors: every answer is independent of earlier reads and equals the answer of a fresh tree --------------

_ACC_CTX = [{}, {'docstr': False}, {'docstr': 'strict'}, {'docstr': True}]
_OWN = [('own_src', None), ('own_src', True), ('own_src', False), ('own_src', 'strict')]
_OTHER = [('own_lines', None), ('own_lines', False), ('get_docstr',), ('get_line_comment', False),
          ('get_line_comment', True), ('copy_src',), ('own_src_whole_false',)]


def _acc_call(f, acc):
    nm = acc[0]
    try:
        if nm == 'own_src':
            return f.own_src() if acc[1] is None else f.own_src(docstr=acc[1])
        if nm == 'own_lines':
            return list(map(str, f.own_lines() if acc[1] is None else f.own_lines(docstr=acc[1])))
        if nm == 'get_docstr':
            return f.get_docstr()
        if nm == 'get_line_comment':
            return f.get_line_comment(full=acc[1])
        if nm == 'copy_src':
            return f.copy().src
        if nm == 'own_src_whole_false':
            return f.own_src(whole=False)
    except Exception as e:
        return f'<{type(e).__name__}>'
    raise ValueError(nm)


def _acc_seq(src, path, seq):
    """run a sequence of (accessor, ctx index) on ONE tree; returns the answers"""
    from fst import FST
    root = _mk(src)
    f = _de_path(root, path) if path else root
    out = []
    for acc, ci in seq:
        with FST.options(**_ACC_CTX[ci]):
            out.append(_acc_call(f, tuple(acc)))
    return out


def _acc_case(arg):
    src, paths = arg
    out = []
    perms = list(itertools.permutations(range(4)))
    for path in paths:
        accs = _OWN + _OTHER
        ref = {}
        for ai, acc in enumerate(accs):
            for ci in range(len(_ACC_CTX)):
                ref[(ai, ci)] = _acc_seq(src, path, [(acc, ci)])[0]
        seqs = []
        for pm in perms:                       # all orders of the four own_src(docstr=...) calls, contexts rotating
            for shift in range(4):
                seqs.append([(pm[j], (j + shift) % 4) for j in range(4)])
        for rot in range(len(accs)):           # all accessors, rotated starting points, contexts rotating
            seqs.append([((rot + j) % len(accs), (j + rot) % 4) for j in range(len(accs))])
            seqs.append([((rot - j) % len(accs), (j * 3 + rot) % 4) for j in range(len(accs))])
        bad = None
        ncalls = 0
        for sq in seqs:
            ans = _acc_seq(src, path, [(accs[ai], ci) for ai, ci in sq])
            ncalls += len(sq)
            for j, ((ai, ci), a) in enumerate(zip(sq, ans)):
                if a != ref[(ai, ci)]:
                    bad = (accs[ai], {'op': 'acc', 'src': src, 'path': path,
                                      'seq': [[list(accs[x]), c] for x, c in sq[:j + 1]]},
                           f'call {j} = {accs[ai]} under options {_ACC_CTX[ci]} after {[accs[x] for x, _ in sq[:j]]} answered '
                           f'{a!r:.200}, a fresh tree answers {ref[(ai, ci)]!r:.200}')
                    break
            if bad:
                break
        out.append((ncalls, bad))
    return out


def _sweep_accessors(ctx, progs):
    n = 0
    for lst in pmap(_acc_case, progs):
        for ncalls, bad in lst:
            n += ncalls
            ctx.count('acc:' + repr(bad[1] if bad else n), True, n=1)
            if bad:
                acc, w, what = bad
                ctx.fail(f'C08|accessor-order|{acc[0]}|differs-from-fresh', what, w)
    ctx.evaluations += n
    ctx.notes['accessor_calls_in_sequences'] = n


# ---- statement families (extracted) and the fix-up after a put into a with-item -----------------------------------------

FAMILIES = ['ASTS_LEAF_WITH', 'ASTS_LEAF_FOR', 'ASTS_LEAF_FUNCDEF', 'ASTS_LEAF_TRY']


def extract(ctx):
    """lean/Pfst/Gen/C08Families.lean: membership of every statement kind in the sync/async families pfst decides by"""
    from fst import asttypes
    kinds = sorted(c.__name__ for c in asttypes.ASTS_LEAF_STMT)
    rows = []
    for k in kinds:
        cls = getattr(asttypes, k)
        rows.append('  ("%s", [%s])' % (k, ', '.join('true' if cls in getattr(asttypes, f) else 'false' for f in FAMILIES)))
    txt = ('-- GENERATED by harness/props/C08.py extract() from /repo/src/fst/asttypes.py; do not edit\n'
           'namespace Pfst.Gen.C08Families\n\n/-- columns: ' + ', '.join(FAMILIES) + ' -/\n'
           'def table : List (String × List Bool) := [\n' + ',\n'.join(rows) + ']\n\nend Pfst.Gen.C08Families\n')
    write_if_changed(LEAN / 'Pfst' / 'Gen' / 'C08Families.lean', txt)
    # every identifier normaliser of code.py on every code form: does it return the NFKC form CPython will read?
    import unicodedata
    from fst import FST
    from fst import code as codemod
    rows = []
    for fn, dotted in (('code_as_identifier', False), ('code_as_identifier_dotted', True), ('code_as_identifier_star', False),
                       ('code_as_identifier_alias', True)):
        f = getattr(codemod, fn)
        probes = IDENT_NAMES + (['pkg.' + n for n in IDENT_NAMES[:3]] + [IDENT_NAMES[0] + '.sub'] if dotted else [])
        for form in IDENT_FORMS:
            ok = True
            for n in probes:
                try:
                    r = f(_ident_code(n, form))
                except Exception:
                    continue        # refusing a form is not a wrong value
                ok = ok and r == unicodedata.normalize('NFKC', n)
            rows.append('  ("%s", "%s", %s)' % (fn, form, 'true' if ok else 'false'))
    txt = ('-- GENERATED by harness/props/C08.py extract() by running /repo/src/fst/code.py; do not edit\n'
           'namespace Pfst.Gen.C08Ident\n\n/-- (normaliser, code form, returns the NFKC form for every probe name it accepts) -/\n'
           'def table : List (String × String × Bool) := [\n' + ',\n'.join(rows) + ']\n\nend Pfst.Gen.C08Ident\n')
    write_if_changed(LEAN / 'Pfst' / 'Gen' / 'C08Ident.lean', txt)


def _hdr_one(src, path, form, d0):
    """replace the expression at `path` by itself, twice; (failure | None, new source)"""
    root = _mk(src)
    try:
        for _ in range(2):
            f = _de_path(root, path)
            code = f.copy() if form == 'copy' else f.copy_ast() if form == 'ast' else f.own_src() if form == 'own_src' \
                else f.copy().src
            f.replace(code)
            new = root.src
            try:
                d2 = ast.dump(ast.parse(new))
            except SyntaxError as e:
                return ('unparsable', f'{e.msg} line {e.lineno}; new source: {new[:200]!r}'), new
            if d2 != d0:
                return ('parse-differs', util.first_diff(d2, d0) + f' new source: {new[:200]!r}'), new
            d1 = ast.dump(root.a)
            if d1 != d0:
                return ('dump-differs', util.first_diff(d1, d0)), new
            d = util.tree_equals_parse(root)
            if d:
                return ('tree!=parse', d[:300]), new
    except Exception as ex:
        nm = type(ex).__name__
        return (('refused', str(ex)[:120]) if nm in REFUSALS else ('crash:' + nm, str(ex)[:200])), None
    return None, root.src


def _hdr_case(arg):
    meta, src = arg
    out = []
    d0 = ast.dump(ast.parse(src))
    root = _mk(src)
    paths = [(_ser_path(root.child_path(f)), f.a.__class__.__name__, f.parent.a.__class__.__name__ + '.' + f.pfield.name)
             for f in root.walk(True) if isinstance(f.a, (ast.expr, ast.pattern)) and not _in_fstring(f)]
    for path, kind, slot in paths:
        for form in ('copy', 'ast', 'own_src', 'copy_src'):
            r, new = _hdr_one(src, path, form, d0)
            w = {'op': 'hdr', 'src': src, 'path': path, 'form': form}
            out.append((form, kind, slot, r[0] if r else None, r[1] if r else '', w, new))
    return out


def _hdrv_case(arg):
    src, (lineno, col), kind = arg
    out = []
    d0 = ast.dump(ast.parse(src))
    root = _mk(src)
    for f in root.walk(True):
        a = f.a
        if a.__class__.__name__ == kind and getattr(a, 'lineno', None) == lineno and getattr(a, 'col_offset', None) == col:
            path = _ser_path(root.child_path(f))
            slot = f.parent.a.__class__.__name__ + '.' + f.pfield.name
            for form in ('copy', 'ast', 'own_src', 'copy_src'):
                r, new = _hdr_one(src, path, form, d0)
                out.append((form, kind, slot, r[0] if r else None, r[1] if r else '',
                            {'op': 'hdr', 'src': src, 'path': path, 'form': form}, new))
            break
    return out


def _corr_annsimple(ctx):
    """AnnAssign.simple after a put into the target: implementation vs Lean rule vs CPython on the new source"""
    name = 'AnnAssign.simple after a put into target vs Pfst.SharedDelims.annSimple'
    items, impls, metas = [], [], []
    for tgt, is_name in (('x', 1), ('a.b', 0), ('a[0]', 0), ('a[b:c]', 0)):
        for npars in (0, 1, 2):
            for tail in (': int = 1', ': int', ': "t" = (1)'):
                for new_tgt in (None, 'y', 'c.d', '(z)'):
                    src = '(' * npars + tgt + ')' * npars + tail + '\n'
                    root = _mk(src)
                    st = root.body[0]
                    try:
                        st.target.replace(st.target.copy() if new_tgt is None else new_tgt)
                    except Exception as e:
                        continue
                    new = root.src
                    try:
                        ref = ast.parse(new).body[0]
                    except SyntaxError:
                        ref = None
                    # parentheses around the new target, counted on the new source with the tokenizer
                    toks = [t for t in util.tokens(new) if t.string not in ('', '\n')]
                    k = 0
                    while toks[k].string == '(':
                        k += 1
                    items.append([int(isinstance(ref.target, ast.Name)) if ref else 0, k])
                    impls.append((st.a.simple, ref.simple if ref else None))
                    metas.append({'src': src, 'put': new_tgt, 'new': new})
    outs = _batched(ctx, name, 'C08.annsimple', 'items', items)
    if outs is None:
        return
    bad = 0
    for it, (live, ref), m, mo in zip(items, impls, metas, outs):
        ctx.corr_cases += 1
        ctx.count('annsimple:' + repr(m), True)
        if not (mo == live == ref):
            bad += 1
            _disagree(ctx, name, m, {'tree.simple': live, 'ast.parse(new source).simple': ref}, {'annSimple': mo, 'features': it})
            if live != ref:
                ctx.fail('C08|replace|AnnAssign.target|simple!=parse',
                         f'after target.replace({m["put"] or "own copy"!r}) on {m["src"]!r} the tree has simple={live}, '
                         f'CPython reads simple={ref} from {m["new"]!r}',
                         {'op': 'annsimple', 'src': m['src'], 'put': m['put']})
    ctx.tally('correspondence_cases', name)
    ctx.dist['correspondence_cases'][name] = len(items)
    if bad:
        ctx.brk('correspondence', name, f'{bad}/{len(items)} differ; first: ' + repr(_FIRST.get(name))[:800])


def _sweep_headers(ctx):
    name = 'fix-up after a put into withitem.context_expr vs Pfst.SharedDelims.fixWithItems'
    n = ref = 0
    progs = hdrs.programs()
    for lst in pmap(_hdr_case, progs):
        for form, kind, slot, r, detail, w, new in lst:
            n += 1
            ctx.count('hdr:' + repr(w), True)
            ctx.tally('header_slot', slot)
            if r == 'refused':
                ref += 1
            elif r:
                ctx.fail(f'C08|hdr-replace-{form}|{slot}:{kind}|{r}',
                         f'{kind} in slot {slot} replaced by itself ({form}): {r}: {detail}', w)
    ctx.notes['header_expr_roundtrips'] = n
    ctx.notes['header_expr_refused'] = ref
    # one more pair of parentheses around every expression of every program: the wrapped node replaced by itself
    variants = [(v, pos, kind) for _, s in progs for v, pos, kind in hdrs.parenthesised_variants(s)]
    nv = 0
    for lst in pmap(_hdrv_case, variants):
        for form, kind, slot, r, detail, w, new in lst:
            nv += 1
            ctx.count('hdrv:' + repr(w), True)
            if r == 'refused':
                ref += 1
            elif r:
                ctx.fail(f'C08|hdr-replace-{form}|{slot}:({kind})|{r}',
                         f'parenthesised {kind} in slot {slot} replaced by itself ({form}): {r}: {detail}', w)
    ctx.notes['header_parenthesised_roundtrips'] = nv
    _corr_annsimple(ctx)
    # the decision: after the sole parenthesised item of a with statement is replaced by its copy, are the statement's
    # own parentheses still there (the fix-up ran)?  Same question for the sync and the async twin.
    cases, obs, wit = [], [], []
    for pair in hdrs.TWIN_WITH:
        for s in pair:
            src = 'async def f():\n    ' + s + '\n'
            root = _mk(src)
            w_ = root.body[0].body[0]
            item = w_.items[0].context_expr
            try:
                item.replace(item.copy())
                new = root.src
                kept = ast.dump(ast.parse(new)) == ast.dump(ast.parse(src))
            except Exception as e:
                kept = f'<{type(e).__name__}>'
            cases.append({'f': 'C08.fixwith', 'kind': w_.a.__class__.__name__})
            obs.append(kept)
            wit.append(src)
    try:
        outs = ctx.lean(cases)
    except Exception as e:
        ctx.brk('correspondence', name, f'driver error: {e}')
        return
    bad = 0
    for c, o, s, mo in zip(cases, obs, wit, outs):
        ctx.corr_cases += 1
        m = mo.get('out', mo)
        if m is not True or o is not True:       # the model says the fix-up runs for both twins; then the item count is kept
            bad += 1
            _disagree(ctx, name, {'src': s, 'parent': c['kind']}, {'items kept after put': o}, {'fix-up runs': m})
    ctx.tally('correspondence_cases', name)
    ctx.dist['correspondence_cases'][name] = len(cases)
    if bad:
        ctx.brk('correspondence', name, f'{bad}/{len(cases)} differ; first: ' + repr(_FIRST.get(name))[:800])


# ---- identifier slots: what is stored is what CPython reads back (NFKC), whatever the code form ------------------------

IDENT_NAMES = ['\U0001d52a\U0001d52c\U0001d521', '\ufb01le', '\xb5', '\uff58', '\xe9', 'plain']   # fraktur, fi-ligature, micro, fullwidth
IDENT_FORMS = ['str', 'lines', 'fst', 'ast']
IDENT_SLOTS = [     # (label, source, path to the node, field, idx, dotted)
    ('Name.id', 'n = 1\n', [['body', 0], ['targets', 0]], 'id', None, False),
    ('Attribute.attr', 'a.n\n', [['body', 0], ['value', None]], 'attr', None, False),
    ('arg.arg', 'def f(n, *, k=1): pass\n', [['body', 0], ['args', None], ['args', 0]], 'arg', None, False),
    ('keyword.arg', 'f(n=1)\n', [['body', 0], ['value', None], ['keywords', 0]], 'arg', None, False),
    ('Import.alias.name', 'import c.d as e\n', [['body', 0], ['names', 0]], 'name', None, True),
    ('Import.alias.asname', 'import c.d as e\n', [['body', 0], ['names', 0]], 'asname', None, False),
    ('ImportFrom.alias.name', 'from a import n as m\n', [['body', 0], ['names', 0]], 'name', None, False),
    ('ImportFrom.alias.asname', 'from a import n as m\n', [['body', 0], ['names', 0]], 'asname', None, False),
    ('ImportFrom.module', 'from a.b import x\n', [['body', 0]], 'module', None, True),
    ('FunctionDef.name', 'def f(): pass\n', [['body', 0]], 'name', None, False),
    ('AsyncFunctionDef.name', 'async def f(): pass\n', [['body', 0]], 'name', None, False),
    ('ClassDef.name', 'class C: pass\n', [['body', 0]], 'name', None, False),
    ('Global.names', 'def f():\n    global n, m\n', [['body', 0], ['body', 0]], 'names', 0, False),
    ('Nonlocal.names', 'def f():\n    n = 1\n    def g():\n        nonlocal n\n', [['body', 0], ['body', 1], ['body', 0]], 'names', 0, False),
    ('ExceptHandler.name', 'try: pass\nexcept E as n: pass\n', [['body', 0], ['handlers', 0]], 'name', None, False),
    ('MatchAs.name', 'match a:\n    case n: pass\n', [['body', 0], ['cases', 0], ['pattern', None]], 'name', None, False),
    ('MatchStar.name', 'match a:\n    case [*n]: pass\n', [['body', 0], ['cases', 0], ['pattern', None], ['patterns', 0]], 'name', None, False),
    ('MatchMapping.rest', 'match a:\n    case {**n}: pass\n', [['body', 0], ['cases', 0], ['pattern', None]], 'rest', None, False),
    ('MatchClass.kwd_attrs', 'match a:\n    case C(n=1): pass\n', [['body', 0], ['cases', 0], ['pattern', None]], 'kwd_attrs', 0, False),
    ('TypeVar.name', 'type T[n] = int\n', [['body', 0], ['type_params', 0]], 'name', None, False),
    ('ParamSpec.name', 'type T[**n] = int\n', [['body', 0], ['type_params', 0]], 'name', None, False),
    ('TypeVarTuple.name', 'type T[*n] = int\n', [['body', 0], ['type_params', 0]], 'name', None, False),
]


def _ident_code(name, form):
    from fst import FST
    if form == 'str':
        return name
    if form == 'lines':
        return [name]
    if form == 'fst':
        return FST(name, 'expr')
    return ast.parse(name, mode='eval').body


def _ident_one(label, form, name):
    """(failure | None | 'refused', detail)"""
    import unicodedata
    _, src, path, field, idx, dotted = next(s for s in IDENT_SLOTS if s[0] == label)
    root = _mk(src)
    node = _de_path(root, path)
    try:
        if idx is None:
            node.put(_ident_code(name, form), field)
        else:
            node.put(_ident_code(name, form), idx, field)
    except Exception as e:
        nm = type(e).__name__
        return ('refused', str(e)[:100]) if nm in REFUSALS else ('crash:' + nm, str(e)[:200])
    d = util.tree_equals_parse(root)
    if d:
        return 'tree!=parse', d[:300] + f' new source: {root.src!r}'
    v = getattr(node.a, field)
    v = v if idx is None else v[idx]
    if v != unicodedata.normalize('NFKC', name):
        return 'value!=nfkc', f'stored {v!r}, CPython reads {unicodedata.normalize("NFKC", name)!r}'
    return None


def _sweep_identifiers(ctx):
    n = 0
    refused = {}
    for label, src, path, field, idx, dotted in IDENT_SLOTS:
        try:
            ast.parse(src)
        except SyntaxError:
            continue
        names = IDENT_NAMES + (['pkg.' + x for x in IDENT_NAMES[:3]] + [IDENT_NAMES[0] + '.sub'] if dotted else [])
        for form in IDENT_FORMS:
            for name in names:
                n += 1
                w = {'op': 'ident', 'slot': label, 'form': form, 'name': name}
                ctx.count('ident:' + repr(w), True)
                r = _ident_one(label, form, name)
                if r and r[0] == 'refused':
                    refused[f'{label}/{form}'] = refused.get(f'{label}/{form}', 0) + 1
                elif r:
                    ctx.fail(f'C08|put-identifier-{form}|{label}|{r[0]}',
                             f'{label} put as {form} with the spelling {name!r}: {r[0]}: {r[1]}', w)
    ctx.notes['identifier_puts'] = n
    ctx.notes['identifier_puts_refused'] = refused


# ---- primitive value fields written through put(), and slices of every list field on lines with multi-byte text ---------

PRIM_SOURCES = ["u'abc'", "'abc'", 'U"x"', "b'x'", '5', '1.5', '2j', 'None', 'True', '...', "u'a' 'b'", "(u'z')", '"""m\nl"""']
PRIM_VALUES = [5, 0, 1.5, 2j, 'str', 'q"\'', b'by', None, True, False, ..., 10 ** 20, 'multi\nline', '']
PRIM_HOSTS = ['x = {}\n', 'f({}, k={})\n', 'é = [{}, 1]\n', 'x = {}.real\n', 'def f(a={}): return {}\n']


def _prim_one(host, csrc, val_repr, which):
    """put a primitive into Constant.value (or MatchSingleton.value); (failure-class, detail) | None"""
    val = eval(val_repr, {})
    if host == 'match':
        src = f'match a:\n    case {csrc}: pass\n'
        root = _mk(src)
        node = root.body[0].cases[0].pattern
    else:
        src = host.format(*([csrc] * host.count('{}')))
        root = _mk(src)
        consts = [f for f in root.walk(True) if isinstance(f.a, ast.Constant) and not _in_fstring(f)]
        node = consts[which % len(consts)]
    try:
        node.put(val, 'value')
    except Exception as e:
        nm = type(e).__name__
        return ('refused', str(e)[:100]) if nm in REFUSALS else ('crash:' + nm, str(e)[:200])
    d = util.tree_equals_parse(root)
    if d:
        return 'tree!=parse', d[:300] + f' new source: {root.src!r}'
    return None


def _sweep_primitives(ctx):
    n = ref = 0
    for host in PRIM_HOSTS:
        for csrc in PRIM_SOURCES:
            try:
                ast.parse(host.format(*([csrc] * host.count('{}'))))
            except SyntaxError:
                continue
            for v in PRIM_VALUES:
                for which in range(host.count('{}')):
                    n += 1
                    vr = '...' if v is ... else repr(v)
                    w = {'op': 'prim', 'host': host, 'const': csrc, 'value': vr, 'which': which}
                    ctx.count('prim:' + repr(w), True)
                    r = _prim_one(host, csrc, vr, which)
                    if r and r[0] == 'refused':
                        ref += 1
                    elif r:
                        ctx.fail(f'C08|put-value|Constant:{type(v).__name__}|{r[0]}',
                                 f'Constant {csrc} in {host!r} given the value {v!r}: {r[0]}: {r[1]}', w)
    for csrc in ('None', 'True', 'False'):
        for v in (None, True, False):
            n += 1
            w = {'op': 'prim', 'host': 'match', 'const': csrc, 'value': repr(v), 'which': 0}
            r = _prim_one('match', csrc, repr(v), 0)
            if r and r[0] == 'refused':
                ref += 1
            elif r:
                ctx.fail(f'C08|put-value|MatchSingleton:{type(v).__name__}|{r[0]}', f'case {csrc} given {v!r}: {r[0]}: {r[1]}', w)
    ctx.notes['primitive_puts'] = n
    ctx.notes['primitive_puts_refused'] = ref


SLICE_STMTS = [
    'global ä, öñandú, ü, z, w', 'nonlocal ä, öñandú, ü, z', 'del ä, b.ü, c[é], z', 'import ä, b.ü as ñ, c',
    'from m import ä, ü as ñ, c', 'from m import (ä, ü as ñ,\n  c)', "x = [ä, 'é', ü, z]", "x = ä, 'é', ü", "x = {ä, 'é', ü}",
    'f(ä, *ü, é=ñ, **z)', 'with ä as ü, é as ñ, z: pass', 'ä = ü = z = 1', 'class C(ä, ü, metaclass=é): pass',
    '@ä\n@ü\n@z\ndef g(): pass', "x = {ä: ü, 'é': z, **w}", 'x = ä < ü <= z != w', 'x = ä and ü and z', 'x = ä | ü | z',
    'match x:\n    case [ä, ü, *z]: pass', "match x:\n    case {'é': ä, 'ü': 1, **z}: pass", 'match x:\n    case C(ä, ü, é=z, ñ=w): pass',
    'match x:\n    case ä.b | ü.c | 3: pass', 'def g(ä, ü=1, *é, z, **w): pass', 'x = lambda ä, ü: z',
    'x = [a for ä in ü if é if z for w in v]', 'try: pass\nexcept ä: pass\nexcept ü: pass\nexcept z: pass',
    'type T[ä, *ü, **z] = int', "print(ä, 'é', ü, sep='ñ')", "x = f'{ä}é{ü}'", 'assert ä, ü', 'x = ä[ü, é:z, w]',
    'for ä, ü in é, z: pass', 'x = ä if ü else é',
]


def _slice_programs():
    out = []
    for s in SLICE_STMTS:
        variants = [s + '\n', 'def h():\n' + '\n'.join('    ' + l for l in s.split('\n')) + '\n']
        if '\n' not in s and not s.startswith(('class', 'def', 'with', 'for', '@', 'try', 'match', 'nonlocal')):
            variants.append("s = 'éñ'; " + s + '\n')
        if s.startswith('nonlocal'):
            variants = ['def o():\n    ä = öñandú = ü = z = 1\n    def h():\n        ' + s + '\n',
                        "def o():\n    ä = öñandú = ü = z = 1\n    def h():\n        s = 'éñ'; " + s + '\n']
        for v in variants:
            try:
                ast.parse(v)
            except SyntaxError:
                continue
            out.append(v)
    return out


def _slice_case(src):
    """every slice of every list field (AST or str elements) of every node: cut + put back, and replace by its own copy"""
    out = []
    try:
        root = _mk(src)
    except Exception:
        return out
    d0 = ast.dump(root.a)
    fields = []
    for f in root.walk(True):
        if _in_fstring(f):
            continue
        for name in f.a._fields:
            v = getattr(f.a, name, None)
            if isinstance(v, list) and v and all(isinstance(x, (ast.AST, str)) for x in v) and name != 'type_ignores':
                fields.append(([] if f is root else _ser_path(root.child_path(f)), name, len(v), f.a.__class__.__name__))
    for path, name, n, pkind in fields:
        if n > 5:
            continue
        for s in range(n):
            for e in range(s + 1, n + 1):
                for mode in ('cut-slice', 'copy-slice'):
                    root = _mk(src)
                    kind = pkind + '.' + name
                    w = {'op': mode, 'src': src, 'path': path, 'field': name, 'start': s, 'stop': e, 'k': 2}
                    r = None
                    stage = 'take'
                    try:
                        for _ in range(2):
                            f = _de_path(root, path) if path else root
                            stage = 'take'
                            piece = f.get_slice(s, e, name, cut=(mode == 'cut-slice'))
                            stage = 'put'
                            if mode == 'cut-slice':
                                f.put_slice(piece, s, s, name)
                            else:
                                f.put_slice(piece, s, e, name)
                            d1 = ast.dump(root.a)
                            if d1 != d0:
                                kind, fc = _diff_class(d1, d0, kind, src)
                                r = (fc, util.first_diff(d1, d0) + f' new source: {root.src[:200]!r}')
                                break
                            d = util.tree_equals_parse(root)
                            if d:
                                if d.startswith('source no longer parses') and root.src.rstrip(' \t\n').endswith('\\'):
                                    kind, r = 'list-tail', ('eof-backslash', d[:200])
                                else:
                                    r = ('tree!=parse', d[:300] + f' new source: {root.src[:200]!r}')
                                break
                    except Exception as ex:
                        nm = type(ex).__name__
                        r = ('refused', stage + ': ' + str(ex)[:120]) if nm in REFUSALS else \
                            ('crash:' + nm, stage + ': ' + str(ex)[:200])
                    out.append((mode, kind, r[0] if r else None, r[1] if r else '', w))
    return out


def _sweep_slices(ctx):
    n = 0
    refused = {}
    for lst in pmap(_slice_case, _slice_programs()):
        for op, kind, r, detail, w in lst:
            n += 1
            ctx.count('sl:' + repr(w), True)
            if r == 'refused':
                refused[kind] = refused.get(kind, 0) + 1
            elif r:
                ctx.fail(f'C08|{op}|{kind}|{r}',
                         f'{op} [{w["start"]}:{w["stop"]}] of {kind} on a line with multi-byte text: {r}: {detail}', w)
    ctx.notes['slice_product_roundtrips'] = n
    ctx.notes['slice_product_refused'] = refused


# ---- line comments on block statements whose header spans lines and whose header children contain colons --------------

HDR_BLOCKS = [      # (prefix, elements joined by commas, suffix before the block colon, body, following lines, field)
    ('class P(', ['Base', 'metaclass=Meta', '*extra[1:]'], ')', 'x = 1', [], None),
    ('class P(', ['Base', '*e[1:]', 'metaclass=M'], ')', 'x = 1', [], None),
    ('class P(', ['metaclass=M', '*e[a:b]'], ')', 'x = 1', [], None),
    ('class P(', ['k={1: 2}', '*e[lambda: 0]'], ')', 'x = 1', [], None),
    ('class P(', ['Base', 'm=M', '**kw[1:]'], ')', 'x = 1', [], None),
    ('class P(', ['A', 'B[x:y]', 'C'], ')', 'x = 1', [], None),
    ('class P[T: int](', ['A', 'k=T', '*b[1:]'], ')', 'x = 1', [], None),
    ('def f(', ['a', 'b: int = 1', '*c: {1: 2}', 'd=lambda: 0', '**e'], ')', 'pass', [], None),
    ('def f(', ['a: x[1:]', 'b=y[2:]'], ') -> r[3:]', 'pass', [], None),
    ('async def f(', ['a', '*', 'b: int'], ') -> {1: 2}', 'pass', [], None),
    ('if f(', ['a', 'b[1:]', 'k=lambda: 0'], ')', 'pass', ['else:', '    pass'], None),
    ('if f(', ['a', 'b[1:]'], ')', 'pass', ['else:', '    pass'], 'orelse'),
    ('while g(', ['a', '{1: 2}', 'c[::2]'], ') and x[1:]', 'pass', [], None),
    ('for i in g(', ['a', 'b[1:]', 'c'], ')', 'pass', ['else:', '    pass'], None),
    ('with o(', ['a', 'b[1:]'], ') as c, d', 'pass', [], None),
    ('with (', ['a as b', 'c[1:] as d', 'e'], ')', 'pass', [], None),
    ('try:\n    pass\nexcept (', ['A', 'B[1:]', 'C'], ') as e', 'pass', ['finally:', '    pass'], 'handler'),
    ('match s:\n    case [', ['a', 'b', '*c'], '] if d[1:]', 'pass', [], 'case'),
    ('if x:\n    pass\nelif f(', ['a', 'b[1:]'], ')', 'pass', [], 'elif'),
]


def _hdr_block_programs():
    out = []
    for prefix, elems, suffix, body, after, field in HDR_BLOCKS:
        layouts = [', '.join(elems)]
        for k in range(1, len(elems)):
            for ind in ('', ' ', '    ', '              '):
                layouts.append(', '.join(elems[:k]) + ',\n' + ind + ', '.join(elems[k:]))
        layouts.append((',\n' + '  ').join(elems) + '\n')
        nested = prefix.startswith(('match', 'try', 'if x'))
        for lay in layouts:
            for tail in ('', '  # old comment'):
                bind = '        ' if prefix.startswith('match') else '    '
                src = prefix + lay + suffix + ':' + tail + '\n' + bind + body + '\n' + ''.join(l + '\n' for l in after)
                try:
                    ast.parse(src)
                except SyntaxError:
                    continue
                out.append((src, field))
    return out


def _header_colon_comment(src, stmt_lineno, stmt_end_lineno):
    """the comment on the physical line of the first block-opening colon at bracket depth 0 inside [stmt_lineno, ...]
    (lambda colons skipped) by the CPython tokenizer: (found a colon, comment text or None)"""
    depth = lambdas = 0
    colon_line = None
    for t in util.tokens(src):
        if t.start[0] < stmt_lineno:
            continue
        if colon_line is not None:
            if t.start[0] != colon_line or t.type in (tokenize.NEWLINE, tokenize.NL):
                return True, None
            if t.type == tokenize.COMMENT:
                return True, t.string
            continue
        if t.type == tokenize.OP:
            if t.string in '([{':
                depth += 1
            elif t.string in ')]}':
                depth -= 1
            elif t.string == ':' and depth == 0:
                if lambdas:
                    lambdas -= 1
                else:
                    colon_line = t.start[0]
        elif t.type == tokenize.NAME and t.string == 'lambda' and depth == 0:
            lambdas += 1
    return colon_line is not None, None


def _hdrc_case(arg):
    src, field = arg
    out = []
    root = _mk(src)
    d0 = ast.dump(ast.parse(src))
    if field == 'handler':
        f, fld = root.body[0].handlers[0], None
    elif field == 'case':
        f, fld = root.body[0].cases[0], None
    elif field == 'elif':
        f, fld = root.body[0].orelse[0], None
    else:
        f, fld = root.body[0], field
    path = _ser_path(root.child_path(f))
    kind = f.a.__class__.__name__
    lineno = getattr(f.a, 'lineno', None) or f.a.pattern.lineno
    w = {'op': 'hdr-comment', 'src': src, 'path': path, 'field': fld}
    if fld == 'orelse':
        else_ln = next(i for i, l in enumerate(src.split('\n')) if l.startswith('else:')) + 1
        found, want = _header_colon_comment(src, else_ln, else_ln)
    else:
        found, want = _header_colon_comment(src, lineno, 0)
    want_full = want
    want = None if want is None else want[1:].strip()
    try:
        _read_set(root, path)
        got = f.get_line_comment(fld)
        if got != want:
            return [(kind, 'get!=tokenize', f'get_line_comment({fld!r}) = {got!r}, the tokenizer finds {want_full!r} on the header line', w)]
        f.put_line_comment('new: comment', fld)
        s = _stale_after_write(root, path)
        back = f.get_line_comment(fld)
    except Exception as e:
        nm = type(e).__name__
        return [(kind, 'refused' if nm in REFUSALS else 'crash:' + nm, str(e)[:200], w)]
    new = root.src
    try:
        d2 = ast.dump(ast.parse(new))
    except SyntaxError as e:
        return [(kind, 'unparsable', f'{e.msg} line {e.lineno}; new source: {new[:200]!r}', w)]
    r = None
    if back != 'new: comment':
        r = ('get!=put', f'wrote "new: comment", read back {back!r}; new source {new[:200]!r}')
    elif d2 != d0 or ast.dump(root.a) != d0:
        r = ('ast-changed', f'new source {new[:200]!r}')
    elif s:
        r = ('stale-after-write', s)
    else:
        found2, c2 = _header_colon_comment(new, 1 if fld != 'orelse' else else_ln, 0) if fld == 'orelse' else \
            _header_colon_comment(new, lineno, 0)
        d = util.tree_equals_parse(root)
        if d:
            r = ('tree!=parse', d[:300])
        elif c2 is None or c2[1:].strip() != 'new: comment':
            r = ('comment-misplaced', f'the tokenizer finds {c2!r} on the header line of {new[:200]!r}')
    return [(kind, r[0] if r else None, r[1] if r else '', w)]


def _sweep_header_comments(ctx):
    n = ref = 0
    for lst in pmap(_hdrc_case, _hdr_block_programs()):
        for kind, r, detail, w in lst:
            n += 1
            ctx.count('hdrc:' + repr(w), True)
            if r == 'refused':
                ref += 1
            elif r:
                ctx.fail(f'C08|line_comment|{kind}-multiline-header|{r}', f'line comment of a {kind} whose header spans lines: {r}: {detail}', w)
    # the decision behind the header end of a class: is the last starred base after the last keyword?
    name = 'last_block_header_child (ClassDef) vs Pfst.SharedDelims.posAfter'
    from fst.astutil import last_block_header_child
    items, impls, srcs = [], [], []
    for src, _ in _hdr_block_programs():
        c = ast.parse(src).body[0]
        if isinstance(c, ast.ClassDef) and c.keywords and c.bases and isinstance(c.bases[-1], ast.Starred):
            b, k = c.bases[-1], c.keywords[-1]
            kpos = (k.lineno, k.col_offset)
            items.append([b.lineno, b.col_offset, kpos[0], kpos[1]])
            impls.append(last_block_header_child(c) is b)
            srcs.append(src)
    outs = _batched(ctx, name, 'C08.posafter', 'items', items)
    if outs is not None:
        bad = 0
        for it, io_, s, mo in zip(items, impls, srcs, outs):
            ctx.corr_cases += 1
            if mo != io_:
                bad += 1
                _disagree(ctx, name, {'src': s, 'positions': it}, {'starred base is the last header child': io_}, mo)
        ctx.tally('correspondence_cases', name)
        ctx.dist['correspondence_cases'][name] = len(items)
        if bad:
            ctx.brk('correspondence', name, f'{bad}/{len(items)} differ; first: ' + repr(_FIRST.get(name))[:700])
    ctx.notes['multiline_header_comments'] = n
    ctx.notes['multiline_header_comments_refused'] = ref


def _programs(ctx, n, stdlib):
    rng = random.Random(ctx.rng.random())
    return corpus.programs(rng, n, stdlib=stdlib)


def _timed(ctx, label, fn, *a):
    import time
    t0 = time.time()
    r = fn(*a)
    ctx.notes.setdefault('phase_seconds', {})[label] = round(time.time() - t0, 1)
    return r


def sweep(ctx):
    q = ctx.quick
    rng = random.Random(ctx.rng.random())
    strs = _all_strings(4 if q else 5)
    surr = ['\ud800', 'a\udfffb', '"""\ud83d\'\'\'']
    extra = _random_strings(rng, 400 if q else 4000, lo=1, hi=60) + surr + rng.sample(_fragment_strings(4), 600 if q else 4000) + \
        ['line one\n  indented\n\n\tTabbed\nlast\n', 'a\n' * 5, 'x' * 300, ' lead', '\tlead', '\n\nx', 'a\\\nb', 'a\\']
    _timed(ctx, 'doc', _sweep_doc, ctx, strs, extra)
    lp = lits.programs()
    _timed(ctx, 'literals', _sweep_literals, ctx, rng.sample(lp, 700) if q else lp)
    _timed(ctx, 'blocks', _sweep_blocks, ctx, blks.programs())
    _timed(ctx, 'headers', _sweep_headers, ctx)
    _timed(ctx, 'identifiers', _sweep_identifiers, ctx)
    _timed(ctx, 'header_comments', _sweep_header_comments, ctx)
    _timed(ctx, 'primitives', _sweep_primitives, ctx)
    _timed(ctx, 'slices', _sweep_slices, ctx)
    docp = [(m, s) for m, s in lp if not m['bytes'] and m['form'].startswith('triple')]
    accp = [(s, lits.target_paths(m)) for m, s in docp] + \
        [(s, [p + [[f_, i]] for p, f_, i, _, _, _ in blks.positions(s)][:4]) for _, s in blks.programs()[::7]]
    _timed(ctx, 'accessors', _sweep_accessors, ctx, accp if not q else rng.sample(accp, 80))
    progs = _programs(ctx, 200 if q else 2500, 16 if q else 200) + corpus.hard_snippets()
    _timed(ctx, 'comments', _sweep_comments, ctx, progs, 8 if q else 12)
    _timed(ctx, 'struct', _sweep_struct, ctx, progs, 6 if q else 12)


def search(ctx):
    """Something in the model/proof/correspondence broke: evaluate the property itself on the implementation, wider, first
    on the inputs on which model and implementation disagreed."""
    rng = random.Random(ctx.rng.random())
    hint_strs = []
    for name, c in ctx.hints[:2000]:
        s = c.get('s') if isinstance(c, dict) else None
        if isinstance(s, str):
            hint_strs.append(s)
        if isinstance(c, dict) and 'comment' in c and 'src' in c:
            _search_comment_hint(ctx, c)
    strs = hint_strs + _fragment_strings(4) + _all_strings(4) + _random_strings(rng, 6000, lo=1, hi=80)
    _sweep_doc(ctx, [], strs[:16000])
    if not ctx.failures:
        _sweep_header_comments(ctx)
        _sweep_primitives(ctx)
        _sweep_slices(ctx)
        _sweep_identifiers(ctx)
        _sweep_headers(ctx)
    if not ctx.failures:
        _sweep_blocks(ctx, blks.programs())
        _sweep_literals(ctx, lits.programs())
    if not ctx.failures:
        progs = _programs(ctx, 1200, 100)
        _sweep_comments(ctx, progs, 12)
        _sweep_struct(ctx, progs, 8)


def _search_comment_hint(ctx, c):
    try:
        root = _mk(c['src'])
        stmt = next(st for st, _ in CSTMTS if c['src'].startswith(st) or st == 'return')
        f = _comment_node(root, stmt)
        f.put_line_comment(c['comment'], full=c['full'])
        if c['comment'] is None:
            return
        got = f.get_line_comment(full=c['full'])
        exp = c['comment'] if c['full'] else c['comment'].strip()
        if got != exp:
            ctx.fail(f'C08|line_comment|{f.a.__class__.__name__}|get!=put',
                     f'put_line_comment({c["comment"]!r}, full={c["full"]}) then get_line_comment() = {got!r}',
                     {'op': 'comment', 'src': c['src'], 'path': _ser_path(root.child_path(f)), 'comment': c['comment'],
                      'full': c['full']})
    except Exception:
        pass


def replay(ctx, data):
    w = data.get('witness')
    if not w:
        print('replay file names a broken obligation, not an input:', [b for b in data.get('broken', [])][:3])
        return
    op = w['op']
    if op == 'docstr':
        r = _doc_one(w['host'], w['s'])
        if r:
            ctx.fail('replay', f'{r[0]}: {r[1]}', w)
        return
    if op == 'hdr-comment':
        for kind, r, detail, _ in _hdrc_case((w['src'], {None: None, 'orelse': 'orelse'}.get(w['field'], None)
                                              if w['path'] == [['body', 0]] else
                                              ('handler' if w['path'][-1][0] == 'handlers' else
                                               'case' if w['path'][-1][0] == 'cases' else 'elif'))):
            if r and r != 'refused':
                ctx.fail('replay', f'{r}: {detail}', w)
        return
    if op == 'prim':
        r = _prim_one(w['host'], w['const'], w['value'], w['which'])
        if r and r[0] != 'refused':
            ctx.fail('replay', f'{r[0]}: {r[1]}', w)
        return
    if op == 'ident':
        r = _ident_one(w['slot'], w['form'], w['name'])
        if r and r[0] != 'refused':
            ctx.fail('replay', f'{r[0]}: {r[1]}', w)
        return
    if op == 'annsimple':
        root = _mk(w['src'])
        st = root.body[0]
        st.target.replace(st.target.copy() if w['put'] is None else w['put'])
        ref = ast.parse(root.src).body[0]
        if st.a.simple != ref.simple:
            ctx.fail('replay', f'tree simple={st.a.simple}, CPython simple={ref.simple} for {root.src!r}', w)
        return
    if op == 'hdr':
        r, _ = _hdr_one(w['src'], w['path'], w['form'], ast.dump(ast.parse(w['src'])))
        if r and r[0] != 'refused':
            ctx.fail('replay', f'{r[0]}: {r[1]}', w)
        return
    if op == 'blk':
        r, _ = _blk_one(w['src'], w['path'], w['field'], w['idx'], w['form'], w['via'], w['elif_'], ast.dump(ast.parse(w['src'])))
        if r and r[0] != 'refused':
            ctx.fail('replay', f'{r[0]}: {r[1]}', w)
        return
    if op == 'acc':
        seq = [(tuple(a), c) for a, c in w['seq']]
        ans = _acc_seq(w['src'], w['path'], seq)
        fresh = _acc_seq(w['src'], w['path'], seq[-1:])
        if ans[-1] != fresh[0]:
            ctx.fail('replay', f'last call of the sequence answers {ans[-1]!r:.200}, a fresh tree {fresh[0]!r:.200}', w)
        return
    if op.startswith('lit-'):
        kind, r = _lit_one(w['src'], w['path'], op[4:], w.get('lk', 'Expr-str'), ast.dump(_mk(w['src']).a))
        if r and r[0] != 'refused':
            ctx.fail('replay', f'{r[0]}: {r[1]}', w)
        return
    root = _mk(w['src'])
    d0 = ast.dump(root.a)
    f = _de_path(root, w['path'])
    if op == 'comment':
        _read_set(root, w['path'])
        try:
            f.put_line_comment(w['comment'], full=w['full'])
        except Exception as e:
            if type(e).__name__ in REFUSALS:
                print(f'the accessor refuses the text ({e}); tree unchanged: {ast.dump(root.a) == d0}')
                if ast.dump(root.a) != d0:
                    ctx.fail('replay', 'refused but the tree changed', w)
            else:
                ctx.fail('replay', f'raised {e!r}', w)
            return
        got = f.get_line_comment(full=w['full'])
        exp = w['comment'] if w['full'] else w['comment'].strip()
        d = util.tree_equals_parse(root) or _stale_after_write(root, w['path'])
        if got != exp or d or ast.dump(root.a) != d0:
            ctx.fail('replay', f'get={got!r} expected={exp!r}; {d}', w)
    elif op == 'own_src':
        r = _own_src_check(f)
        if r and r[0] != 'refused':
            ctx.fail('replay', f'{r[0]}: {r[1]}', w)
    else:
        try:
            for _ in range(w.get('k', 1)):
                if op.startswith('replace-'):
                    form = op[8:]
                    f.replace(f.copy() if form == 'copy' else f.copy_ast() if form == 'ast' else f.own_src())
                    f = _de_path(root, w['path'])
                else:
                    name, s, e = w['field'], w['start'], w['stop']
                    n = len(getattr(f.a, name))
                    if op == 'cut-one':
                        piece = getattr(f.a, name)[s].f.cut()
                        if len(getattr(f.a, name)) == n:
                            f.put(piece, s, name)
                        else:
                            f.put_slice(piece, s, s, name, one=True)
                    elif op == 'cut-slice':
                        f.put_slice(f.get_slice(s, e, name, cut=True), s, s, name)
                    else:
                        f.put_slice(f.get_slice(s, e, name), s, e, name)
        except Exception as e:
            ctx.fail('replay', f'raised {e!r}', w)
            return
        if ast.dump(root.a) != d0:
            ctx.fail('replay', 'ast.dump differs: ' + util.first_diff(ast.dump(root.a), d0), w)
