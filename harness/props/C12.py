"""C12 — a failed edit leaves the target tree untouched and still editable."""

import random

import corpus
import c12_hist
import c12_sweep
from framework import pmap

ID = 'C12'
LEAN_MODULES = ['Pfst.Props.C12']
THEOREMS = [
    'Pfst.C12.run_restores', 'Pfst.C12.runList_restores', 'Pfst.C12.registry_balanced', 'Pfst.C12.registry_restored',
    'Pfst.C12.no_internal_error', 'Pfst.C12.registry_no_stale', 'Pfst.C12.next_enter_ok',
    'Pfst.C12.put_skeleton_restores', 'Pfst.C12.unpar_skeleton_restores', 'Pfst.C12.root_replace_skeleton_restores',
    'Pfst.C12.root_replace_guard_first',
    'Pfst.C12.failed_is_identity', 'Pfst.C12.failed_state_eq', 'Pfst.C12.next_edit_ok', 'Pfst.C12.failed_prefix_dropped',
    'Pfst.C12.withStep_failed', 'Pfst.C12.withStep_registry', 'Pfst.C12.raw_fallback_atomic', 'Pfst.C12.putOne_registry',
]
RULE = ('(a) correspondence: generated well-nested histories (with-blocks, exceptions raised at every depth and position, '
        'try/except continuing, the unpar manual skeleton, the _put_one/_put_slice raw-fallback skeleton, the put_src(reparse) '
        'with-block, the root branch of FST.replace (guards incl. own-root / consumed before the with-block), 1-3 real trees at once, same node / other node of the same tree / force / raw) run against the real '
        '_Modifying class and the real unpar/_put_one/_put_slice/put_src/replace functions (callees stubbed to run the nested history) '
        'on real FST nodes; the registry _MODIFYING canonicalised as (root index, node index, depth) after EVERY '
        'enter/success/fail plus the propagating exception class is compared with the Lean model. distinct = distinct (history, '
        'trees); non-trivial = an exception is raised inside at least one modification. (b) sweep: trees = corpus programs '
        '(Module roots), ~110 hand-written special trees (non-Module roots of every parse mode, the special slice containers '
        '_ExceptHandlers/_match_cases/_arglikes/_Assign_targets/_decorator_list/_aliases/_withitems/_type_params/'
        '_comprehensions/..., arguments of every shape incl. leading bare *, / first, only **kw, blocks written on the header '
        'line and elif chains, every spelling of `except *`), layout variants of all of these (blanks / line continuations '
        'inserted or removed between adjacent tokens, same tree) and containers / sub-roots cut '
        'out of corpus programs by get_slice()/copy(). On each: sequences (k<=10) of invalid requests of 22 kinds mixed with '
        'valid edits through replace/put/put_slice/insert/append/prepend/extend/prextend/remove/attribute and item '
        'assignment/deletion, slice requests to the virtual fields (_all/_args/_bases/_body/_attrs), deletes of every field, '
        'requests on the root itself, raw puts and put_src(action=reparse) with text that breaks the source, raw puts of '
        'acceptable code that changes the kind of an ancestor (comment-terminated literals etc.), and VALID requests (code of '
        'the right category to every node/field, every operator of its category on operator chains of 2-7 values = multi-site '
        'edits; every shape of the small categories - star / dotted / `as` aliases, ** keywords, withitem forms, except* '
        'handlers, type params, patterns - through the node and through its parent), deletes of every sub-range of every slice '
        'field incl. the whole range through put_slice(None)/put(None,i,j)/del view[i:j]/get_slice(cut): whatever raises is '
        'judged, valid request or not; PRIMITIVE values (0/1/2/-1/True/False/None/strings/floats) put to every primitive field '
        '(AnnAssign.simple, is_async, ImportFrom.level, Constant.value/kind, conversion, identifiers, names lists) through put() '
        'and attribute / item assignment; trivia-only edits (put_line_comment / put_docstr with acceptable and impossible '
        'text: line terminators incl. lone CR, NUL, non-strings; a successful put_line_comment is judged by CPython: new source '
        'must parse to the same tree and equal the live one); cuts (get_slice cut=True) with valid values of the options '
        'that steer the returned form (args_as ...); plus systematic '
        'families on the small trees (delete every node and field; every position x every rule-breaking code of every slice '
        'field; every option x junk values (out-of-range ints, wrong types) x every entry-point family - insert/append/prepend/'
        'extend/put/put_slice/delete/get_slice(cut)/replace/remove/cut - on every statement list). Every call that RAISES is judged: src, ast.dump(with positions) of the whole root and the AST<->FST node '
        'links identical, registry empty, following valid edit on the SAME tree (registry left as the failed call left it) '
        'identical to the same edit on a fresh twin and equal to a from-scratch parse. distinct = distinct (source, mode, '
        'request); all are non-trivial (the call raised)')
TRUSTED = [
    'modelled: fst_core._MODIFYING (insertion-ordered dict), _Modifying.enter/success/fail/__exit__ registry effects incl. '
    'same-node nesting count, force, the RuntimeError for a different node, enter raising before any registry change; the '
    'control skeletons of FST.unpar (manual enter/fail/success), _put_one and _put_slice (guards, handler in with, raw '
    'fallback in a second with, which exception classes fall through), put_src(action=reparse), the root branch of '
    'FST.replace as repaired by C12-F2/F3 (all guards before the with); abstract edit step validate>>apply',
    'not modelled: the f-string debug-text bookkeeping of enter()/success() (fields fst/field/data; success() may splice '
    'source AFTER releasing the registry entry); the put handlers themselves (hundreds of raise sites) - whether each '
    'validates before it mutates is evaluated per failing call by the sweep on the real code, not proved',
    'put_line_comment is the one API where a SUCCESSFUL call is judged (signature C12|not-refused|...): by contract it '
    'changes one comment only, so a result whose source no longer parses to the live tree means an impossible request was '
    'spliced in instead of being refused',
    'sweep oracle: CPython ast.dump / ast.parse and plain attribute traversal (a.f / f.a / f.parent); pfst is used to build '
    'the tree and the fresh twin (FST(src, mode): for non-Module roots pfst\'s parser in that mode IS the from-scratch '
    'reference), to address nodes (walk order), to enumerate slice fields (_PUT_SLICE_HANDLERS keys) and to make the call '
    'under test',
]
ASSUMPTIONS = [
    'one API call is one atomic step; no threads (the registry is process-global)',
    'histories are well-nested: every enter() is paired with exactly one success()/fail() by with/try (true of every use '
    'site in /repo/src: 12 `with` sites + unpar)',
    'handlers = validate >> apply is a hypothesis of failed_is_identity/raw_fallback_atomic, tested by the sweep',
    'calls that do not raise are outside the property; a successful call that leaves a tree unequal to a fresh parse ends '
    'the sequence (tallied as abandoned, C01 territory)',
]
LEVEL_TEXT = ('Lean 4 theorems about an executable model of the modification registry: for every well-nested history '
              '(exceptions anywhere, nested/forced/raw, unpar and raw-fallback skeletons) the registry is restored exactly, '
              'no internal TypeError, any node can be entered afterwards; an edit of validate-then-apply shape is the '
              'identity on (tree, registry) when it raises, also through the raw fallback. Tied to /repo each run by '
              'running model and real _Modifying/_put_one/_put_slice/unpar on the same histories and by evaluating the '
              'property itself on thousands of raising calls.')
LEVEL_NOTE = ('Partial: atomicity of each individual put handler is not proved (it is a property of ~hundreds of raise '
              'sites in 13k lines); it is evaluated by the sweep on every run. The registry theorems are about the model; '
              'the tie is differential.')
TECHNIQUE = 'Lean 4 proof (mutual structural induction over nested histories) + model-implementation correspondence + direct oracle sweep'


def _programs(ctx, n, stdlib):
    rng = random.Random(ctx.rng.random())
    return corpus.programs(rng, n, stdlib=stdlib)


# ---- correspondence -------------------------------------------------------------------------------------------------

def correspondence(ctx):
    q = ctx.quick
    progs = _programs(ctx, 200 if q else 1800, 8 if q else 80)
    rng = random.Random(ctx.rng.random())
    groups = []
    i = 0
    while i < len(progs):
        k = rng.choice([1, 2, 2, 3])
        groups.append(progs[i:i + k])
        i += k
    items = [(g, ctx.rng.randrange(1 << 30), 24 if q else 40, j % 8 == 0) for j, g in enumerate(groups)]
    res = pmap(c12_hist.worker, items)
    cases, impls, sts = [], [], []
    for lst in res:
        for prog, impl, st in lst:
            if prog == 'harness':
                ctx.brk('correspondence', 'C12 histories', impl)
                continue
            cases.append({'f': 'C12.run', 'prog': prog})
            impls.append(impl)
            sts.append(st)
    name = '_Modifying/_put_one/_put_slice/unpar histories vs Pfst.Modifying.runList'
    try:
        outs = ctx.lean(cases)
    except Exception as e:
        ctx.brk('correspondence', name, f'driver error: {e}')
        return
    bad = 0
    dis = []
    for c, io_, mo, st in zip(cases, impls, outs, sts):
        ctx.corr_cases += 1
        m = mo.get('out', mo)
        ctx.count(c, io_['exc'] is not None or st[0] > 0)
        ctx.tally('history_outcome', io_['exc'])
        ctx.tally('history_raise_depth', st[0])
        ctx.tally('history_events', min(len(io_['trace']), 30))
        for kd in st[2]:
            ctx.tally('history_constructs', kd)
        if m != io_:
            bad += 1
            dis.append({'corr': name, 'case': c, 'impl': io_, 'model': m})
            ctx.hints.append((name, c))
    ctx.tally('correspondence_cases', name)
    ctx.dist['correspondence_cases'][name] = len(cases)
    if cases:
        ctx.sample({'corr': name, 'prog': cases[0]['prog'], 'impl': impls[0]})
    dis.sort(key=lambda d: len(str(d['case'])))          # smallest disagreeing history first
    ctx.corr_disagreements.extend(dis[:20])
    if bad:
        ctx.brk('correspondence', name, f'{bad}/{len(cases)} histories differ; smallest: ' + str(ctx.corr_disagreements[0])[:1500])


# ---- sweep ----------------------------------------------------------------------------------------------------------

def _items(ctx, progs, n_seq, k, n_special, special_cap, n_derive, derive_cap, options_cap=160, layouts=2, layout_cap=40):
    """work items for c12_sweep.run_tree: corpus programs as Module trees (random sequences), the hand-written special
    trees (non-Module roots, slice containers, every shape of arguments, blocks on the header line, `except *` spellings;
    random sequences + systematic families + the option x junk-value x entry-point family on their statement lists),
    layout variants of the special trees (blanks / continuations between tokens), and containers / sub-roots cut out of
    corpus programs with get_slice()/copy()"""
    items = [({'src': p, 'mode': 'exec'}, ctx.rng.randrange(1 << 30), n_seq, k, None, 0) for p in progs]
    for rep in range(n_special):
        for src, mode in c12_sweep.SPECIAL:
            spec = {'src': src, 'mode': mode}
            if rep == 0:
                spec['options_cap'] = options_cap
            items.append((spec, ctx.rng.randrange(1 << 30), 2, k, None, special_cap if rep == 0 else 0))
            items.append(({'src': src, 'mode': mode, 'layouts': layouts}, ctx.rng.randrange(1 << 30), 1, k, None, layout_cap))
    for p in progs[:n_derive]:
        items.append(({'src': p, 'derive': 3}, ctx.rng.randrange(1 << 30), 1, k, None, derive_cap))
    return items


def _run_sweep(ctx, items):
    res = pmap(c12_sweep.run_tree, items)
    n_raise = n_ok = 0
    allfails = []
    for r in res:
        n_raise += r['n_raise']
        n_ok += r['n_ok']
        for key in r['keys']:
            ctx.count(str(key), True)
        for g, d in r['tally'].items():
            dd = ctx.dist.setdefault(g, {})
            for kk, v in d.items():
                dd[kk] = dd.get(kk, 0) + v
        allfails.extend(r['fails'])
    # smallest witness first (it becomes the replay file); among equals one whose follow-up shows the consequence
    allfails.sort(key=lambda f: (len(f[2].get('src', '')) + (0 if 'followup_exc' in f[2] or 'after_src' in f[2] else 40)))
    seen = {}
    for sig, what, wit in allfails:
        seen[sig] = seen.get(sig, 0) + 1
        if seen[sig] <= 3:
            ctx.fail(sig, what, wit)
    ctx.notes['failure_signatures'] = seen
    return n_raise, n_ok


def sweep(ctx):
    q = ctx.quick
    progs = _programs(ctx, 180 if q else 3000, 8 if q else 200)
    items = _items(ctx, progs, 2 if q else 3, 10, 1 if q else 3, 60 if q else 500, 40 if q else 900, 25 if q else 80,
                   options_cap=140 if q else 800, layouts=2 if q else 4, layout_cap=20 if q else 150)
    n_raise, n_ok = _run_sweep(ctx, items)
    ctx.notes['raising_calls_judged'] = n_raise
    ctx.notes['non_raising_calls'] = n_ok
    if n_raise < (4000 if q else 40000):
        ctx.brk('correspondence', 'C12.sweep', f'only {n_raise} raising calls were produced: the sweep no longer exercises the property')


def search(ctx):
    progs = _programs(ctx, 1000, 50)
    items = _items(ctx, progs, 3, 10, 3, 500, 400, 60)
    n_raise, n_ok = _run_sweep(ctx, items)
    ctx.notes['search_raising_calls'] = n_raise


def replay(ctx, data):
    w = data.get('witness')
    if not w or 'failing' not in w:
        print('replay file names a broken obligation, not an input:', [b for b in data.get('broken', [])][:3])
        return
    for sig, what, wit in c12_sweep.replay_witness(w):
        ctx.fail(sig, what, wit)
