"""C19 — coercion yields a valid node of the requested kind with the same content."""

import ast
import hashlib
import random

import c19_model as M
from framework import LEAN, pmap, write_if_changed

ID = 'C19'
LEAN_MODULES = ['Pfst.Props.C19']
LEAN_DEPS = ['Pfst.Coerce', 'Pfst.CoerceArgs', 'Pfst.CoerceLemmas', 'Pfst.Gen.Coerce']
THEOREMS = [
    'Pfst.C19.toPattern_leaves', 'Pfst.C19.toExpr_leaves', 'Pfst.C19.roundtrip', 'Pfst.C19.norm_leaves',
    'Pfst.C19.same_kind_id', 'Pfst.C19.refuses_or_kind', 'Pfst.C19.seq_elements', 'Pfst.C19.seq_elements_pattern',
    'Pfst.C19.coerce_leaves', 'Pfst.C19.routes_agree_partial', 'Pfst.C19.routes_agree_false',
    'Pfst.C19.matrix_disabled_never_coerces', 'Pfst.C19.matrix_same_stable', 'Pfst.C19.matrix_refuses_or_kind',
    'Pfst.C19.args_type_params_leaves', 'Pfst.C19.args_attrlikes_leaves',
]
RULE = ('(i) extraction: the coercion matrix = every source kind (one minimal witness) x every parse mode x {formatted FST, pure '
        'AST} x coerce in {False, True}, outcome obtained by running code_as; (ii) correspondence: generated expression and '
        'pattern SOURCES in and around the convertible fragment (all constructs of the model, redundant parentheses, '
        'multi-line, comments, refusal cases) plus hand-made pure-AST oddities, run through _coerce_to_pattern_ast / '
        '_coerce_to_expr_ast directly and through as_() / FST(node, mode) / fromast / code_as on both routes, result translated '
        'to the model\'s JSON and compared with the Lean model; (iii) sweep: every (source kind, target mode) pair x operand '
        'shapes (0/1/2/3 elements, nested, starred, parenthesised, multi-line, comments) x both routes, property evaluated on '
        'the result (incl. the location of every node against the parse by pfst AND a CPython embedding of the result source, byte columns, '
        'both routes, and the cached .loc of every located node against its AST position); identifier / string alphabets include '
        'multi-byte names, alone, before other elements on the line, and everywhere; every table shape also runs with all identifiers '
        'and plain strings made multi-byte (m<i>) in every cell where the kind is coerced; an AssertionError / IndexError / KeyError / '
        'TypeError / RuntimeError escaping a coercion is an internal error, not a refusal; '
        'for every (container kind, target) cell in which some operand is coerced (thorough: every target) '
        'element-class shapes of the container (every positional class alone, every ordered pair, all together, the name `_` in '
        'every position: arguments posonly/plain/default/vararg/kwonly/kwonly-default/kwarg, _type_params, _arglikes, Call, '
        '_aliases, _withitems, _decorator_list, _Assign_targets, _comprehension_ifs, _pattern_attrlikes, MatchClass, '
        'MatchSequence, MatchMapping, List, Tuple, Set, Dict); puts that coerce vs puts of the explicitly converted node over '
        '18 slots. distinct = distinct (tree, route, target) or '
        '(kind, shape, target, route); non-trivial = a coercion actually happened (kind changed) or was refused for content')
TRUSTED = [
    'modelled: _coerce_to_pattern_ast and its Constant/Attribute/Starred/Name/Dict/Call/BinOp/UnaryOp/seq functions, '
    '_coerce_to_expr_ast and its Match* functions, List_or_Set / Tuple first steps, two_step, the kind guard of _code_as / '
    '_code_as_expr, the re-wrapping of _coerce_to_List/_coerce_to_Set/code_as_Tuple; is_FST only where it changes structure '
    '(MatchOr flattening under parentheses, MatchSequence delimiters); the `arguments` branches of _coerce_to__type_params and '
    '_coerce_to__pattern_attrlikes (Pfst/CoerceArgs.lean, Python < 3.13)',
    'not modelled (reached by the sweep with the oracle only): source editing of the formatted route, the wrappers '
    '(Module/Expr/withitem/arg/alias/type params/arguments/_arglikes/... as sources or targets), Slice / Tuple-of-Slice and '
    'lone Starred restrictions of the expr modes, the empty Set normalisation (documented: `{}` / `{*()}`), ctx',
    'zip(strict=True) length mismatches and empty identifiers are outside the model (invalid ASTs)',
    'sweep exclusions (documented behaviour, not judged): target mode _expr_arglikes (internal, "may fail verify()"), an empty Set '
    'result (`{}` unless norm=True); when the operand comes back unchanged only its kind is judged (its source was read in '
    'its own mode); one route raising while the other returns is tallied, not failed (the property allows raising) - this '
    'includes the AttributeError of the two_step hack on pure ASTs (MatchSequence/Module/Expr... -> Tuple/Set)',
    'harness: AST->JSON translation (c19_model.ser_*), lpar/delimiter annotations read from CPython positions and source text, '
    'leaf extractor c19_model.leaves, CPython embeddings used to re-parse results',
]
ASSUMPTIONS = ['the model describes /repo with the repairs fixes/C19-F3..F8 applied (Ellipsis Dict key refused; left operand of | coerced '
               'first); on a tree without them the correspondence on `{...: a}` reports the difference',
               'one minimal witness per source kind represents the kind in the extracted matrix (the sweep covers more shapes)',
               'CPython ast.parse (through an embedding per mode) and pfst\'s own parser for the mode are the judges of '
               '"parses in the requested mode"']
LEVEL_TEXT = ('Lean 4 theorems about an executable model of the expression<->pattern and sequence coercions: leaf sequence '
              'conserved both ways, round trip up to a stated normal form, same kind = identity, result kind accepted by the '
              'mode, sequence elements kept in order; the two structural differences between the formatted and the pure-AST '
              'route proved on witnesses; well-formedness of the coercion matrix regenerated from /repo each run (decide).')
LEVEL_NOTE = ('Theorems are about the model, tied to the code by differential runs of the real functions and entry points on '
              'generated trees each run. The many wrapper coercions of the matrix are covered by extraction + the oracle sweep, '
              'not by the hand model.')
TECHNIQUE = 'Lean 4 proof (mutual structural induction over nested trees, decide over regenerated matrix) + extraction + correspondence + oracle sweep'

# ---------------------------------------------------------------------------------------------------------------------
# the operand table: source kind -> (parse mode, [shapes]); the first shape is the minimal witness of the matrix

SOURCES = {
    'Module': ('exec', ['a', 'f(a, b)', '[a, b]', '(a,\n b)  # c', 'a;', 'a\nb', 'x = 1', '-1', 'a | b', '{1: a, **r}', '']),
    'Interactive': ('single', ['a', '[a, b]', 'a; b']),
    'Expression': ('eval', ['a', '[a, b]', '(a,\n b)', 'f(a, k=b)', '{1: a}']),
    'Expr': ('stmt', ['a', 'f(a)', '(a, b)', 'a, b', '[a,\n b]', '{1: a, **r}', 'a | b']),
    'Assign': ('stmt', ['a = b', 'a = b = c']),
    'Pass': ('stmt', ['pass']),
    'If': ('stmt', ['if a: pass', 'if a:\n    b\nelse:\n    c']),
    'FunctionDef': ('stmt', ['def f(): pass', '@d\ndef f(a, *, b=1): pass']),
    'Import': ('stmt', ['import a', 'import a.b as c, d']),
    'match_case': ('match_case', ['case a: pass', 'case [a, 1] if b: pass']),
    '_match_cases': ('_match_cases', ['case a: pass', 'case 1: pass\ncase _: pass']),
    'ExceptHandler': ('ExceptHandler', ['except: pass', 'except a as b: pass']),
    '_ExceptHandlers': ('_ExceptHandlers', ['except: pass', 'except a: pass\nexcept: pass']),
    '_Assign_targets': ('_Assign_targets', ['a =', 'a = b =', 'a, b = c =', '(a) = [b] =', '', 'a.b = c[0] =', 'a = \\\n b =']),
    '_decorator_list': ('_decorator_list', ['@a', '@a\n@b()', '@a.b(c)\n# c\n@d', '', '@(a)']),
    '_arglikes': ('_arglikes', ['a', 'a, b', 'a, *b', 'a, k=v', '*a, **k', '', 'a,\n b  # c\n', 'a, b, c', '(a), [b, c]', 'k=v']),
    '_comprehension_ifs': ('_comprehension_ifs', ['if a', 'if a if b', 'if a\nif (b)', '', 'if a if b if c']),
    '_comprehensions': ('_comprehensions', ['for a in b', 'for a in b if c for d in e', '']),
    'comprehension': ('comprehension', ['for a in b', 'for a, b in c if d']),
    'Tuple': ('Tuple', ['()', 'a,', 'a, b', '(a, b, c)', '(a, (b, c))', '*a, b', '(\n a,  # c\n b,\n)', 'a, b,', '(a.b, 1, "s")',
                        '(a, [b, {1: c}], f(d, k=e))']),
    'List': ('List', ['[]', '[a]', '[a, b]', '[a, b, c]', '[a, [b, c], *d]', '[\n a,  # c\n b,\n]', '[(a), (b),]', '[1, None, "s", a.b]']),
    'Set': ('Set', ['{a}', '{a, b}', '{a, b, c}', '{*a, b}', '{\n a,  # c\n b,\n}', '{(a), 1}']),
    'Dict': ('Dict', ['{}', '{1: a}', '{1: a, **r}', "{'k': [a, b], a.b: c}", '{\n 1: a,  # c\n}', '{**r}', '{1: a, 2: b, 3: c}', '{a: b}',
                      '{-1: a, 1+2j: b}', '{...: a}', '{1: a, **(r)}']),
    'Name': ('Name', ['a', '_', '(a)', 'é']),
    'Constant': ('Constant', ['1', "'s'", 'None', '...', '(1)', '1.5', '2j', 'True', 'b"b"', '"a" "b"']),
    'Attribute': ('Attribute', ['a.b', 'a.b.c', '(a).b', '_.a', 'a . b', 'f().a']),
    'Starred': ('expr_arglike', ['*a', '*_', '*(a)', '*a.b', '*[a, b]', '*größe']),
    'Call': ('Call', ['f()', 'f(a)', 'f(a, k=b)', 'a.b(c, *d)', 'f(\n a,  # c\n k=1,\n)', 'f(a, b, c)', 'f(k=a, **b)', 'f(g(a), [b])',
                      '_(a)', 'f(a)(b)', 'f(a, k=b, l=c)', 'a.b(x=1, y=[c], z=d)', '(f)(a)']),
    'BinOp': ('BinOp', ['a | b', 'a | b | c', '(a | b) | c', 'a | (b | c)', '1+2j', 'a + b', '-1 - 2j', '(a |\n b)', '1 | None | "s"',
                        '[a] | {1: b} | f(c)', '[(a).b] | [x]', '(a) | (1)+2j | b',
                        '((a | b) | c) | d', '(a | (b | c)) | d', 'a | ((b | c) | d)', '(größe | ñ) | 日本', '[(a | b) | c, (d | e) | f]']),
    'UnaryOp': ('UnaryOp', ['-1', '-a', '-2j', '- 1', '-(1)', 'not a', '-1.5']),
    'Slice': ('expr_slice', ['a:b', 'a:b:c', ':']),
    'TupleOfSlice': ('expr_slice', ['a:b, c', 'a, b:c:d']),
    'Compare': ('Compare', ['a < b']),
    'BoolOp': ('BoolOp', ['a and b']),
    'Lambda': ('Lambda', ['lambda: a', 'lambda a, b=1: a']),
    'IfExp': ('IfExp', ['a if b else c']),
    'NamedExpr': ('NamedExpr', ['(a := b)']),
    'Yield': ('Yield', ['(yield a)', '(yield)']),
    'YieldFrom': ('YieldFrom', ['(yield from a)']),
    'Await': ('Await', ['await a']),
    'Subscript': ('Subscript', ['a[b]', 'a[b:c, d]']),
    'JoinedStr': ('JoinedStr', ['f"{a}"', 'f"x{a!r:>{b}}y"']),
    'ListComp': ('ListComp', ['[a for a in b]']),
    'GeneratorExp': ('GeneratorExp', ['(a for a in b)']),
    'arguments': ('arguments', ['', 'a', 'a, b', 'a, /, b, *c, d=1, **e', 'a=1', '*a', 'a: int', '*, a', '**k', 'a, b=c, *d',
                                'a,\n b  # c\n']),
    'arg': ('arg', ['a', 'a: int', '_', 'a: b.c', 'größe', 'ñ: 日本']),
    'keyword': ('keyword', ['k=v', '**k', 'k=[a, b]', 'k = (v)', 'größe=1', '日本=x', '**ключ', "ñ = 'ü'"]),
    'alias': ('alias', ['a', 'a.b', 'a as b', '*', 'a.b as c', '_', 'ñ', 'é.ü as 日本']),
    '_aliases': ('_aliases', ['a', 'a, b', 'a as b, c.d', '', 'a, b, c', 'a.b']),
    'withitem': ('withitem', ['a', 'a as b', '(a, b)', 'f(a) as (b, c)', '(a) as b', 'a as b.c', 'é as ü', "ñ('日本') as größe"]),
    '_withitems': ('_withitems', ['a', 'a, b', 'a as b, c', '', 'a, b, c', 'f(a), [b]']),
    'MatchValue': ('pattern', ['1', 'a.b', '-1', '1+2j', '"s"', '(1)']),
    'MatchSingleton': ('pattern', ['None', 'True', 'False']),
    'MatchSequence': ('pattern', ['[]', '[a]', '[a, b]', 'a, b', '(a, b)', '[a, *b]', '[a, [b, 1]]', '[\n a,  # c\n b,\n]', 'a,',
                                  '[a, b, c]', '()', '[*_, a]', '(a, [b], {1: c}, C(d))', '[a as b]', '[1 | 2, a]']),
    'MatchMapping': ('pattern', ['{}', '{1: a}', '{1: a, **r}', '{**r}', "{'k': [a, b]}", '{1: a, 2: b, 3: c}', '{a.b: c, -1: d}',
                                 '{\n 1: a,  # c\n **r\n}', '{1: _}']),
    'MatchClass': ('pattern', ['C()', 'C(a)', 'C(a, k=b)', 'a.B(1, k=[x])', 'C(a, b, c)', 'C(k=a, l=b)', 'C(\n a,  # c\n k=b,\n)', 'C(D(a))']),
    'MatchStar': ('pattern', ['*a', '*_']),
    'MatchAs': ('pattern', ['a', '_', '1 as a', '(a)', '[a] as b', 'é']),
    'MatchOr': ('pattern', ['a | b', '1 | 2 | 3', '(a | b) | c', '[a] | {1: b}', 'a | (b | c)', '(1 |\n 2)', 'None | C(a)', '(a)|b|c']),
    '_pattern_attrlikes': ('_pattern_attrlikes', ['a', 'a, b', 'a, k=b', '', 'k=1', 'a, b, c', '[a], {1: b}', 'a,\n b  # c\n']),
    'TypeVar': ('type_param', ['T', 'T: int', '_', 'Tñ', '日本: ü']),
    'ParamSpec': ('type_param', ['**P', '**ключ']),
    'TypeVarTuple': ('type_param', ['*Ts', '*_', '*größe']),
    '_type_params': ('_type_params', ['T', 'T, *Ts, **P', 'T: int, U', '', 'T, U, V']),
    'And': ('boolop', ['and']),
    'Add': ('operator', ['+']),
    'BitOr': ('operator', ['|']),
    'USub': ('unaryop', ['-']),
    'Lt': ('cmpop', ['<']),
    'Load': ('Load', ['']),
    'Store': ('Store', ['']),
    'Del': ('Del', ['']),
}

# family modes -> expected AST base classes of the result (class-name modes are resolved by name); harness-side table
FAMILY = {
    'strict': ('Module',), 'exec': ('Module',), 'stmts': ('Module',), 'stmt': ('stmt',), 'expr': ('expr',), 'expr_all': ('expr',),
    'expr_arglike': ('expr',), 'expr_slice': ('expr',), 'Tuple_elt': ('expr',), '_arglike': ('expr', 'keyword'),
    'arguments_lambda': ('arguments',), 'Import_name': ('alias',), '_Import_names': ('_aliases',), 'ImportFrom_name': ('alias',),
    '_ImportFrom_names': ('_aliases',), 'pattern': ('pattern',), 'type_param': ('type_param',), '_expr_arglikes': ('Tuple',),
    'boolop': ('boolop',), 'operator': ('operator',), 'unaryop': ('unaryop',), 'cmpop': ('cmpop',),
}


def _cls(name):
    import fst.asttypes as T
    return getattr(ast, name, None) or getattr(T, name, None)


def expected_classes(mode):
    names = FAMILY.get(mode) or (mode,)
    cl = tuple(c for c in (_cls(n) for n in names) if isinstance(c, type))
    return cl or None


def target_modes():
    from fst import code as C
    return sorted(k for k, v in C._CODE_AS_MODE_FUNCS.items() if isinstance(k, str) and v is not None)


# `_expr_arglikes` is documented as internal ("may be an invalid python Tuple ... May fail verify()"): in the matrix, not swept
NOT_SWEPT = ('_expr_arglikes',)
# targets for which the quick tier runs every operand shape (the others: first two shapes + a random sample)
PRINCIPAL = ('pattern', 'expr', 'List', 'Tuple', 'Set', 'Dict', 'Call', 'MatchMapping', 'MatchClass', 'MatchOr', 'MatchSequence',
             '_arglikes', 'stmt', 'exec')


# ---------------------------------------------------------------------------------------------------------------------
# CPython embeddings: (prefix, suffix, extractor of the node(s) that must equal the result)

def _embed(mode, src, node):
    """parse `src` by CPython inside a construct that forces the kind of `mode`; returns a list of dumps to compare with
    `_node_dumps(node)`, or None if no embedding applies"""
    ind = src.replace('\n', '\n  ')
    k = node.__class__.__name__
    try:
        if isinstance(node, ast.MatchStar):
            return [ast.dump(ast.parse('match _:\n case [\n  ' + ind + '\n ]: pass').body[0].cases[0].pattern.patterns[0])]
        if isinstance(node, ast.pattern):
            p = ast.parse('match _:\n case (\n  ' + ind + '\n ): pass').body[0].cases[0].pattern      # parentheses never change a pattern
            return [ast.dump(p)]
        if isinstance(node, ast.Starred):
            return [ast.dump(ast.parse('[\n' + src + '\n]', mode='eval').body.elts[0])]
        if isinstance(node, ast.Slice) or (isinstance(node, ast.Tuple) and any(isinstance(e, ast.Slice) for e in node.elts)):
            return [ast.dump(ast.parse('_[\n' + src + '\n]', mode='eval').body.slice)]
        if isinstance(node, ast.expr):
            if isinstance(node, ast.Tuple) and mode in ('_expr_arglikes',):
                return None
            try:
                return [ast.dump(ast.parse('(\n' + src + '\n)', mode='eval').body)]
            except SyntaxError:
                return [ast.dump(ast.parse(src, mode='eval').body)]       # bare tuple with a comment line etc.
        if isinstance(node, ast.Module):
            return [ast.dump(ast.parse(src))]
        if isinstance(node, ast.stmt):
            return [ast.dump(ast.parse(src).body[0])]
        if k == '_arglikes':
            c = ast.parse('f(\n' + src + '\n)', mode='eval').body
            return [ast.dump(x) for x in sorted(c.args + c.keywords, key=lambda x: (x.lineno, x.col_offset))]
        if k == 'arguments':
            return [ast.dump(ast.parse('def f(\n' + src + '\n): pass').body[0].args)]
        if k == '_decorator_list':
            return [ast.dump(x) for x in ast.parse(src + '\nclass c: pass').body[0].decorator_list]
        if k == '_Assign_targets':
            return [ast.dump(x) for x in ast.parse('_ = ' + src + ' _').body[0].targets[1:]] if src.strip() else []
        if k == '_comprehension_ifs':
            return [ast.dump(x) for x in ast.parse('[_ for _ in _\n' + src + '\n]', mode='eval').body.generators[0].ifs]
        if k == '_aliases':
            if not src.strip():
                return []
            if src.strip() == '*':
                return [ast.dump(x) for x in ast.parse('from _ import *').body[0].names]
            try:
                return [ast.dump(x) for x in ast.parse('import ' + src.replace('\n', ' ')).body[0].names]
            except SyntaxError:
                return [ast.dump(x) for x in ast.parse('from _ import (' + src + ')').body[0].names]
        if k == '_type_params':
            return [ast.dump(x) for x in ast.parse('type _[\n' + src + '\n] = _').body[0].type_params] if src.strip() else []
        if k == '_pattern_attrlikes':
            m = ast.parse('match _:\n case C(\n  ' + ind + '\n ): pass').body[0].cases[0].pattern
            return [ast.dump(x) for x in m.patterns] + m.kwd_attrs + [ast.dump(x) for x in m.kwd_patterns]
        if k == 'keyword':
            return [ast.dump(ast.parse('f(\n' + src + '\n)', mode='eval').body.keywords[0])]
        if k == 'arg':
            return [ast.dump(ast.parse('def f(\n' + src + '\n): pass').body[0].args.args[0])]
        if k in ('TypeVar', 'ParamSpec', 'TypeVarTuple'):
            return [ast.dump(ast.parse('type _[\n' + src + '\n] = _').body[0].type_params[0])]
    except SyntaxError as e:
        return ['SyntaxError: ' + str(e)]
    except (IndexError, AttributeError) as e:
        return ['embedding failed: ' + repr(e)]
    return None


def _shift(nodes, dl, dc):
    for n in nodes:
        for x in ast.walk(n):
            if hasattr(x, 'lineno') and x.lineno is not None:
                x.lineno -= dl
                x.col_offset -= dc
            if getattr(x, 'end_lineno', None) is not None:
                x.end_lineno -= dl
                x.end_col_offset -= dc
    if any(getattr(n, 'lineno', 1) < 1 for n in nodes):
        raise IndexError('a bare Tuple / MatchSequence root took the wrapper\'s parentheses into its own location')
    return [ast.dump(n, include_attributes=True) for n in nodes]


def _embed_pos(src, node):
    """LOCATED result = CPython's parse of the result source: the source is placed on its own lines inside a construct that
    forces the kind, the parsed nodes are shifted back by the wrapper's lines / indentation (bytes) and dumped WITH positions.
    Returns the list to compare with `_node_dumps(node, True)`, or None where no such embedding applies (a root that is a
    bare Tuple / MatchSequence would take the wrapper's parentheses into its own location; containers glued to a prefix)."""
    ind = src.replace('\n', '\n  ')
    k = node.__class__.__name__
    if '"""' in src or "'''" in src:
        return None
    try:
        if isinstance(node, ast.MatchStar):
            return _shift([ast.parse('match _:\n case [\n  ' + ind + '\n ]: pass').body[0].cases[0].pattern.patterns[0]], 2, 2)
        if isinstance(node, ast.pattern):
            if isinstance(node, ast.MatchSequence) and src.lstrip()[:1] not in '[(':
                return None
            return _shift([ast.parse('match _:\n case (\n  ' + ind + '\n ): pass').body[0].cases[0].pattern], 2, 2)
        if isinstance(node, ast.Starred):
            return _shift([ast.parse('[\n' + src + '\n]', mode='eval').body.elts[0]], 1, 0)
        if isinstance(node, ast.Slice) or (isinstance(node, ast.Tuple) and any(isinstance(e, ast.Slice) for e in node.elts)):
            return None
        if isinstance(node, ast.expr):
            if isinstance(node, ast.Tuple) and src.lstrip()[:1] != '(':
                return None
            return _shift([ast.parse('(\n' + src + '\n)', mode='eval').body], 1, 0)
        if isinstance(node, ast.Module):
            return _shift([ast.parse(src)], 0, 0)
        if isinstance(node, ast.stmt):
            return _shift([ast.parse(src).body[0]], 0, 0)
        if k == '_arglikes':
            c = ast.parse('f(\n' + src + '\n)', mode='eval').body
            return _shift(sorted(c.args + c.keywords, key=lambda x: (x.lineno, x.col_offset)), 1, 0)
        if k == 'arguments':
            return _shift([ast.parse('def f(\n' + src + '\n): pass').body[0].args], 1, 0)
        if k == '_decorator_list':
            return _shift(ast.parse(src + '\nclass c: pass').body[0].decorator_list, 0, 0)
        if k == '_comprehension_ifs':
            return _shift(ast.parse('[_ for _ in _\n' + src + '\n]', mode='eval').body.generators[0].ifs, 1, 0)
        if k == '_type_params':
            return _shift(ast.parse('type _[\n' + src + '\n] = _').body[0].type_params, 1, 0) if src.strip() else []
        if k == '_pattern_attrlikes':
            m = ast.parse('match _:\n case C(\n  ' + ind + '\n ): pass').body[0].cases[0].pattern
            return _shift(m.patterns, 2, 2) + list(m.kwd_attrs) + _shift(m.kwd_patterns, 2, 2)
        if k == 'keyword':
            return _shift([ast.parse('f(\n' + src + '\n)', mode='eval').body.keywords[0]], 1, 0)
        if k == 'arg':
            return _shift([ast.parse('def f(\n' + src + '\n): pass').body[0].args.args[0]], 1, 0)
        if k in ('TypeVar', 'ParamSpec', 'TypeVarTuple'):
            return _shift([ast.parse('type _[\n' + src + '\n] = _').body[0].type_params[0]], 1, 0)
    except (SyntaxError, IndexError, AttributeError):
        return None
    return None


def _node_dumps(node, pos=False):
    if pos:
        d = lambda x: ast.dump(x, include_attributes=True)  # noqa: E731
        k = node.__class__.__name__
        sub = {'_arglikes': 'arglikes', '_decorator_list': 'decorator_list', '_comprehension_ifs': 'ifs', '_type_params': 'type_params'}
        if k in sub:
            return [d(x) for x in getattr(node, sub[k])]
        if k == '_pattern_attrlikes':
            return [d(x) for x in node.patterns] + list(node.kwd_attrs) + [d(x) for x in node.kwd_patterns]
        return [d(node)]
    return _node_dumps0(node)


def _node_dumps0(node):
    k = node.__class__.__name__
    if k == '_arglikes':
        return [ast.dump(x) for x in node.arglikes]
    if k == '_decorator_list':
        return [ast.dump(x) for x in node.decorator_list]
    if k == '_Assign_targets':
        return [ast.dump(x) for x in node.targets]
    if k == '_comprehension_ifs':
        return [ast.dump(x) for x in node.ifs]
    if k == '_aliases':
        return [ast.dump(x) for x in node.names]
    if k == '_type_params':
        return [ast.dump(x) for x in node.type_params]
    if k == '_pattern_attrlikes':
        return [ast.dump(x) for x in node.patterns] + list(node.kwd_attrs) + [ast.dump(x) for x in node.kwd_patterns]
    return [ast.dump(node)]


def _store_insensitive(d):
    return d.replace('ctx=Store()', 'ctx=Load()').replace('ctx=Del()', 'ctx=Load()')


# ---------------------------------------------------------------------------------------------------------------------
# one (operand, target) evaluation: the property itself

# a refusal is NodeError / ValueError / SyntaxError / ParseError / NotImplementedError (and, on the unchanged tree, the AttributeError
# of the two_step hack); these classes are never a refusal: an `assert` or an indexing slip inside the coercion code
INTERNAL = (AssertionError, IndexError, KeyError, TypeError, UnboundLocalError, RuntimeError, ZeroDivisionError)


def _h(*parts):
    return int(hashlib.blake2b('|'.join(map(str, parts)).encode(), digest_size=4).hexdigest(), 16)


def _dump(a):
    return ast.dump(a)


def _outcome(kind0, r, same):
    if same:
        return 'same'
    return 'coerces:' + r.a.__class__.__name__


def _check_result(res, route, r, target, leaves0, exp):
    """checks on a returned node; appends (class, what) to res['fails']"""
    from fst import FST
    fails = res['fails']
    if r.parent is not None or not r.is_root:
        fails.append((route, 'not-root', 'result is not a standalone root'))
        return
    src = r.src
    d = _dump(r.a)
    k = r.a.__class__.__name__
    if isinstance(r.a, ast.Set) and not r.a.elts:
        res['empty_set'] = True          # documented: "will give invalid empty Set node" `{}` unless norm=True; not judged
        return
    # kind
    if exp is not None and not isinstance(r.a, exp):
        fails.append((route, 'kind', f'result kind {k} is not an instance of the requested {target}'))
    # parses in the requested mode (pfst's parser for the mode; for `all` the mode is the result's own kind)
    pmode = k if target == 'all' else ('exec' if target == 'strict' else target)     # `strict` as a parse mode returns the minimal node
    try:
        p = FST(src, pmode)
    except Exception as e:
        fails.append((route, 'no-parse', f'result source {src!r} does not parse as {pmode}: {type(e).__name__}: {str(e)[:80]}'))
        p = None
    if p is not None:
        if _dump(p.a) != d:
            fails.append((route, 'reparse-differs', f'result source {src!r} parses as {pmode} to a different tree: '
                          + M_first_diff(d, _dump(p.a))))
        elif ast.dump(p.a, include_attributes=True) != ast.dump(r.a, include_attributes=True):
            fails.append((route, 'positions', f'result tree has other positions than a parse of its source {src!r}'))
    # CPython embedding
    emb = _embed(target, src, r.a)
    if emb is not None:
        nd = _node_dumps(r.a)
        if [_store_insensitive(x) for x in emb] != [_store_insensitive(x) for x in nd] and p is not None:
            fails.append((route, 'cpython-differs', f'CPython parses result source {src!r} (embedded as {k}) to {str(emb)[:160]}, '
                          f'result tree is {str(nd)[:160]}'))
        elif p is not None:
            # located result = parse(result source), judged by CPython (byte columns)
            ep = _embed_pos(src, r.a)
            if ep is not None:
                res['located'] = True
                np_ = _node_dumps(r.a, True)
                if [_store_insensitive(x) for x in ep] != [_store_insensitive(x) for x in np_]:
                    a_, b_ = ' '.join(map(str, np_)), ' '.join(map(str, ep))
                    fails.append((route, 'positions(cpython)', f'result tree is not located where CPython locates the nodes of its '
                                  f'source {src!r}: ' + M_first_diff(_store_insensitive(a_), _store_insensitive(b_))))
        res['embedded'] = True
    # every located node's cached `.loc` is its AST position (byte columns converted by the harness): no stale location cache
    lines = src.split('\n')
    try:
        for f in r.walk(True):
            a = f.a
            if getattr(a, 'end_col_offset', None) is None or getattr(a, 'lineno', None) is None:
                continue
            want = (a.lineno - 1, len(lines[a.lineno - 1].encode()[:a.col_offset].decode(errors='replace')),
                    a.end_lineno - 1, len(lines[a.end_lineno - 1].encode()[:a.end_col_offset].decode(errors='replace')))
            loc = f.loc
            if loc is not None and tuple(loc[:4]) != want and not any(c[1] == 'positions' for c in fails):
                fails.append((route, 'loc-cache', f'{a.__class__.__name__} node reports loc {tuple(loc[:4])}, its AST position is {want} '
                              f'in result source {src!r}'))
                break
    except Exception as e:
        fails.append((route, 'walk-raises', f'walking the result raised {type(e).__name__}: {str(e)[:80]}'))
    # leaves
    lv = M.leaves(r.a)
    if lv != leaves0:
        fails.append((route, 'leaves', f'leaf sequence changed: operand {leaves0} result {lv}'))


def M_first_diff(a, b, ctx=50):
    n = min(len(a), len(b))
    i = next((k for k in range(n) if a[k] != b[k]), n)
    return f'@{i}: result={a[max(0, i - ctx):i + ctx]!r} parsed={b[max(0, i - ctx):i + ctx]!r}'


def _eval_pair(arg):
    kind, si, pmode, src, target = arg
    from fst import FST, code as C
    res = {'kind': kind, 'si': si, 'target': target, 'src': src, 'pmode': pmode, 'fails': [], 'out': {}, 'exc': {}}
    try:
        f0 = FST(src, pmode)
    except Exception as e:
        res['skip'] = f'operand does not parse: {type(e).__name__}'
        return res
    src0 = f0.src
    dump0 = _dump(f0.a)
    kind0 = f0.a.__class__.__name__
    res['kind0'] = kind0
    tree0 = M.pure(f0.a)
    leaves0 = M.leaves(tree0)
    leaves0_ast = M.leaves(M.pure(f0.a, False))
    exp = expected_classes(target) if target != 'all' else None
    already = exp is not None and isinstance(f0.a, exp)
    res['already'] = already
    sel = _h(kind, si, target)
    results = {}
    for route in ('fst', 'ast'):
        # ---- coerce disabled
        try:
            if route == 'fst':
                fa = FST(src, pmode)
                ra = C.code_as(fa, target, coerce=False)
                same = _dump(ra.a) == dump0
                if same and (ra is not fa or ra.src != src0):
                    res['notes'] = res.get('notes', []) + ['coerce=False returned an equal tree, but not the operand itself / other source']
            else:
                a = M.pure(f0.a)
                ra = C.code_as(a, target, coerce=False)
                same = _dump(ra.a) == dump0
            off = _outcome(kind0, ra, same)
            if not same and ra.a.__class__.__name__ != kind0:
                res['fails'].append((route, 'coerced-while-disabled', f'coerce=False returned a {ra.a.__class__.__name__}'))
        except Exception as e:
            off = 'refuses:' + type(e).__name__
        # ---- coerce enabled, non-destructive entry points
        try:
            if route == 'fst':
                fb = FST(src, pmode)
                rb = fb.as_(target, copy=True) if sel & 1 else FST(fb, target)
                if fb.src != src0 or _dump(fb.a) != dump0 or fb.verify(raise_=False) is None:
                    res['fails'].append((route, 'operand-mutated', f'copy-mode coercion changed the operand: src {fb.src!r}'))
            else:
                b = M.pure(f0.a)
                rb = FST.fromast(b, target) if sel & 1 else FST(b, target)
                if _dump(b) != dump0:
                    res['fails'].append((route, 'operand-mutated', 'coercion of a pure AST changed the AST passed in'))
            same = _dump(rb.a) == dump0
            on = _outcome(kind0, rb, same)
            results[route] = rb
        except Exception as e:
            on = 'refuses:' + type(e).__name__
            rb = None
            if isinstance(e, INTERNAL):
                res['fails'].append((route, 'internal-error', f'coercion died with {type(e).__name__}: {str(e)[:100]} (an internal '
                                     'invariant failure, not a refusal)'))
        res['out'][route] = (off, on)
        if rb is None:
            continue
        if on == 'same':
            # the operand itself (or an equal tree) comes back: only kind and leaves are judged, its source was read in the
            # operand's own mode (e.g. a bare `a,` is a Tuple as `Tuple` but reads as `a` in `_arglike`)
            if exp is not None and not isinstance(rb.a, exp):
                res['fails'].append((route, 'kind', f'unchanged result {kind0} is not an instance of the requested {target}'))
        else:
            # a pure AST has no source order: its leaves are taken in field order (position-less copy), which is the order
            # its unparse prints; the formatted operand's leaves are in source order
            _check_result(res, route, rb, target, leaves0 if route == 'fst' else leaves0_ast, exp)
        # already the requested kind -> unchanged
        if off == 'same' or already:
            if _dump(rb.a) != dump0:
                res['fails'].append((route, 'same-kind-changed', f'operand already is a {target} but the result differs: {rb.src!r}'))
            elif route == 'fst':
                if rb.src != src0:
                    res['notes'] = res.get('notes', []) + ['same-kind-src-changed']
                try:
                    fc = FST(src, pmode)
                    rc = fc.as_(target)
                    if off == 'same' and rc is not fc:
                        res['fails'].append((route, 'same-kind-not-identity', 'as_() of a root that already has the requested kind did not return self'))
                except Exception as e:
                    res['fails'].append((route, 'same-kind-raises', f'in-place as_() raised {type(e).__name__} although copy-mode returned'))
    # ---- formatted vs pure route
    if len(results) == 2 and not res.get('empty_set'):
        d1, d2 = _dump(results['fst'].a), _dump(results['ast'].a)
        if d1 != d2:
            res['fails'].append(('both', _route_diff_class(results['fst'].a, results['ast'].a),
                                 f'formatted route gives {results["fst"].src!r}, pure-AST route {results["ast"].src!r}: '
                                 + M_first_diff(d1, d2)))
    elif len(results) == 1:
        res['one_sided'] = next(iter(results))
    return res


def _flatten_or(a):
    """copy with nested MatchOr alternatives spliced into their parent MatchOr"""
    a = M.pure(a)
    for n in ast.walk(a):
        if isinstance(n, ast.MatchOr):
            ch = True
            while ch:
                ch = False
                new = []
                for p in n.patterns:
                    if isinstance(p, ast.MatchOr):
                        new.extend(p.patterns)
                        ch = True
                    else:
                        new.append(p)
                n.patterns = new
    return a


def _route_diff_class(fa, pa):
    """narrow the class of a formatted-vs-pure difference: only MatchOr nesting / only Tuple-vs-List / anything else"""
    if _dump(_flatten_or(fa)) == _dump(_flatten_or(pa)):
        return 'fmt!=pure(MatchOr nesting)'
    if _dump(fa).replace('Tuple(', 'List(') == _dump(pa).replace('Tuple(', 'List('):
        return 'fmt!=pure(Tuple vs List)'
    return 'fmt!=pure'


_XSHAPES = None


def xshapes():
    global _XSHAPES
    if _XSHAPES is None:
        _XSHAPES = M.container_shapes()
    return _XSHAPES


def operand(kind, label):
    """(parse mode, source) of the operand named by a signature: `s<i>` = SOURCES shape, `m<i>` = its multi-byte variant,
    `x<i>` = element-class shape"""
    label = str(label)
    if label.startswith('m'):
        pmode, shapes = SOURCES[kind]
        return pmode, M.mb_variant(shapes[int(label[1:])])
    if label.startswith('l'):
        pmode, shapes = SOURCES[kind]
        return pmode, M.ml_variant(shapes[int(label[1:])])
    if label.startswith('t'):
        pmode, shapes = SOURCES[kind]
        return pmode, M.trivia_variant(shapes[int(label[1:])])
    tbl = SOURCES if label.startswith('s') or label.isdigit() else xshapes()
    pmode, shapes = tbl[kind]
    return pmode, shapes[int(label.lstrip('sx'))]


def mb_pairs(full, coercing):
    """every SOURCES shape with every identifier and plain string made multi-byte (`m<i>`), for every (kind, target) cell in which
    some operand of the kind is coerced; thorough: for every target"""
    targets = target_modes()
    jobs = []
    for kind, (pmode, shapes) in SOURCES.items():
        ms = [(f'm{i}', M.mb_variant(x)) for i, x in enumerate(shapes)]
        # `l<i>`: the shape broken over two physical lines at its first operator outside any bracket (valid only where enclosed)
        ms += [(f'l{i}', M.ml_variant(x)) for i, x in enumerate(shapes)]
        # `t<i>`: the shape with a leading comment line, a trailing line comment and a trailing comment line around it
        ms += [(f't{i}', M.trivia_variant(x)) for i, x in enumerate(shapes)]
        ms = [(lab, x) for lab, x in ms if x is not None]
        for t in targets:
            if t in NOT_SWEPT or (not full and (kind, t) not in coercing):
                continue
            for lab, x in ms:
                jobs.append((kind, lab, pmode, x, t))
    return jobs


def extra_pairs(full, rng, coercing):
    """element-class shapes of the container kinds (every positional class alone, every ordered pair, all, names incl. `_`)
    for every (kind, target) cell in which some operand of the kind is coerced; thorough: for every target"""
    targets = target_modes()
    jobs = []
    for kind, (pmode, shapes) in xshapes().items():
        for t in targets:
            if t in NOT_SWEPT or (not full and (kind, t) not in coercing):
                continue
            for si, src in enumerate(shapes):
                jobs.append((kind, f'x{si}', pmode, src, t))
    return jobs


def coercing_cells(results):
    out = set()
    for r in results:
        for off, on in r.get('out', {}).values():
            if on.startswith('coerces'):
                out.add((r['kind'], r['target']))
    return out


def pairs(ctx, full, rng):
    targets = target_modes()
    xs = xshapes()
    jobs = []
    for kind, (pmode, shapes) in SOURCES.items():
        for si, src in enumerate(shapes):
            for t in targets:
                # quick: all shapes for the principal targets and for the container kinds (their results decide, deterministically,
                # in which cells the element-class shapes run); the rest: first two shapes + a random sample
                if t in NOT_SWEPT or (not full and si >= 2 and t not in PRINCIPAL and kind not in xs and rng.random() > 0.12):
                    continue
                jobs.append((kind, f's{si}', pmode, src, t))
    return jobs


def _sig(r, route, cls):
    return f'C19|{r["kind"]}->{r["target"]}|{r["si"]}/{route}|{cls}'


def _report(ctx, results):
    n = 0
    for r in results:
        if 'skip' in r:
            ctx.tally('sweep_skipped', r['skip'])
            continue
        for route, (off, on) in r['out'].items():
            n += 1
            ctx.count((r['kind'], r['si'], r['target'], route), on.startswith('coerces') or (on.startswith('refuses') and not off.startswith('same')))
            ctx.tally('outcome', on.split(':')[0])
            if on.startswith('coerces'):
                ctx.tally('coerced (source kind -> target mode = result kind)', f'{r["kind"]}->{r["target"]}={on[8:]}')
            if on.startswith('refuses'):
                ctx.tally('refusal_exception_class', on[8:])
        if r.get('one_sided'):
            ctx.tally('only_one_route_returns', r['one_sided'])
        ctx.tally('result_located_by_cpython_embedding', bool(r.get('located')))
        for nt in r.get('notes', []):
            ctx.tally('notes', nt)
        for route, cls, what in r['fails']:
            ctx.fail(_sig(r, route, cls), f'{r["kind"]} {r["src"]!r} -> {r["target"]} ({route}): {what}',
                     {'kind': r['kind'], 'si': r['si'], 'pmode': r['pmode'], 'src': r['src'], 'target': r['target'], 'route': route,
                      'class': cls})
    return n


# ---- puts that coerce vs puts of the explicitly converted node

PUT_SLOTS = [
    # (name, container source, container mode, how, explicit target mode)
    ('match_case.pattern', 'case _: pass', 'match_case', ('put', 'pattern'), 'pattern'),
    ('Assign.value', 'x = y', 'stmt', ('put', 'value'), 'expr'),
    ('Return.value', 'return y', 'stmt', ('put', 'value'), 'expr'),
    ('List.elts', '[x, y]', 'expr', ('slice', 0, 1, 'elts'), 'expr'),
    ('Call.args', 'f(x, y)', 'expr', ('slice', 0, 1, '_args'), '_arglikes'),
    ('ClassDef.decorator_list', '@x\nclass c: pass', 'stmt', ('slice', 0, 1, 'decorator_list'), '_decorator_list'),
    ('Assign.targets', 'x = y = z', 'stmt', ('slice', 0, 1, 'targets'), '_Assign_targets'),
    ('Import.names', 'import x, y', 'stmt', ('slice', 0, 1, 'names'), '_Import_names'),
    ('With.items', 'with x, y: pass', 'stmt', ('slice', 0, 1, 'items'), '_withitems'),
    ('MatchSequence.patterns', '[x, y]', 'pattern', ('slice', 0, 1, 'patterns'), 'pattern'),
    ('MatchClass._attrs', 'C(x, y)', 'pattern', ('slice', 0, 1, '_attrs'), '_pattern_attrlikes'),
    ('FunctionDef.type_params', 'def f[X, Y](): pass', 'stmt', ('slice', 0, 1, 'type_params'), '_type_params'),
    ('Dict._all', '{1: x, 2: y}', 'expr', ('slice', 0, 1, '_all'), 'Dict'),
    ('MatchMapping._all', '{1: x, 2: y}', 'pattern', ('slice', 0, 1, '_all'), 'MatchMapping'),
    ('FunctionDef.args', 'def f(x): pass', 'stmt', ('put', 'args'), 'arguments'),
    ('comprehension.ifs', 'for x in y if z', 'comprehension', ('slice', 0, 1, 'ifs'), '_comprehension_ifs'),
    ('TypeAlias.type_params', 'type t[X, Y] = z', 'stmt', ('slice', 0, 1, 'type_params'), '_type_params'),
]


def _do_put(cont, how, code):
    if how[0] == 'put':
        cont.put(code, how[1])
    else:
        cont.put_slice(code, how[1], how[2], how[3])
    return cont.root


def _eval_put(arg):
    name, csrc, cmode, how, target, kind, si, pmode, src, route = arg
    from fst import FST
    res = {'slot': name, 'kind': kind, 'si': si, 'src': src, 'pmode': pmode, 'target': target, 'route': route}
    try:
        op = FST(src, pmode)
    except Exception:
        res['skip'] = 'operand does not parse'
        return res
    exp = expected_classes(target)
    if exp is not None and isinstance(op.a, exp):
        res['skip'] = 'operand already has the kind'
        return res
    mk = (lambda: FST(src, pmode)) if route == 'fst' else (lambda: M.pure(FST(src, pmode).a))
    conv_ok = False
    try:
        conv = FST(mk(), target)
        try:
            conv_ok = _dump(FST(conv.src, target).a) == _dump(conv.a)     # the converted node is valid on its own
        except Exception:
            pass
    except Exception as e:
        conv = None
        res['explicit'] = 'refuses:' + type(e).__name__
    try:
        c1 = _do_put(FST(csrc, cmode), how, mk())
        res['implicit'] = 'ok'
    except Exception as e:
        c1 = None
        res['implicit'] = 'refuses:' + type(e).__name__
    if conv is None or c1 is None:
        return res
    try:
        c2 = _do_put(FST(csrc, cmode), how, conv)
    except Exception as e:
        res['explicit'] = 'put-refuses:' + type(e).__name__
        return res
    res['explicit'] = 'ok'
    d1, d2 = _dump(c1.a), _dump(c2.a)
    if d1 != d2:
        res['fail'] = f'put of the {kind} {src!r} gives {c1.src!r}, put of its explicit conversion to {target} gives {c2.src!r}'
    else:
        try:
            reff = FST(c1.src, cmode)
            ref = _dump(reff.a)
            if ref != d1:
                res['fail_parse'] = f'container after the coercing put, {c1.src!r}, parses to another tree'
            elif ast.dump(reff.a, include_attributes=True) != ast.dump(c1.a, include_attributes=True):
                res['fail_pos'] = f'container after the coercing put, {c1.src!r}, has other positions than a parse of its source'
        except Exception as e:
            broken2 = False
            try:
                FST(c2.src, cmode)
            except Exception:
                broken2 = True
            if conv_ok and broken2:
                # putting the VALID, explicitly converted node breaks the container in the same way: the put is at fault whatever the
                # operand's kind (e.g. a trailing comment of an `arguments` operand swallows `):`), not the coercion -> C01's business
                res['put_broken_regardless'] = True
            else:
                res['fail_parse'] = f'container source after the coercing put does not parse: {c1.src!r} ({type(e).__name__})'
    return res


def put_jobs(full, rng):
    jobs = []
    for (name, csrc, cmode, how, target) in PUT_SLOTS:
        for kind, (pmode, shapes) in SOURCES.items():
            for si, src in enumerate(shapes):
                if not full and si >= 2 and rng.random() > 0.25:
                    continue
                for route in ('fst', 'ast'):
                    jobs.append((name, csrc, cmode, how, target, kind, f's{si}', pmode, src, route))
        for kind, (pmode, shapes) in xshapes().items():
            for si, src in enumerate(shapes):
                if not full and rng.random() > 0.3:
                    continue
                for route in ('fst', 'ast'):
                    jobs.append((name, csrc, cmode, how, target, kind, f'x{si}', pmode, src, route))
        for kind, (pmode, shapes) in SOURCES.items():
            for si, src in enumerate(shapes):
                msrc = M.mb_variant(src)
                if msrc is None or (not full and rng.random() > 0.5):
                    continue
                jobs.append((name, csrc, cmode, how, target, kind, f'm{si}', pmode, msrc, 'fst'))
            for si, src in enumerate(shapes):
                lsrc = M.ml_variant(src)
                if lsrc is not None:
                    jobs.append((name, csrc, cmode, how, target, kind, f'l{si}', pmode, lsrc, 'fst'))
                tsrc = M.trivia_variant(src)        # operand with trivia outside its own location: every put strips it
                if tsrc is not None:
                    jobs.append((name, csrc, cmode, how, target, kind, f't{si}', pmode, tsrc, 'fst'))
    return jobs


def _report_puts(ctx, results):
    n = 0
    for r in results:
        if 'skip' in r:
            continue
        n += 1
        ctx.count(('put', r['slot'], r['kind'], r['si'], r['route']), r.get('implicit') == 'ok')
        ctx.tally('put_coerce', f'{r.get("implicit")}/{r.get("explicit")}')
        if r.get('put_broken_regardless'):
            ctx.tally('put_breaks_container_also_with_the_valid_converted_node(not C19)', r['slot'])
        if 'fail' in r:
            ctx.fail(f'C19|put:{r["slot"]}<-{r["kind"]}|{r["si"]}/{r["route"]}|put!=explicit', r['fail'],
                     {'put_slot': r['slot'], 'kind': r['kind'], 'si': r['si'], 'route': r['route'], 'src': r['src'], 'pmode': r['pmode']})
        if 'fail_pos' in r:
            ctx.fail(f'C19|put:{r["slot"]}<-{r["kind"]}|{r["si"]}/{r["route"]}|put-positions', r['fail_pos'],
                     {'put_slot': r['slot'], 'kind': r['kind'], 'si': r['si'], 'route': r['route'], 'src': r['src'], 'pmode': r['pmode']})
        if 'fail_parse' in r:
            ctx.fail(f'C19|put:{r["slot"]}<-{r["kind"]}|{r["si"]}/{r["route"]}|put-no-parse', r['fail_parse'],
                     {'put_slot': r['slot'], 'kind': r['kind'], 'si': r['si'], 'route': r['route'], 'src': r['src'], 'pmode': r['pmode']})
    return n


def sweep(ctx):
    rng = random.Random(ctx.rng.random())
    jobs = pairs(ctx, not ctx.quick, rng)
    res = pmap(_eval_pair, jobs)
    ctx.notes['sweep_pairs'] = _report(ctx, res)
    cells = coercing_cells(res)
    xres = pmap(_eval_pair, extra_pairs(not ctx.quick, rng, cells))
    ctx.notes['sweep_element_class_pairs'] = _report(ctx, xres)
    ctx.notes['sweep_multibyte_variant_pairs'] = _report(ctx, pmap(_eval_pair, mb_pairs(not ctx.quick, cells)))
    ctx.notes['coercing_cells_of_container_kinds'] = len([c for c in cells if c[0] in xshapes()])
    pj = put_jobs(not ctx.quick, rng)
    ctx.notes['sweep_puts'] = _report_puts(ctx, pmap(_eval_put, pj))
    ctx.exhaustive = not ctx.quick
    good = [r for r in res if any(o[1].startswith('coerces') for o in r.get('out', {}).values())]
    if good:
        g = good[len(good) // 2]
        ctx.sample({'sweep': {k: g[k] for k in ('kind', 'src', 'target', 'out')}})


def search(ctx):
    rng = random.Random(ctx.rng.random())
    res = pmap(_eval_pair, pairs(ctx, True, rng))
    ctx.notes['search_pairs'] = _report(ctx, res)
    ctx.notes['search_element_class_pairs'] = _report(ctx, pmap(_eval_pair, extra_pairs(True, rng, set())))
    ctx.notes['search_multibyte_variant_pairs'] = _report(ctx, pmap(_eval_pair, mb_pairs(True, set())))
    ctx.notes['search_puts'] = _report_puts(ctx, pmap(_eval_put, put_jobs(True, rng)))
    # wider operands: generated sources through the two principal targets
    g = M.SrcGen(rng)
    pg = M.PatGen(rng)
    jobs = []
    for i in range(4000):
        jobs.append(('gen-expr', i, 'expr', g.expr(rng.choice([1, 2, 3])), rng.choice(['pattern', 'pattern', 'List', 'Tuple', 'Set', '_arglikes'])))
        jobs.append(('gen-pattern', i, 'pattern', pg.pat(rng.choice([1, 2, 3]), True), rng.choice(['expr', 'expr', 'List', 'Tuple', '_arglikes'])))
    res = pmap(_eval_pair, jobs)
    for r in res:
        for route, cls, what in r.get('fails', []):
            ctx.fail(f'C19|{r.get("kind0")}->{r["target"]}|generated/{route}|{cls}', f'{r["src"]!r} -> {r["target"]} ({route}): {what}',
                     {'kind': r['kind'], 'si': r['si'], 'pmode': r['pmode'], 'src': r['src'], 'target': r['target'], 'route': route, 'class': cls})


def replay(ctx, data):
    w = data.get('witness')
    if not w:
        print('replay names a broken obligation:', data.get('broken'))
        return
    if 'put_slot' in w:
        slot = next(s for s in PUT_SLOTS if s[0] == w['put_slot'])
        if 'src' in w:
            pmode, src = w['pmode'], w['src']
        else:
            pmode, src = operand(w['kind'], w['si'])
        r = _eval_put(slot + (w['kind'], w['si'], pmode, src, w['route']))
        for k in ('fail', 'fail_parse', 'fail_pos'):
            if k in r:
                ctx.fail('replay', r[k], w)
        return
    r = _eval_pair((w['kind'], w['si'], w['pmode'], w['src'], w['target']))
    want = w.get('class')
    for route, cls, what in r.get('fails', []):
        if want and want != cls:
            continue            # the witness names one failure class; another failure on the same input is another matter
        ctx.fail(_sig(r, route, cls), f'({route}) {cls}: {what}', w)


# ---------------------------------------------------------------------------------------------------------------------
# extraction: the coercion matrix -> lean/Pfst/Gen/Coerce.lean

def _matrix_cell(arg):
    kind, pmode, src, target = arg
    r = _eval_pair((kind, 's0', pmode, src, target))
    return kind, target, r.get('out'), r.get('kind0')


def matrix():
    targets = target_modes()
    jobs = [(k, pm, shapes[0], t) for k, (pm, shapes) in SOURCES.items() for t in targets]
    return targets, pmap(_matrix_cell, jobs)


def extract(ctx):
    targets, cells = matrix()
    kinds = []              # every kind that occurs as a source kind (its real class name) or as a result kind

    def kid(name):
        if name not in kinds:
            kinds.append(name)
        return kinds.index(name)

    excs = []

    def code(o, k0):
        if o == 'same':
            return 0
        if o.startswith('coerces:'):
            return 1 + kid(o[8:])
        e = o[8:]
        if e not in excs:
            excs.append(e)
        return 1000 + excs.index(e)

    src_kind = {}
    for k, (pm, shapes) in SOURCES.items():
        pass
    by_mode = {t: [] for t in targets}
    for kind, target, out, k0 in cells:
        if out is None or k0 is None:
            raise RuntimeError(f'matrix witness of {kind} does not parse')
        src_kind[kind] = k0
        for ri, route in enumerate(('fst', 'ast')):
            off, on = out[route]
            by_mode[target].append((kid(k0), ri, code(off, k0), code(on, k0)))
    lines = ['-- GENERATED on every run by harness/props/C19.py (extract) from /repo: the coercion matrix, obtained by running',
             '-- code_as / as_ / FST(node, mode) / fromast on one minimal witness per source kind.  The committed copy corresponds',
             '-- to the pinned tree.',
             'namespace Pfst.Gen.Coerce', '',
             '/-- node kinds (source kinds of the witnesses and result kinds); index = kind id -/',
             'def kinds : List String := [' + ', '.join(f'"{k}"' for k in kinds) + ']', '',
             '/-- parse modes (targets); index = mode id -/',
             'def modes : List String := [' + ', '.join(f'"{m}"' for m in targets) + ']', '',
             '/-- exception classes of refusals; index = exception id -/',
             'def excs : List String := [' + ', '.join(f'"{e}"' for e in excs) + ']', '',
             '/-- One cell, packed: ((kind * 2 + route) * 2000 + off) * 2000 + on, with route 0 = formatted FST / 1 = pure AST,',
             '`off` / `on` the outcome with coerce=False / coerce=True; outcome 0 = returned unchanged, 1+k = a node of kind k,',
             '1000+x = raised exception x. -/',
             'def cellKind (c : Nat) : Nat := c / 8000000',
             'def cellRoute (c : Nat) : Nat := c / 4000000 % 2',
             'def cellOff (c : Nat) : Nat := c / 2000 % 2000',
             'def cellOn (c : Nat) : Nat := c % 2000', '']
    for mi, t in enumerate(targets):
        lines.append(f'def row{mi} : List Nat := [' + ', '.join(str(((a * 2 + b) * 2000 + c) * 2000 + d) for a, b, c, d in by_mode[t]) + ']')
    lines += ['', '/-- per mode id: its cells (every source kind x route) -/',
              'def table : List (Nat × List Nat) := [' + ', '.join(f'({mi}, row{mi})' for mi in range(len(targets))) + ']',
              '', 'end Pfst.Gen.Coerce', '']
    write_if_changed(LEAN / 'Pfst' / 'Gen' / 'Coerce.lean', '\n'.join(lines))
    ctx.notes['matrix'] = {'source_kinds': len(SOURCES), 'modes': len(targets), 'cells': sum(len(v) for v in by_mode.values())}
    for kind, target, out, k0 in cells:
        for route in ('fst', 'ast'):
            ctx.tally('matrix_outcome(coerce=True)', out[route][1].split(':')[0])


# ---------------------------------------------------------------------------------------------------------------------
# correspondence: Lean model vs the real functions

REFUSAL = ('NodeError', 'AttributeError', 'ValueError', 'ParseError', 'SyntaxError')


def _strip_lpar(j):
    if isinstance(j, list):
        if j and j[0] == 'binop' and len(j) == 5:
            return ['binop', _strip_lpar(j[1]), j[2], _strip_lpar(j[3]), False]
        return [_strip_lpar(x) for x in j]
    if isinstance(j, dict):
        return {k: _strip_lpar(v) for k, v in j.items()}
    return j


def _exc(e):
    n = type(e).__name__
    return None if n in REFUSAL else {'exc': n}


def _direct_case(arg):
    """pure-AST route through the internal functions: [(lean case, impl out, meta)]"""
    what, src, tree = arg
    from fst import code as C
    out = []
    try:
        if what == 'expr':
            a = tree if tree is not None else M.parse_expr_src(src)
            case = {'f': 'C19.toPattern', 'e': M.ser_expr(a), 'fmt': False}
            try:
                r = C._coerce_to_pattern_ast(M.pure(a), False, {}, {})
                impl = M.ser_pattern(r)
            except Exception as e:
                impl = _exc(e)
            out.append((case, impl, src or ast.dump(a)))
        else:
            a = tree if tree is not None else M.parse_pattern_src(src)
            case = {'f': 'C19.toExpr', 'p': M.ser_pattern(a), 'fmt': False}
            try:
                r = C._coerce_to_expr_ast(M.pure(a), False, {}, {})[0]
                impl = M.ser_expr(r)
            except Exception as e:
                impl = _exc(e)
            out.append((case, impl, src or ast.dump(a)))
    except SyntaxError:
        pass
    return out


def _has_slice_or_lone_star(a):
    if isinstance(a, (ast.Starred, ast.Slice)):
        return True
    return isinstance(a, ast.Tuple) and any(isinstance(e, ast.Slice) for e in a.elts)


def _api_case(arg):
    """public entry points, both routes: [(lean case, impl out, meta, cpython_valid)]"""
    what, src, target, sel = arg
    from fst import FST, code as C
    out = []
    try:
        ref = M.parse_expr_src(src) if what == 'expr' else M.parse_pattern_src(src)
    except SyntaxError:
        return out
    pmode = 'expr' if what == 'expr' else 'pattern'
    for route in ('fst', 'ast'):
        try:
            f = FST(src, pmode)
        except Exception:
            return out
        if _dump(f.a) != _dump(ref):
            return out            # pfst reads the source differently from CPython: not a coercion question (C-parse properties)
        if _has_slice_or_lone_star(f.a):
            return out
        fmt = route == 'fst'
        node = M.ser_node(f.a, f.lines if fmt else None)
        case = {'f': 'C19.coerce', 'node': node, 'target': target, 'fmt': fmt}
        try:
            if fmt:
                r = [lambda: f.as_(target), lambda: FST(f, target), lambda: C.code_as(f, target, coerce=True),
                     lambda: f.as_(target, copy=True)][sel % 4]()
            else:
                a = M.pure(f.a)
                r = [lambda: FST(a, target), lambda: FST.fromast(a, target), lambda: C.code_as(a, target, coerce=True)][sel % 3]()
            impl = _ser_result(r, fmt)
        except Exception as e:
            impl = _exc(e)
        out.append((case, impl, (src, route, target)))
    return out


def _ser_result(r, fmt):
    """result tree as model JSON; on the formatted route the MatchSequence delimiter annotation is read from a CPython parse of
    the result SOURCE when that parse has the same structure (the result tree's own positions are C01's matter)"""
    if not fmt:
        return M.strip_annot(M.ser_node(r.a, None))
    if isinstance(r.a, ast.pattern):
        emb = 'match _:\n case (\n  ' + r.src.replace('\n', '\n  ') + '\n ): pass'       # parentheses never change a pattern
        try:
            ref = ast.parse(emb).body[0].cases[0].pattern
            if _dump(ref) == _dump(r.a):
                return M.ser_node(ref, emb.split('\n'))
        except SyntaxError:
            pass
    return M.ser_node(r.a, r.lines)


def _empty_set(j):
    """does a model result contain an empty Set (documented special case: source `{}` / `{*()}`)"""
    if isinstance(j, list):
        if len(j) == 2 and j[0] == 'set' and j[1] == []:
            return True
        return any(_empty_set(x) for x in j)
    if isinstance(j, dict):
        return any(_empty_set(v) for v in j.values())
    return False


def _valid_by_cpython(j_node):
    """is the model's result a tree CPython can print and read back unchanged (pure route: pfst re-parses the unparse)"""
    try:
        a = des_node(j_node)
        ast.fix_missing_locations(a)
        src = ast.unparse(a)
        if isinstance(a, ast.pattern):
            b = ast.parse('match _:\n case ' + src + ': pass').body[0].cases[0].pattern
        elif isinstance(a, ast.Starred):
            b = ast.parse('[' + src + ']', mode='eval').body.elts[0]
        else:
            b = ast.parse('(' + src + ')', mode='eval').body
        return _store_insensitive(ast.dump(b)) == _store_insensitive(ast.dump(a))
    except Exception:
        return False


def des_const(j):
    t = j[0]
    if t == 'none':
        return None
    if t == 'bool':
        return j[1]
    if t == 'ellipsis':
        return ...
    return ast.literal_eval(j[-1]) if t != 'cplx' else complex(j[-1])


def des_expr(j):
    L = ast.Load()
    t = j[0]
    if t == 'name':
        return ast.Name(j[1], L)
    if t == 'const':
        return ast.Constant(des_const(j[1]))
    if t == 'attr':
        return ast.Attribute(des_expr(j[1]), j[2], L)
    if t in ('list', 'tuple'):
        return (ast.List if t == 'list' else ast.Tuple)([des_expr(x) for x in j[1]], L)
    if t == 'set':
        return ast.Set([des_expr(x) for x in j[1]])
    if t == 'starred':
        return ast.Starred(des_expr(j[1]), L)
    if t == 'dict':
        ks, vs = [], []
        for it in j[1]:
            if it[0] == 'kv':
                ks.append(des_expr(it[1]))
                vs.append(des_expr(it[2]))
            else:
                ks.append(None)
                vs.append(des_expr(it[1]))
        return ast.Dict(ks, vs)
    if t == 'call':
        return ast.Call(des_expr(j[1]), [des_expr(x) for x in j[2]], [ast.keyword(k[1], des_expr(k[2])) for k in j[3]])
    if t == 'binop':
        return ast.BinOp(des_expr(j[1]), getattr(ast, j[2])(), des_expr(j[3]))
    if t == 'unop':
        return ast.UnaryOp(getattr(ast, j[1])(), des_expr(j[2]))
    raise ValueError(t)


def des_pattern(j):
    t = j[0]
    if t == 'value':
        return ast.MatchValue(des_expr(j[1]))
    if t == 'singleton':
        return ast.MatchSingleton(des_const(j[1]))
    if t == 'capture':
        return ast.MatchAs(None, j[1])
    if t == 'asPat':
        return ast.MatchAs(des_pattern(j[1]), j[2])
    if t == 'seq':
        return ast.MatchSequence([des_pattern(x) for x in j[2]])
    if t == 'star':
        return ast.MatchStar(j[1])
    if t == 'mapping':
        return ast.MatchMapping([des_expr(x[1]) for x in j[1]], [des_pattern(x[2]) for x in j[1]], j[2])
    if t == 'cls':
        return ast.MatchClass(des_expr(j[1]), [des_pattern(x) for x in j[2]], [x[1] for x in j[3]], [des_pattern(x[2]) for x in j[3]])
    if t == 'or':
        return ast.MatchOr([des_pattern(x) for x in j[1]])
    raise ValueError(t)


def des_node(j):
    return des_pattern(j['p']) if 'p' in j else des_expr(j['e'])


def _args_case(arg):
    """`arguments` operands through FST(node, '_type_params' / '_pattern_attrlikes'), both routes"""
    src, target = arg
    from fst import FST
    out = []
    try:
        ref = ast.parse('def f(\n' + src + '\n): pass').body[0].args
    except SyntaxError:
        return out
    for route in ('fst', 'ast'):
        fmt = route == 'fst'
        try:
            f = FST(src, 'arguments')
        except Exception:
            return out
        if _dump(f.a) != _dump(ref):
            return out
        fn = 'C19.argsToTypeParams' if target == '_type_params' else 'C19.argsToAttrlikes'
        case = {'f': fn, 'a': M.ser_arguments(f.a, fmt), 'fmt': fmt}
        try:
            r = FST(f, target) if fmt else FST(M.pure(f.a), target)
            if target == '_type_params':
                impl = M.ser_type_params(r.a.type_params)
            else:
                impl = {'patterns': [M.ser_pattern(x) for x in r.a.patterns],
                        'kws': [['pkw', k, M.ser_pattern(x)] for k, x in zip(r.a.kwd_attrs, r.a.kwd_patterns, strict=True)]}
        except Exception as e:
            impl = _exc(e)
        out.append((case, impl, (src, route, target)))
    return out


def _args_sources(rng, n):
    g = M.SrcGen(rng, bad=0.05, layout=False)
    out = list(M.container_shapes()['arguments'][1])
    for _ in range(n):
        parts = []
        npos = rng.choice([0, 1, 2, 3])
        ndef = rng.randint(0, npos)
        for i in range(npos):
            nm = rng.choice(['a', 'b', 'c', '_', 'p', 'q']) + (str(i) if rng.random() < 0.7 else '')
            if nm[0] == '_' and len(nm) > 1:
                nm = '_'
            ann = ': ' + rng.choice(['int', 'a.b', 'list[int]']) if rng.random() < 0.15 else ''
            dfl = '=' + g.expr(rng.choice([0, 1, 2]), True) if i >= npos - ndef else ''
            parts.append(nm + ann + dfl)
        if rng.random() < 0.15 and parts:
            parts.insert(rng.randint(1, len(parts)), '/')
        star = False
        if rng.random() < 0.4:
            parts.append('*' + rng.choice(['v', '_', 'rest']) + (': int' if rng.random() < 0.1 else ''))
            star = True
        for i in range(rng.choice([0, 0, 1, 2])):
            if not star:
                parts.append('*')
                star = True
            parts.append(f'k{i}' + ('=' + g.expr(0, True) if rng.random() < 0.3 else ''))
        if rng.random() < 0.3:
            parts.append('**' + rng.choice(['kw', '_']) + (': int' if rng.random() < 0.1 else ''))
        seen = set()
        names = [p.split('=')[0].split(':')[0].strip('*') for p in parts]
        if len([x for x in names if x and x != '/']) != len(set(x for x in names if x and x != '/')):
            continue
        out.append(', '.join(parts))
    return out


def correspondence(ctx):
    q = ctx.quick
    rng = random.Random(ctx.rng.random())
    g = M.SrcGen(rng)
    pg = M.PatGen(rng)
    n = 1200 if q else 12000
    esrcs = [g.expr(rng.choice([1, 2, 2, 3])) for _ in range(n)]
    psrcs = [pg.pat(rng.choice([1, 2, 2, 3]), True) for _ in range(n)]
    # (a) internal functions, pure route (exact)
    jobs = [('expr', s, None) for s in esrcs] + [('pattern', s, None) for s in psrcs]
    jobs += [('expr', None, a) for a in M.odd_exprs()] + [('pattern', None, a) for a in M.odd_patterns()]
    items = [it for lst in pmap(_direct_case, jobs) for it in lst]
    _compare(ctx, '_coerce_to_pattern_ast/_coerce_to_expr_ast (pure AST) vs Pfst.Coerce.toPattern/toExpr', items, exact=True)
    # (b) public entry points, both routes, principal targets
    jobs = []
    for s in esrcs:
        jobs.append(('expr', s, rng.choice(['pattern', 'pattern', 'pattern', 'Tuple', 'List', 'Set', 'expr']), rng.randrange(12)))
    for s in psrcs:
        jobs.append(('pattern', s, rng.choice(['expr', 'expr', 'expr', 'Tuple', 'List', 'Set', 'pattern']), rng.randrange(12)))
    for shapes in (SOURCES['Tuple'][1], SOURCES['List'][1], SOURCES['Set'][1]):
        for s in shapes:
            for t in ('Tuple', 'List', 'Set', 'pattern', 'expr'):
                jobs.append(('expr', s, t, rng.randrange(12)))
    for s in SOURCES['MatchSequence'][1]:
        for t in ('Tuple', 'List', 'Set', 'expr', 'pattern'):
            jobs.append(('pattern', s, t, rng.randrange(12)))
    items = [it for lst in pmap(_api_case, jobs) for it in lst]
    _compare(ctx, 'as_ / FST(node, mode) / fromast / code_as vs Pfst.Coerce.coerce', items, exact=False)
    # (c) `arguments` re-read as type parameters / class-pattern attributes
    jobs = [(s, t) for s in _args_sources(rng, 300 if q else 3000) for t in ('_type_params', '_pattern_attrlikes')]
    items = [it for lst in pmap(_args_case, jobs) for it in lst]
    _compare(ctx, 'FST(arguments, _type_params / _pattern_attrlikes) vs Pfst.Coerce.argsToTypeParams/argsToAttrlikes', items, exact=False)


def _compare(ctx, name, items, exact):
    cases = [c for c, _, _ in items]
    try:
        outs = ctx.lean(cases)
    except Exception as e:
        ctx.brk('correspondence', name, f'driver error: {e}')
        return
    bad = 0
    for (c, impl, meta), mo in zip(items, outs):
        ctx.corr_cases += 1
        m = mo.get('out', mo)
        if 'err' in m:
            model = {'model_err': m['err']}
        else:
            model = m.get('p', m.get('e', m.get('r')))
        pure_route = not c.get('fmt') or c['f'].startswith('C19.args')     # args cases: no annotation is compared
        mm = _strip_lpar(model)
        if pure_route and isinstance(mm, (list, dict)):
            mm = M.strip_annot(mm)
        ii = _strip_lpar(impl)
        if pure_route and isinstance(ii, (list, dict)):
            ii = M.strip_annot(ii)
        ctx.count(c, impl is not None and not m.get('same_kind', False))
        ctx.tally('correspondence_outcome', ('refused' if impl is None else 'returned') + ('/pure' if pure_route else '/formatted'))
        ok = mm == ii
        if ok and model is not None and 'leaves_out' in m and m['leaves_in'] != m['leaves_out']:
            ok = False          # cannot happen (theorem); guards the driver serialisation
        if not ok and not exact:
            # documented / source-level reasons for which an entry point refuses or re-reads what the function built
            if isinstance(mm, dict) and _empty_set(mm):
                ctx.tally('correspondence_excluded', 'empty Set (documented normalisation)')
                continue
            if isinstance(mm, dict) and 'patterns' in mm:
                mm_node = {'p': ['cls', ['name', 'C'], mm['patterns'], mm['kws']]}
            else:
                mm_node = mm
            if not c.get('fmt') and impl is None and isinstance(mm_node, dict) and not _valid_by_cpython(mm_node):
                ctx.tally('correspondence_excluded', 'pure route: built tree is not valid Python, entry point refuses on re-parse')
                continue
        if not ok:
            bad += 1
            if len(ctx.corr_disagreements) < 20:
                ctx.corr_disagreements.append({'corr': name, 'input': meta, 'case': c, 'impl': impl, 'model': model})
            ctx.hints.append((name, meta))
    ctx.tally('correspondence_cases', name)
    ctx.dist['correspondence_cases'][name] = len(items)
    if items:
        ctx.sample({'corr': name, 'input': items[len(items) // 2][2], 'impl': items[len(items) // 2][1]})
    if bad:
        ctx.brk('correspondence', name, f'{bad}/{len(items)} cases differ; first: ' + str(ctx.corr_disagreements[0])[:1500])
