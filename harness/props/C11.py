"""C11 — whitespace-only source edits in offset mode keep every node on its text."""

import ast
import random
import tokenize

import corpus
import util
from framework import pmap

ID = 'C11'
LEAN_MODULES = ['Pfst.Props.C11', 'Pfst.Props.C11b', 'Pfst.Props.C04']
LEAN_DEPS = ['Pfst.Offset', 'Pfst.OffsetLemmas', 'Pfst.Text', 'Pfst.TextLemmas', 'Pfst.Clip']
THEOREMS = [
    'Pfst.C11.break_eq_full', 'Pfst.C11.before_fixed', 'Pfst.C11.after_shift', 'Pfst.C11.container_grows',
    'Pfst.C11.params_bytes', 'Pfst.C11.offsetNode_table',
    # coordinate spellings (clip_src_loc): negative / 'end' spellings denote the same location, results are inside the source
    'Pfst.C11b.clip_bounds', 'Pfst.C11b.clip_canonical', 'Pfst.C11b.clip_spellings', 'Pfst.C11b.clip_refuses_iff',
    # text level (shared text layer, Pfst/Props/C04.lean): what _put_src does to the lines, and that spans shifted by
    # exactly (dln, dcol) denote the same text — the byte dcol is the one _params_offset computes
    'Pfst.C04.putSrc_flat', 'Pfst.C04.getSrc_before', 'Pfst.C04.getSrc_after', 'Pfst.C04.getSrc_container', 'Pfst.C04.dcol_bytes',
]
RULE = ('(a) FST._offset called directly on real trees (syntax-ordered children, decorators, unpositioned nodes, some '
        'nodes made zero-length) with random and boundary offset points and every (tail, head) in {True,False,None}^2, '
        'exclude/self_ variants, compared position-for-position with the Lean model; (b) put_src(action="offset") on '
        'every kind of inter-token gap of corpus programs with single- and multi-line trivia replacements, called on '
        'the innermost strictly containing node, compared with the Lean composite model AND with ast.parse of the new '
        'source; the location is passed in every spelling clip_src_loc accepts (plain, negative from the end of the source / '
        'of the line, "end"); a list of special sources (calls and class bases with interleaved starred / keyword '
        'arguments, decorators, multi-byte text) gets EVERY gap edited in every run; (c) clip_src_loc itself vs the Lean '
        'model on random and boundary coordinates. distinct = distinct (tree, parameters) inputs; non-trivial = at least '
        'one position changes')
TRUSTED = ['modelled: fst_core._offset, _params_offset, the offset branch of FST.put_src, fst_misc.clip_src_loc (Pfst/Clip.lean); _put_src is modelled in Pfst/Text.lean',
           'the order of children (syntax_ordered_children) is an INPUT of the offset model taken from pfst; that it is source order is C14\'s theorem and is judged here per case by ast.parse of the edited source',
           'not modelled: cache flushing side effect of _offset (see C02), the f-string debug-text maintenance in _Modifying']
ASSUMPTIONS = ['the hypothesis `geo` of break_eq_full is evaluated by the Lean driver on every tree used (reported as geo_false)',
               'one put_src call is one atomic step']

TRI = [True, False, None]


def _mk_fst(src):
    from fst import FST
    return FST(src, 'exec')


def _direct_case(arg):
    """(src, seed) -> list of (lean case, impl out)"""
    src, seed = arg
    rng = random.Random(seed)
    out = []
    try:
        root = _mk_fst(src)
    except Exception:
        return out
    nodes = [a for a in ast.walk(root.a) if getattr(a, 'end_col_offset', None) is not None]
    if not nodes:
        return out
    for _ in range(6):
        root = _mk_fst(src)
        nodes = [a for a in ast.walk(root.a) if getattr(a, 'end_col_offset', None) is not None]
        # sometimes collapse a leaf node to zero length (start := end or end := start)
        if rng.random() < 0.3:
            leafs = [a for a in nodes if not util.soc(a)]
            if leafs:
                z = rng.choice(leafs)
                if rng.random() < 0.5:
                    z.end_lineno, z.end_col_offset = z.lineno, z.col_offset
                else:
                    z.lineno, z.col_offset = z.end_lineno, z.end_col_offset
        tree, ids = util.ser_tree(root.a)
        n = rng.choice(nodes)
        # offset point: a node boundary (most interesting) or random
        c = rng.random()
        if c < 0.4:
            lno, colo = n.lineno, n.col_offset
        elif c < 0.8:
            lno, colo = n.end_lineno, n.end_col_offset
        else:
            lno, colo = rng.randint(1, len(root.lines)), rng.randint(0, 12)
        dln = rng.choice([0, 0, 0, 1, -1, 2])
        dcol = rng.choice([0, 1, 2, -1, -2, 5]) if dln or rng.random() < 0.9 else 0
        tail, head = rng.choice(TRI), rng.choice(TRI)
        excl = None
        off_ex = True
        self_ = True
        target = root
        if rng.random() < 0.3:
            ex = rng.choice(nodes)
            excl = ex.f
            off_ex = rng.random() < 0.6
        if rng.random() < 0.25:
            self_ = False
        if rng.random() < 0.2:
            target = rng.choice(nodes).f
        params = {'lno': lno, 'colo': colo, 'dln': dln, 'dcol': dcol, 'tail': tail, 'head': head,
                  'offset_excluded': off_ex}
        if excl is not None:
            params['exclude'] = ids[id(excl.a)]
        # model runs on the subtree of `target`
        sub, _ = (tree, None) if target is root else (_subtree(tree, ids[id(target.a)]), None)
        case = {'f': 'C11.offset', 'tree': sub, 'params': params, 'self': self_}
        before = _pos_by_id(root.a, ids)
        try:
            target._offset(lno - 1, -colo, dln, dcol, tail, head, excl, offset_excluded=off_ex, self_=self_)
        except Exception as e:
            out.append((case, {'exc': type(e).__name__}))
            continue
        after = _pos_by_id(root.a, ids)
        sub_ids = _ids_of(sub)
        impl = {'pos': [[i, after[i]] for i in sub_ids]}
        changed = any(before[i] != after[i] for i in sub_ids)
        out.append((case, impl, changed))
    return out


def _subtree(tree, i):
    st = [tree]
    while st:
        t = st.pop()
        if t[0] == i:
            return t
        st.extend(t[3])
    raise KeyError(i)


def _ids_of(tree):
    out = []

    def go(t):
        out.append(t[0])
        for k in t[3]:
            go(k)

    go(tree)
    return out


def _pos_by_id(a, ids):
    d = {}
    for n in ast.walk(a):
        i = ids.get(id(n))
        if i is None:
            continue
        if getattr(n, 'end_col_offset', None) is not None:
            d[i] = [n.lineno, n.col_offset, n.end_lineno, n.end_col_offset]
        else:
            d[i] = None
    return d


# ---- put_src(action='offset') on token gaps ------------------------------------------------------------------------

FSTR_STRUCT = {'{', '}', '!', ':', '=', '(', ')', '[', ']'}


def gaps(src):
    """[(ln, col, end_ln, end_col, depth, in_fstring)] char coordinates, 0-based lines; gaps between consecutive
    significant tokens where whitespace may be changed (not indentation; inside f-strings only between ordinary tokens of a
    replacement field, away from the field's structural tokens)."""
    out = []
    try:
        toks = util.tokens(src)
    except Exception:
        return out
    depth = 0
    fdepth = 0
    prev = None
    prev_tok = None
    for t in toks:
        name = tokenize.tok_name[t.type]
        if t.type in (tokenize.INDENT, tokenize.DEDENT, tokenize.ENDMARKER):
            continue
        if t.type in (tokenize.NEWLINE, tokenize.NL, tokenize.COMMENT):
            prev = None
            prev_tok = None
            continue
        if name == 'FSTRING_START':
            if prev is not None and fdepth == 0:
                out.append((prev[0] - 1, prev[1], t.start[0] - 1, t.start[1], depth, False))
            fdepth += 1
            prev = None
            prev_tok = None
            continue
        if name == 'FSTRING_END':
            fdepth -= 1
            prev = t.end if fdepth == 0 else None
            prev_tok = None
            continue
        if name == 'FSTRING_MIDDLE':
            prev = None
            prev_tok = None
            continue
        if fdepth > 0:
            ok = (t.type != tokenize.OP or t.string not in FSTR_STRUCT)
            if prev is not None and prev_tok is not None and ok and prev[0] == t.start[0]:
                out.append((prev[0] - 1, prev[1], t.start[0] - 1, t.start[1], 1, True))
            prev = t.end if ok else None
            prev_tok = t if ok else None
            continue
        if prev is not None:
            out.append((prev[0] - 1, prev[1], t.start[0] - 1, t.start[1], depth, False))
        if t.type == tokenize.OP:
            if t.string in '([{':
                depth += 1
            elif t.string in ')]}':
                depth -= 1
        prev = t.end
        prev_tok = t
    return out


def _norm_fstr_consts(tree):
    """ast.dump with the string Constants inside JoinedStr blanked (debug-field text legitimately follows whitespace)"""
    tree = ast.parse(ast.unparse(tree)) if False else tree
    import copy as _copy
    t = _copy.deepcopy(tree)
    for n in ast.walk(t):
        if isinstance(n, ast.JoinedStr):
            for v in n.values:
                if isinstance(v, ast.Constant) and isinstance(v.value, str):
                    v.value = ''
    return ast.dump(t)


def _replacements(rng, depth, old):
    c = [' ', '  ', '   ', ' \\\n ', '\\\n', ' \\\n     ']
    if depth > 0:
        c += ['\n', '\n  ', ' # c\n    ', '\n\n # é comment\n', '\n# x\n# y\n  ', ' \n ', '  # ü\n']
    if old:
        c += ['', '']
    return rng.choice(c)


def _innermost(root, ln, col, end_ln, end_col):
    best = None
    for f in root.walk(True):
        loc = f.loc
        if loc is None:
            continue
        if (loc.ln, loc.col) < (ln, col) and (end_ln, end_col) < (loc.end_ln, loc.end_col):
            if best is None or (loc.ln, loc.col, -loc.end_ln, -loc.end_col) >= (best[1].ln, best[1].col, -best[1].end_ln, -best[1].end_col):
                best = (f, loc)     # later in preorder with same-or-tighter span = deeper
    return best[0] if best else root


def _spell(rng, lines, ln, col, end_ln, end_col):
    """the same location in one of the spellings clip_src_loc accepts"""
    if rng.random() < 0.4:
        return [ln, col, end_ln, end_col]
    n = len(lines)

    def sp_ln(x):
        r = rng.random()
        return x - n if r < 0.5 else ('end' if x == n - 1 and r < 0.8 else x)

    def sp_col(x, line):
        r = rng.random()
        if x == len(line):
            return 'end' if r < 0.7 else x
        return x - len(line) if r < 0.7 else x

    return [sp_ln(ln), sp_col(col, lines[ln]), sp_ln(end_ln), sp_col(end_col, lines[end_ln])]


# sources whose EVERY gap is edited in every run (shapes the random corpus rarely produces)
SPECIAL = [
    'f(a=1, *b, c=2, d=3, e=4)\n', 'f(x, k=1, *a, j=2, *b, *c, *d)\n', 'f(k=1, *a, *b, *c, **kw)\n', 'f(*a, k=1, *b, j=2, **c)\n',
    'class C(a, m=1, *b, n=2, o=3, p=4): pass\n', 'class C(m=1, *a, *b, *c): pass\n',
    'r = f("é", k="ü", *a, j=2, *b, l=3, m=4)\n', 'f(\n    a=1,\n    *b,\n    c=2,  # é\n    d=3,\n    e=4,\n)\n',
    '@d(a=1, *b, c=2, d=3)\n@e\ndef f(p, /, q=1, *r, s=2, **t): pass\n', 'x = {**a, b: c, **d, "é": é}\n',
    'x = [i for i in f(k=1, *a, *b, *c) if i if "é"]\n', 'match s:\n    case C(a, k=b, l=c) | {1: d, **e} | [f, *g]: pass\n',
    'with a as b, c as d, (e): pass\n', 'def f[T, *U, **P](a: "é" = 1, *b: c, d: e = 2, **g) -> h: pass\n',
    'x = a if b else c if d else "é" if é else f\n', 'x = a < b <= c != "é" in d not in e is f\n',
    'try:\n    pass\nexcept (A, B) as e:\n    pass\nexcept* C:\n    pass\n' if False else 'try:\n    pass\nexcept (A, B) as e:\n    pass\nelse:\n    pass\nfinally:\n    pass\n',
    'x = f"{a!r:>{w}} é {b=}" "é" f"{c}"\n', 'lambda a, /, b=1, *c, d=2, **e: (a, b)\n', 'x = a[b:c:d, e, ..., *f]\n',
    'from m import (a as b, c as d, e)\nimport p.q as r, s\nglobal g, h\n', 'async def f():\n    async with a as b: await c\n    async for i in j: yield i\n',
    'type A[T: int, *U, **P] = dict[T, U]\n', 'del a, b[c], d.e\nassert a, "é"\nraise E from c\n',
    # self-documenting f-string fields whose expression has gaps owned by operator nodes (two-word operators, unary, ternary)
    "x = f'{a is not b = }'\n", "x = f'{a not in b=}'\n", "x = f'{é is not ü = :>5} {c not in d = !r}'\n", "x = f'{a if b else c = }'\n",
    "x = f'{not a = }' f'{- a=}'\n", "x = f'''{a + b = !r\n}'''\n", "x = f'''{a + b = !s\n:>5}'''\n", "x = f'''é{\n a + b\n = !a\n}'''\n", "é = [a,\n b]; ü = f('üüü',\n a)\n", "x = f'{a and b or c = }'\n", "x = f'{a < b <= c = }'\n", "x = f'{f(a, k = 1) = }'\n", "x = f'{a [ b : c ] = }'\n",
    # debug fields whose `=` is followed by 0..3 comment / continuation lines before the closing brace, conversion or format spec
    "x = f'''{a + b =  # first\n    # second\n}'''\n", "x = f'''{a + b =  # first\n    # second\n  # third\n}'''\n", "x = f'''{a + b =\n\n}'''\n",
    "x = f'''{é + ü =  # é\n    # ü\n !r}'''\n", "x = f'''{a + b =  # first\n    # second\n :>5}'''\n", "x = f'''é{a + b = \\\n  \\\n}ü'''\n",
    "x = f'''{a + b =  # only\n}''' f'''{c - d = \\\n}'''\n", "x = f'''{a +\n b  # c\n =  # first\n    # second\n}'''\n",
    'class Shape(Base, metaclass=abc.ABCMeta,\n            *mixins): pass\n', 'class C(a, k=1,\n  *b, j=2,\n *c): pass\n', 'r = f(a, key=1,\n  *b, last=2,\n *c)\n',
]


# put texts with characters str.splitlines() takes for line ends but Python (and pfst's own line splitting) does not: form feed
# as blank space between tokens; VT, FS/GS/RS, NEL, LS, PS inside comments (the put text's line count and last-line length decide
# every later position)
EXOTIC = [' \x0c ', '\x0c', ' \\\n \x0c', ' # a\u2028b\n ', '  # \x85 é\n', ' # \x1d\x1e\x1c\n  ', '\n # \u2029\n # \x0b \x0c\n ', ' # c\x0cd\n']


def _gap_case(arg):
    src, seed, per = arg[:3]
    forced = arg[3] if len(arg) > 3 else None
    rng = random.Random(seed)
    out = []
    gs = gaps(src)
    if not gs:
        return out
    try:
        ref_dump = ast.dump(ast.parse(src))
    except Exception:
        return out
    lines0 = src.split('\n')
    rng.shuffle(gs)
    gs.sort(key=lambda g: not g[5])          # f-string field gaps first (rare), then the shuffled rest
    for gi, (ln, col, end_ln, end_col, depth, in_f) in enumerate(gs[:per]):
        old = '\n'.join(lines0[ln:end_ln + 1])
        oldtxt = lines0[ln][col:end_col] if ln == end_ln else None
        new = rng.choice([' ', '  ', '']) if in_f else _replacements(rng, depth, (ln, col) != (end_ln, end_col))
        if forced:
            if in_f:
                continue
            new = forced[(gi + seed) % len(forced)]
            if '\n' in new and not new.startswith(' \\\n') and depth == 0:
                new = forced[(gi + seed) % 3]
        # predicted text (spec of the splice, plain Python)
        pre = '\n'.join(lines0[:ln] + [lines0[ln][:col]])
        post = '\n'.join([lines0[end_ln][end_col:]] + lines0[end_ln + 1:])
        new_src = pre + new + post
        try:
            new_tree = ast.parse(new_src)
        except SyntaxError:
            continue
        if in_f:
            if _norm_fstr_consts(new_tree) != _norm_fstr_consts(ast.parse(src)):
                continue
        elif ast.dump(new_tree) != ref_dump:
            continue        # not a trivia-preserving replacement (tokens merged)
        root = _mk_fst(src)
        try:
            node = _innermost(root, ln, col, end_ln, end_col)
        except Exception as e:          # a location query on an unmodified tree raised: nothing can be edited through it
            out.append({'case': {'f': 'C11.put_src_offset', 'tree': None}, 'impl': {'exc': 'loc query: ' + type(e).__name__}, 'src': src, 'call': [ln, col, end_ln, end_col],
                        'edit': [new, ln, col, end_ln, end_col], 'kind': 'loc-query', 'oracle': 'raised', 'extra_edit': True})
            continue
        tree, ids = util.ser_tree(root.a)
        put_lines = new.split('\n')
        a = [len(put_lines), ln, end_ln, util.byte_len(lines0[end_ln][:end_col]), util.byte_len(put_lines[-1]),
             util.byte_len(lines0[ln][:col])]
        case = {'f': 'C11.put_src_offset', 'tree': tree, 'self': ids[id(node.a)], 'a': a}
        call = _spell(rng, lines0, ln, col, end_ln, end_col)
        try:
            ret = node.put_src(new, *call, 'offset')
        except Exception as e:
            out.append({'case': case, 'impl': {'exc': type(e).__name__ + ': ' + str(e)[:80]}, 'src': src, 'call': call,
                        'edit': [new, ln, col, end_ln, end_col], 'kind': node.a.__class__.__name__, 'oracle': 'raised'})
            continue
        after = _pos_by_id(root.a, ids)
        impl = {'pos': [[i, after[i]] for i in _ids_of(tree)]}
        oracle = None
        extra_edit = False
        if root.src != new_src and in_f:
            # inside an f-string field pfst may also normalise the blank between `{` and a value starting with `{`
            # (an additional edit of its own): C11 only requires the tree to equal a parse of the resulting source
            extra_edit = True
            try:
                d2 = util.dump_pos(ast.parse(root.src))
            except SyntaxError as e:
                d2 = f'<resulting source does not parse: {e}>'
            d1 = util.dump_pos(root.a)
            if d1 != d2:
                oracle = 'tree differs from a from-scratch parse of the resulting source: ' + util.first_diff(d1, d2)
        elif root.src != new_src:
            oracle = 'source is not the requested splice'
        else:
            d1 = util.dump_pos(root.a)
            d2 = util.dump_pos(new_tree)
            if d1 != d2:
                oracle = 'tree differs from a from-scratch parse: ' + util.first_diff(d1, d2)
        out.append({'case': case, 'impl': impl, 'src': src, 'edit': [new, ln, col, end_ln, end_col], 'call': call,
                    'spelling': 'plain' if call == [ln, col, end_ln, end_col] else 'respelled',
                    'kind': node.a.__class__.__name__, 'oracle': oracle, 'multiline': '\n' in new, 'in_fstring': in_f,
                    'extra_edit': extra_edit,
                    'nonascii_before': not lines0[end_ln][:end_col].isascii()})
    return out


def _programs(ctx, n, stdlib):
    rng = random.Random(ctx.rng.random())
    return corpus.programs(rng, n, stdlib=stdlib)


def correspondence(ctx):
    q = ctx.quick
    progs = _programs(ctx, 150 if q else 1200, 10 if q else 150)
    # (a) direct _offset
    res = pmap(_direct_case, [(p, ctx.rng.randrange(1 << 30)) for p in progs])
    cases, impls, nontriv = [], [], []
    for lst in res:
        for item in lst:
            cases.append(item[0])
            impls.append(item[1])
            nontriv.append(item[2] if len(item) > 2 else False)
    nt = dict((id(c), t) for c, t in zip(cases, nontriv))
    geo_false = [0]

    _compare_pos(ctx, 'offset(direct) vs Pfst.Offset.offsetTree/offsetKids', cases, impls, nt, geo_false)
    # (b) put_src offset on gaps: run in sweep() together with the CPython oracle (same executions)
    ctx.notes['geo_false_direct'] = geo_false[0]
    # (c) clip_src_loc vs Pfst.Clip.clip
    rng = random.Random(ctx.rng.random())
    ccases = []
    for _ in range(4000 if q else 40000):
        lens = [rng.choice([0, 0, 1, 2, 3, 5, 9]) for _ in range(rng.randint(1, 5))]
        n = len(lens)

        def co(hi):
            r = rng.random()
            return 'end' if r < 0.12 else rng.randint(-hi - 3, hi + 3)
        ccases.append([lens, [co(n), co(10), co(n), co(10)]])
    impl = pmap(_clip_impl, ccases)
    try:
        outs = ctx.lean([{'f': 'C11.clip', 'lens': c[0], 'c': c[1]} for c in ccases])
    except Exception as e:
        ctx.brk('correspondence', 'clip_src_loc vs Pfst.Clip.clip', f'driver error: {e}')
        outs = []
    bad = []
    for c, r, m in zip(ccases, impl, outs):
        ctx.corr_cases += 1
        m = m.get('out', m)
        ctx.count(('clip', str(c)), 'ok' in m and m['ok'] != c[1])
        ctx.tally('clip_outcome', 'ok' if 'ok' in m else m.get('refused', 'err'))
        if _clip_differs(r, m):
            bad.append((c, r, m))
    ctx.dist['correspondence_cases']['clip_src_loc vs Pfst.Clip.clip'] = len(ccases)
    if bad:
        ctx.corr_disagreements.append({'corr': 'clip_src_loc vs Pfst.Clip.clip', 'case': bad[0][0], 'impl': bad[0][1], 'model': bad[0][2]})
        ctx.brk('correspondence', 'clip_src_loc vs Pfst.Clip.clip', f'{len(bad)}/{len(ccases)} cases differ; first: {bad[0]}')
        ctx.hints.append(('clip', bad[0][0]))


def _clip_impl(c):
    from fst import FST
    from fst.fst_misc import clip_src_loc
    lens, co = c
    root = FST('\n'.join('x' * k for k in lens), 'exec') if False else None
    class _R:                       # clip_src_loc only reads self.root._lines
        pass
    r = _R()
    r.root = r
    r._lines = ['x' * k for k in lens]
    try:
        return {'ok': list(clip_src_loc(r, *co))}
    except IndexError as e:
        return {'refused': 'line' if 'line cannot' in str(e) else 'col'}
    except Exception as e:
        return {'exc': repr(e)[:100]}


def _clip_differs(r, m):
    return r != m


def _compare_pos(ctx, name, cases, impls, nt, geo_false):
    try:
        outs = ctx.lean(cases)
    except Exception as e:
        ctx.brk('correspondence', name, f'driver error: {e}')
        return
    bad = 0
    for c, io_, mo in zip(cases, impls, outs):
        ctx.corr_cases += 1
        m = mo.get('out', mo)
        if isinstance(m, dict) and m.get('geo') is False:
            geo_false[0] += 1
        mpos = {'pos': m.get('pos')} if isinstance(m, dict) and 'pos' in m else m
        ctx.count(c, nt.get(id(c), True))
        if 'exc' in io_ or mpos != io_:
            bad += 1
            if len(ctx.corr_disagreements) < 20:
                diff = None
                if 'pos' in io_ and isinstance(mpos, dict) and mpos.get('pos'):
                    diff = [(a, b) for a, b in zip(io_['pos'], mpos['pos']) if a != b][:5]
                ctx.corr_disagreements.append({'corr': name, 'case': c, 'impl_vs_model_first_diffs': diff, 'impl_exc': io_.get('exc')})
            ctx.hints.append((name, c))
    ctx.tally('correspondence_cases', name)
    ctx.dist['correspondence_cases'][name] = len(cases)
    if cases:
        ctx.sample({'corr': name, 'params': cases[0].get('params', cases[0].get('a')), 'n_nodes': len(_ids_of(cases[0]['tree']))})
    if bad:
        ctx.brk('correspondence', name, f'{bad}/{len(cases)} cases differ; first: ' + str(ctx.corr_disagreements[0])[:1200])


def sweep(ctx):
    """put_src(action='offset') on token gaps: Lean composite model vs pfst (correspondence) and pfst vs CPython parse of
    the new source (the property itself, per case)."""
    q = ctx.quick
    progs = _programs(ctx, 250 if q else 2500, 20 if q else 300)
    jobs = [(p, ctx.rng.randrange(1 << 30), 14 if q else 40) for p in progs]
    for rep in range(2 if q else 8):          # every gap of every special source, with different replacements / spellings
        jobs += [(p, 7919 * rep + i, 10 ** 6) for i, p in enumerate(SPECIAL + corpus.hard_snippets())]
    for rep in range(len(EXOTIC)):            # every gap of the special sources with every exotic put text
        jobs += [(p, rep, 10 ** 6, EXOTIC) for p in SPECIAL[:12] + SPECIAL[-3:]]
    res = pmap(_gap_case, jobs)
    items = [it for lst in res for it in lst]
    ctx.tally('spelling', 'x')
    ctx.dist['spelling'] = {}
    for it in items:
        ctx.dist['spelling'][it.get('spelling', 'raised')] = ctx.dist['spelling'].get(it.get('spelling', 'raised'), 0) + 1
    ctx.notes['fstring_field_edits_with_extra_pfst_normalisation'] = sum(1 for it in items if it.get('extra_edit'))
    cases = [it['case'] for it in items if not it.get('extra_edit')]
    impls = [it['impl'] for it in items if not it.get('extra_edit')]
    nt = {id(c): True for c in cases}
    geo_false = [0]
    _compare_pos(ctx, 'put_src(offset) vs Pfst.Offset.putSrcOffset', cases, impls, nt, geo_false)
    ctx.notes['geo_false_gaps'] = geo_false[0]
    for it in items:
        ctx.tally('self_kind', it['kind'])
        ctx.tally('multiline_put', it.get('multiline'))
        ctx.tally('in_fstring_field', it.get('in_fstring'))
        ctx.tally('nonascii_before_spot', it.get('nonascii_before'))
        if it['oracle']:
            ctx.fail(f'C11|put_src-offset|{it["kind"]}|{"raised" if it["oracle"] == "raised" else "tree!=parse"}',
                     f'put_src(action="offset") on {it["kind"]}: {it["oracle"]}',
                     {'src': it['src'], 'edit': it['edit'], 'call': it.get('call'), 'self_kind': it['kind']})
    if items:
        ctx.sample({'put_src_offset': {'src': items[0]['src'][:200], 'edit': items[0]['edit'], 'self': items[0]['kind']}})
    ctx.notes['gap_edits'] = len(items)


def search(ctx):
    """The model/proof/correspondence broke: evaluate the property itself on the implementation, more widely."""
    progs = _programs(ctx, 3000, 200)
    res = pmap(_gap_case, [(p, ctx.rng.randrange(1 << 30), 60) for p in progs])
    n = 0
    for lst in res:
        for it in lst:
            n += 1
            if it['oracle']:
                ctx.fail(f'C11|put_src-offset|{it["kind"]}|{"raised" if it["oracle"] == "raised" else "tree!=parse"}',
                         f'put_src(action="offset") on {it["kind"]}: {it["oracle"]}',
                         {'src': it['src'], 'edit': it['edit'], 'call': it.get('call'), 'self_kind': it['kind']})
    ctx.notes['search_edits'] = n


def replay(ctx, data):
    w = data.get('witness')
    if not w:
        print('replay file names a broken obligation, not an input:', [b for b in data.get('broken', [])][:3])
        return
    if 'clip' in w:
        r = _clip_impl(w['clip'])
        m = ctx.lean([{'f': 'C11.clip', 'lens': w['clip'][0], 'c': w['clip'][1]}])[0]
        if _clip_differs(r, m.get('out', m)):
            ctx.fail('replay', f'clip_src_loc {r} differs from the model {m}', w)
        return
    src, (new, ln, col, end_ln, end_col) = w['src'], w['edit']
    root = _mk_fst(src)
    node = _innermost(root, ln, col, end_ln, end_col)
    try:
        node.put_src(new, *w.get('call', [ln, col, end_ln, end_col]), 'offset')
    except Exception as e:
        ctx.fail('replay', f'raised {e!r}', w)
        return
    d = util.tree_equals_parse(root)
    if d:
        ctx.fail('replay', d, w)

LEVEL_TEXT = ('Lean 4 theorems about an executable model of _offset/_params_offset/put_src(offset): the walk with early '
              'break/continue equals the naive map on every geometrically ordered tree (any size, depth, parameters); '
              'nodes before the spot are fixed, nodes after it shift by exactly the delta, containers grow; byte-delta '
              'formula; the docstring table. Tied to /repo by running model and implementation on the same trees each run.')
LEVEL_NOTE = ('Theorems are about the model; the tie is differential (thousands of real trees per run, all positions '
              'compared). CPython ast.parse is the judge for "equal to a from-scratch parse". The text-level statements '
              '(getSrc_before/after/container, dcol_bytes) are proved in the shared text layer and audited here too; which '
              'text counts as trivia for CPython is judged per case by ast.parse.')
TECHNIQUE = 'Lean 4 proof (structural induction over nested trees, omega/decide) + model-implementation correspondence'
